"""Case generator shared by checks/c12.py and checks/c13.py: random Writer operation sequences.

Case line: `<bufsize> <fill> <limit> <op> ...`; ops (':'-separated):
  id:N qr:B opc:N aa:B tc:B rd:B ra:B rc:N xrc:N
  q:<name>:<qtype>:<qclass>
  rr:<a|u|d>:<hint>:<name>:<type>:<class>:<ttl>:<rdata>:<vec 0|1>
  rs:<a|u|d>:<hint>:<name>:<type>:<class>:<ttl>:<rdata>,<rdata>..:<vec>
  lim:N mode:<s|c|d> edns:N tsig:<alg>:<key>:<time>:<fudge>:<origid>:<error>:<stime> utime:N
  clr tmpl:<size>:<fill> tmpls get
hint = n | q | o | r | e<reg>.<idx>; names are uncompressed wire hex, rdata hex ('-' = empty).
"""

LABELS = [b"www", b"WWW", b"ns1", b"ns2", b"mail", b"a", b"b", b"A", b"x-y", b"_sip", b"*"]
TLDS = [[b"example", b"com"], [b"Example", b"COM"], [b"example", b"net"], [b"example", b"org", b"uk"],
        [b"test"], [b"a", b"b", b"c"], [b"in-addr", b"arpa"], []]
NAME_TYPES = [2, 3, 4, 5, 7, 8, 9, 12]          # one compressible name
T_A, T_SOA, T_MINFO, T_MX, T_TXT, T_AAAA, T_SRV, T_NULL = 1, 6, 14, 15, 16, 28, 33, 10


def hx(b):
    return bytes(b).hex() if len(b) else "-"


def wire(labels):
    out = b""
    for l in labels:
        out += bytes([len(l)]) + l
    return out + b"\0"


def recase(rng, l):
    return bytes((c ^ 0x20) if (65 <= (c & 0xDF) <= 90 and rng.random() < 0.3) else c for c in l)


def rand_label(rng):
    r = rng.random()
    if r < 0.75:
        return rng.choice(LABELS)
    if r < 0.85:
        return bytes(rng.choice(b"abcXYZ019-") for _ in range(rng.randint(1, 12)))
    if r < 0.93:
        return bytes(rng.choice([0xC0, 0xC1, 0xFF, 0x00, 0x2E, 0x40, 0x41, 0x61, rng.randrange(256)])
                     for _ in range(rng.randint(1, 5)))
    return bytes(rng.choice(b"abc") for _ in range(rng.choice([62, 63])))


def fit(labels):
    """Trim leading labels until the wire form has at most 255 octets and 128 labels."""
    labels = labels[-127:]
    while len(wire(labels)) > 255:
        labels = labels[1:]
    return labels


def make_pool(rng, similar=False):
    bases = [list(rng.choice(TLDS)) for _ in range(1 if similar else rng.randint(1, 3))]
    pool = []
    for _ in range(rng.randint(6, 14) if similar else rng.randint(3, 10)):
        base = list(rng.choice(bases))
        r = rng.random()
        if r < 0.06:
            pre = [rand_label(rng) for _ in range(rng.randint(4, 126))]       # deep / long names
        else:
            pre = [rand_label(rng) for _ in range(rng.choice([0, 0, 1, 1, 1, 2, 3]))]
        labels = fit(pre + base)
        if rng.random() < 0.35:
            labels = [recase(rng, l) for l in labels]
        pool.append(labels)
    if rng.random() < 0.3:
        pool.append([])
    # suffixes and case variants of pool members, so that prior names are longer/shorter than the compressee
    for _ in range(rng.randint(0, 4)):
        n = rng.choice(pool)
        if n:
            k = rng.randrange(len(n))
            pool.append([recase(rng, l) for l in n[k:]] if rng.random() < 0.5 else n[k:])
    return pool


def rand_rdata(rng, pool, ty, cl):
    """Returns (rdata bytes, [names embedded as components, in order])."""
    def nm():
        return rng.choice(pool)
    bad = rng.random() < 0.06
    names = []
    if ty in NAME_TYPES:
        n = nm(); names = [n]; rd = wire(n)
    elif ty == T_MX:
        n = nm(); names = [n]; rd = bytes([rng.randrange(256), rng.randrange(256)]) + wire(n)
    elif ty in (T_SOA, T_MINFO):
        a, b = nm(), nm(); names = [a, b]
        rd = wire(a) + wire(b) + (bytes(rng.randrange(256) for _ in range(20)) if ty == T_SOA else b"")
    elif ty == T_SRV and cl == 1:
        n = nm(); names = [n]; rd = bytes(rng.randrange(256) for _ in range(6)) + wire(n)
    elif ty == T_A and cl == 3:
        n = nm(); names = [n]; rd = wire(n) + bytes([rng.randrange(256), rng.randrange(256)])
    elif ty == T_A:
        rd = bytes(rng.randrange(256) for _ in range(4))
    elif ty == T_AAAA:
        rd = bytes(rng.randrange(256) for _ in range(16))
    else:
        # unknown / nameless types: opaque octets, often containing something that looks like a name
        r = rng.random()
        if r < 0.4:
            rd = wire(nm()) + bytes(rng.randrange(256) for _ in range(rng.randint(0, 4)))
        elif r < 0.5:
            rd = b""
        else:
            rd = bytes(rng.randrange(256) for _ in range(rng.randint(1, 30)))
    if bad and rd:
        k = rng.random()
        if k < 0.4:
            rd = rd[:rng.randrange(len(rd))]                 # truncated
        elif k < 0.6:
            rd = rd + bytes([rng.randrange(256)])              # trailing octet (valid for most types)
        elif k < 0.8:
            i = rng.randrange(len(rd)); rd = rd[:i] + bytes([0xC0, 0x0C]) + rd[i + 2:]   # pointer in RDATA
        else:
            i = rng.randrange(len(rd)); rd = rd[:i] + bytes([rng.choice([0x40, 0x80, 0xFF])]) + rd[i + 1:]
        names = None                                           # unknown what ends up written
    return rd, names


def rand_type_class(rng):
    r = rng.random()
    if r < 0.30:
        ty = rng.choice(NAME_TYPES)
    elif r < 0.40:
        ty = T_MX
    elif r < 0.50:
        ty = rng.choice([T_SOA, T_MINFO])
    elif r < 0.60:
        ty = T_SRV
    elif r < 0.72:
        ty = T_A
    elif r < 0.80:
        ty = rng.choice([T_TXT, T_AAAA, T_NULL, 13, 11])
    else:
        ty = rng.choice([99, 65280, 250, 41, 0, 65535, 17, 18, 21, 24, 26, 35])   # RP, AFSDB, RT, SIG, PX, NAPTR, ...
    cl = rng.choice([1, 1, 1, 1, 1, 1, 3, 3, 4, 255, 254])
    return ty, cl


def rand_ttl(rng):
    return rng.choice([0, 1, 300, 3600, 86400, 2**31 - 1, 2**31, 2**32 - 1, rng.randrange(2**32)])


class Seq:
    """Tracks what the generator believes about the writer, to aim hints and limits."""

    def __init__(self, rng, big=False, similar=False):
        self.rng = rng
        self.big = big
        self.similar = similar
        self.pool = make_pool(rng, similar)
        self.ops = []
        self.est = 12              # upper estimate of the cursor (uncompressed sizes)
        self.qname = None
        self.owner = None
        self.rdname = None
        self.regs = []             # per register: list of names (or None if unknown)
        self.bufsize = 0

    def name(self):
        return self.rng.choice(self.pool)

    def hint_for(self):
        """(hint token, owner name) — mostly obeying the API contract."""
        rng = self.rng
        r = rng.random()
        honest = rng.random() < 0.9
        if r < 0.35:
            return "n", self.name()
        if r < 0.5:
            return "q", (self.qname if honest and self.qname is not None else self.name())
        if r < 0.65:
            return "o", (self.owner if honest and self.owner is not None else self.name())
        if r < 0.75:
            return "r", (self.rdname if honest and self.rdname is not None else self.name())
        if self.regs and rng.random() < 0.9:
            ri = rng.randrange(len(self.regs))
            names = self.regs[ri]
            if names:
                i = rng.randrange(len(names))
                n = names[i]
                return f"e{ri}.{i}", (n if honest and n is not None else self.name())
            return f"e{ri}.{rng.randrange(3)}", self.name()
        return f"e{rng.randrange(4)}.{rng.randrange(20)}", self.name()

    def add_rr(self, sec):
        rng = self.rng
        h, owner = self.hint_for()
        ty, cl = rand_type_class(rng)
        vec = 1 if rng.random() < 0.4 else 0
        if rng.random() < 0.3:
            k = rng.choice([1, 2, 2, 3, 5, 9, 12]) if ty in (T_SOA, T_MINFO) else rng.choice([1, 2, 2, 3, 4, 18])
            rds, allnames, seen = [], [], set()
            for _ in range(k):
                rd, names = rand_rdata(rng, self.pool, ty, cl)
                if rd in seen:
                    continue
                seen.add(rd); rds.append(rd)
                allnames = None if (names is None or allnames is None) else allnames + names
            self.ops.append(f"rs:{sec}:{h}:{hx(wire(owner))}:{ty}:{cl}:{rand_ttl(rng)}:{','.join(hx(r) for r in rds)}:{vec}")
            size = sum(len(wire(owner)) + 10 + len(r) for r in rds)
            names = allnames
        else:
            rd, names = rand_rdata(rng, self.pool, ty, cl)
            if self.big and rng.random() < 0.5:
                rd = bytes(rng.randrange(256) for _ in range(rng.choice([3000, 6000, 16000, 16350 - self.est if self.est < 16000 else 10])))
                ty, names = T_TXT, []
            self.ops.append(f"rr:{sec}:{h}:{hx(wire(owner))}:{ty}:{cl}:{rand_ttl(rng)}:{hx(rd)}:{vec}")
            size = len(wire(owner)) + 10 + len(rd)
        self.est += size
        self.owner = owner
        if names:
            self.rdname = names[-1]
        if vec:
            self.regs.append((names or [])[:16] if names is not None else [None] * 3)

    def build(self):
        rng = self.rng
        if self.big:
            self.bufsize = rng.choice([16500, 17000, 20000])
            limit = rng.choice([self.bufsize, self.bufsize + 5, 16400])
        else:
            self.bufsize = rng.choice([rng.randint(0, 30), rng.randint(12, 120), rng.randint(100, 300), 512, 512,
                                       rng.randint(300, 700), rng.randint(500, 1500), 4096])
            if self.similar:
                self.bufsize = max(self.bufsize, rng.choice([300, 512, 1232, 4096]))
            limit = rng.choice([self.bufsize, self.bufsize, rng.randint(0, self.bufsize + 20), rng.randint(12, max(12, self.bufsize)), 65535])
        fill = rng.choice([0, 0xAA, 0xFF, 0xC0, rng.randrange(256)])
        nops = rng.choice([1, 3, 8, 15, 25, 40, 60]) if not self.big else rng.randint(8, 20)
        nops = rng.randint(max(1, nops // 2), nops)
        phase = 0          # 0 header/questions, 1 answers, 2 authority, 3 additional
        for _ in range(nops):
            r = rng.random()
            if r < 0.10:
                k = rng.choice(["id", "qr", "opc", "aa", "tc", "rd", "ra", "rc"])
                if k == "id":
                    self.ops.append(f"id:{rng.choice([0, 1, 255, 256, 65535, rng.randrange(65536)])}")
                elif k in ("opc", "rc"):
                    self.ops.append(f"{k}:{rng.randrange(16)}")
                else:
                    self.ops.append(f"{k}:{rng.randrange(2)}")
            elif r < 0.14:
                self.ops.append(f"xrc:{rng.choice([0, 1, 15, 16, 17, 2047, 2048, 2049, 4095, 4096, 65535, rng.randrange(4096)])}")
            elif r < 0.19:
                self.ops.append(f"edns:{rng.choice([0, 512, 1232, 4096, 65535])}")
                self.est += 11
            elif r < 0.23:
                alg = rng.choice([[b"hmac-sha256"], [b"HMAC-SHA1"], [b"hmac-md5", b"sig-alg", b"reg", b"int"], self.name()])
                err = rng.choice([0, 0, 16, 17, 18, 18, 65535])
                self.ops.append(f"tsig:{hx(wire(alg))}:{hx(wire(self.name()))}:{rng.choice([0, 1, 2**48 - 1, rng.randrange(2**48)])}:"
                                f"{rng.choice([0, 300, 65535])}:{rng.randrange(65536)}:{err}:{rng.randrange(2**48)}")
                self.est += 40
            elif r < 0.25:
                self.ops.append(f"utime:{rng.randrange(2**48)}")
            elif r < 0.30:
                self.ops.append(f"mode:{rng.choice('sscd' if self.similar else 'scd')}")
            elif r < (0.32 if self.similar else 0.38):
                near = self.est + rng.randint(-40, 25)
                self.ops.append(f"lim:{max(0, rng.choice([near, near, near, rng.randint(0, self.bufsize + 30), self.bufsize, 0, 10**6]))}")
            elif r < 0.42:
                self.ops.append("get")
            elif r < 0.45:
                self.ops.append("clr")
                phase = min(phase, 0); self.est = min(self.est, 40); self.owner = None; self.rdname = None
                if rng.random() < 0.8:
                    self.regs = [[None] * len(x) for x in self.regs]     # stale pointers: only a dishonest caller uses them
            elif r < 0.48 and not self.big:
                near = self.est + rng.randint(-30, 60)
                self.ops.append(f"tmpl:{max(0, rng.choice([near, self.bufsize, rng.randint(0, 700)]))}:{rng.choice(['00', 'aa', 'ff'])}")
            elif r < 0.49:
                self.ops.append("tmpls")
            elif r < 0.58 and (phase == 0 or rng.random() < 0.1):
                n = self.name()
                self.ops.append(f"q:{hx(wire(n))}:{rng.choice([1, 2, 15, 28, 255, 252])}:{rng.choice([1, 3, 255])}")
                if self.qname is None:
                    self.qname = n
                self.est += len(wire(n)) + 4
            else:
                # sections mostly in order; sometimes a step back (OutOfOrder)
                if rng.random() < 0.25 and phase < 3:
                    phase += 1
                phase = max(phase, 1)
                sec = "aud"[phase - 1]
                if rng.random() < 0.07:
                    sec = rng.choice("aud")
                self.add_rr(sec)
        return f"{self.bufsize} {fill:02x} {limit} " + " ".join(self.ops)


def ptr_edge(rng):
    """Messages longer than 16 KiB in which names sharing a suffix are written around offset 0x3fff, the largest
    offset a compression pointer can express: a name starting just below the boundary with later labels at or
    above it, then names (owners and RDATA names, hinted and unhinted) that share its suffix."""
    bufsize = rng.choice([16500, 17000, 20000])
    ops = []
    est = 12
    if rng.random() < 0.5:
        q = [rng.choice([b"q", b"www"]), b"example", b"com"]
        ops.append(f"q:{hx(wire(q))}:1:1")
        est += len(wire(q)) + 4
    ops.append(f"mode:{rng.choice('sssc')}")
    suffix = rng.choice([[b"newsuffix", b"other"], [b"Example", b"COM"], [b"b", b"c"], [b"x" * rng.choice([1, 9, 30]), b"y", b"z"]])
    first = [rng.choice([b"x", b"ns1", b"a" * 12])] + suffix
    d = rng.randint(-3, len(wire(first)) + 3)
    start = 0x3FFF - d                     # where the owner `first` begins
    fill = start - est - 11
    ops.append(f"rr:a:n:00:{T_TXT}:1:60:{hx(bytes(rng.randrange(256) for _ in range(fill)))}:0")
    ops.append(f"rr:a:n:{hx(wire(first))}:{T_A}:1:60:7f000001:{rng.choice([0, 1])}")
    for _ in range(rng.randint(1, 4)):
        second = rng.choice([[b"y"] + suffix, suffix, suffix[1:], [recase(rng, l) for l in [b"y"] + suffix], first,
                             [b"z", b"y"] + suffix])
        second = second or [b"y"]
        r = rng.random()
        if r < 0.5:
            ops.append(f"rr:a:{rng.choice('nno')}:{hx(wire(second))}:{T_A}:1:60:7f000002:0")
        elif r < 0.8:
            ops.append(f"rr:a:n:{hx(wire([b'o'] + suffix[-1:]))}:2:1:60:{hx(wire(second))}:{rng.choice([0, 1])}")
        else:
            ops.append(f"rr:a:n:{hx(wire(second))}:{T_MX}:1:60:000a{hx(wire([b'mx'] + suffix))}:0")
    ops.append("get")
    return f"{bufsize} 00 {bufsize} " + " ".join(ops)


def gen(rng, tier, similar=False):
    quick = tier == "quick"
    # hand-written boundary cases
    yield "12 aa 12"
    yield "11 aa 12"
    yield "12 aa 11 get"
    yield "40 00 40 edns:1232 xrc:2048 get"
    yield "40 00 40 edns:1232 xrc:4095 rc:3 get"
    yield "23 00 23 edns:0 edns:0 xrc:1 lim:0 get"
    yield "22 00 40 edns:0 xrc:1"
    n = 3000 if quick else 150000
    for _ in range(n):
        yield Seq(rng, similar=similar).build().rstrip()
    for _ in range(12 if quick else 300):
        yield Seq(rng, big=True, similar=similar).build().rstrip()
    for _ in range(40 if quick else 600):
        yield ptr_edge(rng)
