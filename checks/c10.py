"""C10 — TSIG-signed requests are authenticated before being answered (src/server/mod.rs TSIG branch,
src/message/tsig.rs, Writer::finish_with_mac), through the real Server::handle_message.

Case line:
  srv <u|t> K=<name:alg:secret,..> salg= sk= off= req= tp= mp= ml= dig= dtp= flip= ureq= fake= rr= ol= X:
The request template and the RFC 8945 digest template are built HERE (checks/tsig_py.py); the
implementation-side runner writes `now + off` into both, computes the HMAC with its own SHA code and
calls the server; the model-side runner does the same with a fixed clock and the symbolic MAC `fake`.
`X:` is the answer RFC 8945 5.2/5.3 prescribes, computed by tsig_py with hashlib on a fixed clock."""
import os, struct, sys
sys.path.insert(0, os.path.dirname(os.path.abspath(__file__)))
import tsig_py as T
from tsig_py import hx, u16, u48

NOW = 1 << 40
LET = b"abcdefghijklmnopqrstuvwxyz0123456789-"
APEX = T.name_wire([b"quandary", b"test"])


def rand_keyname(rng):
    return T.name_wire([bytes(rng.choice(LET) for _ in range(rng.randint(1, 8))) for _ in range(rng.randint(1, 3))])


def recase(rng, name):
    b = bytearray(name)
    for i in range(len(b)):
        if 97 <= b[i] <= 122 and rng.random() < 0.3 and T.parse_uncompressed(name) and _is_label_octet(name, i):
            b[i] -= 32
    return bytes(b)


def _is_label_octet(name, i):
    j = 0
    while j < len(name):
        l = name[j]
        if j < i <= j + l:
            return True
        if i == j:
            return False
        j += 1 + l
    return False


def label_positions(name, base):
    return [base + i for i in range(len(name)) if _is_label_octet(name, i)]


def build(rng):
    nkeys = rng.choice([0, 1, 1, 2, 3])
    keys = []
    for _ in range(nkeys):
        n = rand_keyname(rng)
        if any(T.lower(n) == T.lower(k[0]) for k in keys):
            continue
        if rng.random() < 0.3:
            n = recase(rng, n)          # the CONFIGURED spelling has upper-case letters (the lookup is case-insensitive)
        keys.append((n, rng.choice(["1", "256"]), bytes(rng.randrange(256) for _ in range(rng.choice([1, 16, 32, 64, 65, 100])))))
    scen = rng.choice(["valid", "valid", "valid", "wrongkey", "unknownkey", "algmismatch", "unknownalg", "trunc", "time", "time",
                       "flip", "flip", "case"]) if keys else rng.choice(["unknownkey", "unknownalg"])
    if keys:
        kname, kalg, secret = rng.choice(keys)
    else:
        kname, kalg, secret = rand_keyname(rng), rng.choice(["1", "256"]), b"\x01\x02"
    salg, sk, owner, algname = kalg, secret, kname, T.ALG_NAME[kalg]
    fudge = rng.choice([300, 300, 0, 1, 65535, rng.randrange(65536)])
    off = rng.choice([0, 0, 1, -1, rng.randint(-fudge, fudge)])
    out = T.ALG_OUT[salg]
    ml = out
    if scen == "wrongkey":
        sk = bytes(rng.randrange(256) for _ in range(len(secret))) if rng.random() < 0.7 else secret + b"\x01"
    elif scen == "unknownkey":
        owner = rand_keyname(rng) if rng.random() < 0.7 else kname[:1] + bytes([kname[1] ^ 1]) + kname[2:]
    elif scen == "algmismatch":
        salg = "256" if kalg == "1" else "1"
        algname, out = T.ALG_NAME[salg], T.ALG_OUT[salg]
        ml = out
    elif scen == "unknownalg":
        algname = rng.choice([b"\x08hmac-md5\x07sig-alg\x03reg\x03int\x00", b"\x0bhmac-sha384\x00", b"\x0bhmac-sha512\x00", b"\x09hmac-sha2\x00", b"\x00"])
    elif scen == "trunc":
        ml = rng.choice({"1": [10, 11, 19, 9, 0, 21, 32], "256": [16, 17, 31, 15, 10, 0, 33, 40]}[salg])
    elif scen == "time":
        off = rng.choice([fudge, -fudge, fudge + 1, -fudge - 1, fudge - 1, 1 - fudge, fudge + rng.randint(1, 100000), -fudge - rng.randint(1, 100000),
                          # a time that agrees with the server's clock only modulo 2^32 (the field has 48 bits)
                          rng.choice([1, -1, 2, 3]) * 2**32 + rng.randint(-min(fudge, 1000), min(fudge, 1000)),
                          rng.choice([2**32, 2**33, 2**40 - 1, -(2**31)])])
    if scen == "case" or rng.random() < 0.2:
        owner, algname = recase(rng, owner), recase(rng, algname)
    mid = rng.randrange(65536)
    oid = mid if rng.random() < 0.7 else rng.randrange(65536)
    flags = rng.choice([0x0000, 0x0100])
    qname = recase(rng, APEX) if rng.random() < 0.3 else APEX
    question = qname + u16(rng.choice([6, 1, 2, 16])) + u16(1)
    # half of the requests are EDNS requests: an OPT RR precedes the TSIG RR (and is under its MAC); the
    # response then carries an OPT RR before its TSIG RR, which the response MAC must cover as well
    opt = b""
    if rng.random() < 0.5:
        opt = b"\x00" + u16(41) + u16(rng.choice([512, 1232, 4096, 65535])) + bytes(4) + u16(0)
    nopt = 1 if opt else 0
    msg = T.header(mid, flags, 1, 0, 0, 1 + nopt) + question + opt
    ureq = T.header(mid, flags, 1, 0, 0, nopt) + question + opt
    rdata0 = T.tsig_rdata(algname, 0, fudge, bytes(ml), oid, 0, b"")
    rr = len(msg)
    req = msg + T.tsig_rr(owner, rdata0)
    rd = rr + len(owner) + 10
    tp = rd + len(algname)
    mp = tp + 10
    dig = T.digest("rq", msg, oid, owner, algname, 0, fudge, 0, b"")
    dtp = len(dig) - 12
    flips = []
    if scen == "flip":
        cands = ([0, 1, 3] + label_positions(qname, 12) + [12 + len(qname) + i for i in range(4)]
                 + ([12 + len(qname) + 4 + 3, 12 + len(qname) + 4 + 4] if opt else [])     # the OPT's payload size

                 + label_positions(owner, rr) + label_positions(algname, rd)
                 + list(range(tp, tp + 8)) + list(range(mp, mp + ml)) + list(range(mp + ml, mp + ml + 4)))
        for _ in range(rng.choice([1, 1, 1, 2])):
            flips.append((rng.choice(cands), rng.choice([1, 2, 4, 8, 16, 32, 64, 128])))
    transport = rng.choice(["t", "t", "u"])
    fake = bytes(rng.randrange(256) for _ in range(T.ALG_OUT[salg]))
    return dict(keys=keys, salg=salg, sk=sk, off=off, req=req, tp=tp, mp=mp, ml=ml, dig=dig, dtp=dtp, flips=flips,
                ureq=ureq, fake=fake, rr=rr, ol=len(owner), transport=transport, scen=scen)


def expected(c):
    """the answer RFC 8945 prescribes, with the clock fixed at NOW and hashlib's HMAC"""
    ts = NOW + c["off"]
    req = bytearray(c["req"])
    dig = bytearray(c["dig"])
    req[c["tp"]:c["tp"] + 6] = u48(ts)
    dig[c["dtp"]:c["dtp"] + 6] = u48(ts)
    full = T.hmac_full(c["salg"], c["sk"], bytes(dig))
    mac = (full + bytes(c["ml"]))[:c["ml"]]
    req[c["mp"]:c["mp"] + c["ml"]] = mac
    for p, x in c["flips"]:
        req[p] ^= x
    req = bytes(req)
    msg, owner, rdata = req[:c["rr"]], req[c["rr"]:c["rr"] + c["ol"]], req[c["rr"] + c["ol"] + 10:]
    f = T.parse_tsig_rdata(rdata)
    alg = T.alg_of_name(f["alg"])
    key = None
    for n, a, s in c["keys"]:
        if T.lower(n) == T.lower(owner):
            key = (a, s)
    rts, other, signed = "now", "-", False
    if alg is None or key is None or key[0] != alg:
        rcode, err, ok = 9, T.BADKEY, False
    else:
        res, _, _ = T.verify("rq", msg, owner, rdata, key[1], NOW)
        ok = res == "ok"
        if ok:
            rcode, err, signed = 0, 0, True
        elif res == "err FormErr":
            rcode, err = 1, T.BADSIG
        elif res == "err BadSig":
            rcode, err = 9, T.BADSIG
        else:
            rcode, err, signed, rts, other = 9, T.BADTIME, True, "req", "now"
    a = 1 if ok else 0
    maclen = T.ALG_OUT[alg] if signed else 0
    return (f"rcode={rcode} tc=0 answer={a} same={a} tsig err={err} maclen={maclen} ts={rts} fudge=300 other={other} "
            f"oid={f['oid']} key={hx(T.lower(owner))} alg={hx(T.lower(f['alg']))} macok={'1' if signed else '-'}")


def line(c):
    K = ",".join(f"{hx(n)}:{a}:{hx(s)}" for n, a, s in c["keys"]) or "-"
    flip = ",".join(f"{p}:{x}" for p, x in c["flips"]) or "-"
    exp = expected(c)
    return (f"srv {c['transport']} K={K} salg={c['salg']} sk={hx(c['sk'])} off={c['off']} req={hx(c['req'])} tp={c['tp']} "
            f"mp={c['mp']} ml={c['ml']} dig={hx(c['dig'])} dtp={c['dtp']} flip={flip} ureq={hx(c['ureq'])} fake={hx(c['fake'])} "
            f"rr={c['rr']} ol={c['ol']} S:{c['scen']} X:{exp.replace(' ', '~')}")


def gen(rng, tier):
    n = 8000 if tier == "quick" else 100000
    for _ in range(n):
        yield line(build(rng))


def exp_of(case):
    for f in case.split():
        if f.startswith("X:"):
            return f[2:].replace("~", " ")
    return "-"


def oracle_ok(case, impl, oracle):
    return impl == exp_of(case)


def nontrivial(case, impl, model, oracle):
    return " tsig err=" in impl


def classify(case, impl, model, oracle):
    scen = [f for f in case.split() if f.startswith("S:")][0][2:]
    if " tsig err=" not in impl:
        return scen + ":" + impl[:40]
    f = dict(x.split("=", 1) for x in impl.split() if "=" in x)
    return f"{scen}:rcode={f['rcode']},err={f['err']},answer={f['answer']},mac={'signed' if f['maclen'] != '0' else 'empty'},macok={f['macok']}"


THEOREMS = ["c10_accept", "c10_badsig", "c10_badkey", "c10_mac_len", "c10_badtime", "c10_response_verifies", "c10_table"]

CHECK = {
    "property": "C10",
    "props": "Props/C10.v",
    "theorems": THEOREMS,
    "allowed_axioms": [],
    "suites": [{
        "name": "srv", "impl_bin": "impl_c10", "extract": "Extract/ExC10.v", "driver": "run_c10.ml",
        "gen": gen, "nontrivial": nontrivial, "classify": classify, "oracle_ok": oracle_ok,
        "exhaustive": {"quick": False, "thorough": False},
        "rule": ("seeded requests to the real Server::handle_message (one zone, TCP and UDP): [configured key names also with upper-case letters; times signed also equal to the clock modulo 2^32] random key sets (0-3 keys, "
                 "HMAC-SHA1/SHA256, secrets of 1..100 octets, random key names), requests built and signed per RFC 8945 by "
                 "the Python signer's digest and the runner's own SHA-1/SHA-256/HMAC at run time (time signed = server "
                 "clock + offset; clock sampled before/after, case redone on a second boundary): valid, wrong signing "
                 "key, unknown key name, key configured for the other algorithm, unknown algorithm name, MACs truncated to "
                 "allowed and disallowed lengths, half of the requests with an OPT RR before the TSIG RR (EDNS responses: the OPT RR of the response must be under the response MAC), offsets at +-fudge, +-(fudge+-1) and far outside, flipped octets in ID / "
                 "question / key name / algorithm name / time / fudge / MAC / original ID / error, letter-case changes; "
                 "checked: RCODE, answer data present or not, response identical to the unsigned query's response apart "
                 "from the TSIG RR, TSIG error, MAC length, time signed (server's or request's), fudge, other data, "
                 "original ID, key and algorithm names, and the response MAC recomputed by the runner per RFC 8945 4.3 "
                 "with the request MAC; the line must equal the model's and the Python prediction; non-trivial = every "
                 "response carrying a TSIG RR; distinct = distinct case line"),
        "timeout": {"quick": 300, "thorough": 3000},
    }],
    "trusted_base": [
        "Coq 8.16.1 kernel; axioms: none; HMAC universally quantified (only its output length is assumed)",
        "the C11 trusted base (model of src/message/tsig.rs, digest::Mac contract)",
        "the HashMap<Box<Name>, ..> key lookup is modelled by a first-match association list with case-insensitive "
        "name equality (find_key)",
        "not modelled: everything in Server::handle_message outside the TSIG step (question echo, OPT handling, TSIG "
        "position checks, query processing, RRL, the TC fallback when the TSIG RR does not fit) - exercised by the suite, "
        "not proved",
        "correspondence: checks/c10.py + checks/tsig_py.py (Python signer/oracle), harness/src/bin/impl_c10.rs (own SHA-1/"
        "SHA-256/HMAC, response parser and response-digest computation; wall-clock sampled around the call), ocaml/run_c10.ml "
        "(fixed clock, symbolic MAC)",
    ],
    "assumptions": ["the request's TSIG RR is well-formed (wf_stsig) and last in the message; octets < 256; now < 2^48",
                    "the response TSIG RR fits (TCP, or a UDP response below 512 octets)"],
}

MANIFEST = {
    "level_text": ("Coq theorems (no axioms, HMAC universally quantified) that the server's TSIG step - algorithm lookup, key "
                   "lookup, verify_request, choice of RCODE/TSIG error/signing mode - is the RFC 8945 5.2 case table: accepted "
                   "requests continue and get a response TSIG whose MAC is the MAC of the RFC response digest (request MAC "
                   "first); wrong MAC => NOTAUTH/BADSIG/empty MAC; unknown key or algorithm => NOTAUTH/BADKEY/empty MAC; MAC "
                   "length out of range => FORMERR; time outside fudge => NOTAUTH/BADTIME, signed, other data = server time; "
                   "tied to the real Server::handle_message on 8000 (quick) run-time-signed requests whose response MACs are "
                   "recomputed independently."),
    "level_note": ("The theorems cover the pure TSIG decision function and the TSIG RDATA of the response, not the rest of "
                   "handle_message (that no answer data is returned on failure is checked on the real server, proved only as "
                   "'processing does not continue'). Trusted: C11's base, the association-list model of the key map."),
    "technique": "machine-checked proof in Coq (decision function = RFC case table, composed with C11) + correspondence check through Server::handle_message",
    "design_ref": "DESIGN.md C10",
}
