"""Generators and line helpers shared by the zone-store checks (C06, C20, C21)."""
import itertools, re

LABELS = ["61", "62", "63", "2a", "41"]          # a b c * A
# octets that differ from another pool octet (or from each other) ONLY in bit 5 without being a letter pair:
# LF / '*', '_' / DEL, '@' / '`', '[' / '{'  (a case fold written as `| 0x20` or `^ 0x20` confuses them)
FOLD_LABELS = ["0a", "5f", "7f", "40", "60", "5b", "7b"]
# labels that merely BEGIN with an asterisk: ordinary labels, not wildcards (RFC 4592 2.1.1: the wildcard label is exactly "*")
STAR_LABELS = ["2a78", "2a2a", "2a"]


def bit5_variant(rng, labels):
    """the name with bit 5 flipped in one octet (a different name unless that octet is a letter)"""
    out = [bytearray(bytes.fromhex(l)) for l in labels]
    cand = [(i, j) for i, l in enumerate(out) for j in range(len(l))]
    if not cand:
        return list(labels)
    i, j = rng.choice(cand)
    out[i][j] ^= 0x20
    return [bytes(l).hex() for l in out]
APEXES = [[], ["63"], ["62", "63"], ["41", "62"]]
T_A, T_NS, T_CNAME, T_SOA, T_MX, T_TXT, T_AAAA = 1, 2, 5, 6, 15, 16, 28
QTYPES = [1, 2, 5, 6, 16, 28, 15, 255]


def nm(labels):
    return ".".join(labels) if labels else "@"


def wire(labels):
    return "".join("%02x" % (len(l) // 2) + l for l in labels) + "00"


def flip_case(rng, labels, p=0.5):
    out = []
    for l in labels:
        bs = bytes.fromhex(l)
        bs = bytes((b ^ 0x20) if (chr(b).isalpha() and b < 128 and rng.random() < p) else b for b in bs)
        out.append(bs.hex())
    return out


_name_re = re.compile(r"~([0-9a-f.@]+)")


def _lower_name(m):
    s = m.group(1)
    if s == "@":
        return "~@"
    return "~" + ".".join(bytes(b + 32 if 65 <= b <= 90 else b for b in bytes.fromhex(l)).hex() for l in s.split("."))


def lower_names(line):
    return _name_re.sub(_lower_name, line)


A_POOL = ["7f000001", "7f000002", "c0000201"]
AAAA_POOL = ["00000000000000000000000000000001", "20010db8000000000000000000000002"]
TXT_POOL = ["0161", "0141", "026869"]


# ---------------------------------------------------------------- RDATA with embedded names
# Rdata::equals compares the names embedded in the RDATA of the RFC 1035 name-bearing types (and SRV in class
# IN, A in class CH) without ASCII case when BOTH operands are valid for the type's format, and octet-wise as
# soon as one of them is malformed.  An RDATA is described by its parts: ("n", labels) | ("b", hex).
T_MD, T_MF, T_MB, T_MG, T_MR, T_PTR, T_MINFO, T_SRV = 3, 4, 7, 8, 9, 12, 14, 33
ONE_NAME_TYPES = (T_NS, T_CNAME, T_PTR, T_MB, T_MG, T_MR, T_MD, T_MF)
NAME_BASES = [["6e73"], ["6e73", "61"], ["61"], ["62", "61"], ["6e73", "78"], ["6d78"], ["6d61696c"]]
LONG63 = "61" * 63                     # a label of the maximal length
MALFORM = ("junk", "cut", "len64", "ptr", "long", "zero")


def ci_type(cls, ty):
    """is (class, type) compared with case-insensitive embedded names?"""
    return ty in ONE_NAME_TYPES or ty in (T_SOA, T_MINFO, T_MX) or (ty == T_SRV and cls == 1) or (ty == T_A and cls == 3)


def name_labels(rng, apex):
    r = rng.random()
    if r < 0.02:
        return [LONG63, "62"] + apex                                   # 63-octet label
    if r < 0.035:
        return [LONG63] * 3 + ["61" * (61 - sum(len(l) // 2 + 1 for l in apex))] + apex   # wire form of exactly 255 octets
    base = rng.choice(NAME_BASES)
    return base + (apex if rng.random() < 0.7 else ["78"])


def rdata_parts(rng, ty, cls, apex):
    """parts of a VALID RDATA of the type (None: the type has no embedded name in this class)"""
    n = lambda: ("n", name_labels(rng, apex))
    if ty in ONE_NAME_TYPES:
        return [n()]
    if ty == T_MX:
        return [("b", rng.choice(["000a", "000a", "0014"])), n()]
    if ty == T_SOA:
        return [("n", ["6e73"] + apex), ("n", ["72"] + apex),
                ("b", "%08x" % rng.choice([1, 1, 2]) + "00000e10" * 4)]
    if ty == T_MINFO:
        return [n(), n()]
    if ty == T_SRV:
        return [("b", rng.choice(["000100020035", "000100020035", "000100020050"])), n()]
    if ty == T_A and cls == 3:
        return [("n", ["63", "68"] if rng.random() < 0.6 else name_labels(rng, apex)), ("b", rng.choice(["0001", "0002"]))]
    return None


def render(rng, parts, p_flip, malform=None):
    """hex of the RDATA; the letters of the names flipped with probability p_flip each; [malform] makes the RDATA
    invalid for its format in a way that does not depend on the letter case (so case variants of a malformed
    RDATA are malformed too and must be compared octet-wise)"""
    out, first_name = [], True
    for kind, v in parts:
        if kind == "b":
            out.append(v)
            continue
        labels = flip_case(rng, v, p_flip)
        w = wire(labels)
        if first_name and malform:
            if malform == "cut":
                w = w[:-2]                                   # no terminating root label
            elif malform == "len64":
                w = "40" + "61" * 64 + w                     # a 64-octet label
            elif malform == "ptr":
                w = w[:-2] + "c000"                          # compression pointer instead of the root label
            elif malform == "long":
                w = wire([LONG63] * 4 + labels)              # more than 255 octets
            elif malform == "zero":
                w = "00" + w                                 # root label first, the rest is extra data
        first_name = False
        out.append(w)
    s = "".join(out)
    if malform == "junk":
        s += "09"
    return s or "-"


def name_record_burst(rng, ty, cls, apex):
    """1..3 RDATAs of one (class, type): a base and, often, variants that differ from it only in the letter case
    of the embedded names (equal iff the type is case-insensitive in this class AND the RDATA is valid), or only
    in a fixed field, or by a malformation"""
    parts = rdata_parts(rng, ty, cls, apex)
    if parts is None:
        return []
    m = rng.choice(MALFORM) if rng.random() < 0.15 else None
    out = [render(rng, parts, 0.0 if rng.random() < 0.5 else 0.3, m)]
    r = rng.random()
    if r < 0.45:
        out.append(render(rng, parts, 0.6, m))                         # case variant
        if rng.random() < 0.3:
            out.append(render(rng, parts, 0.6, m))
    elif r < 0.55:
        out.append(render(rng, parts, 0.5, rng.choice(MALFORM)))       # valid vs malformed twin
    elif r < 0.65:
        p2 = [(k, (v[:-1] + ("0" if v[-1] != "0" else "1")) if k == "b" else v) for k, v in parts]
        out.append(render(rng, p2, 0.5, m))                            # other fixed field (when there is one)
    return out


def name_rdata(rng, apex):
    """a valid uncompressed name, often inside the zone, with case variants (dedup is case-insensitive)"""
    base = rng.choice([["6e73"], ["6e73", "61"], ["61"], ["62", "61"], ["6e73", "78"]])
    tail = apex if rng.random() < 0.7 else ["78"]
    return wire(flip_case(rng, base + tail, 0.3))


def soa_rdata(rng, apex):
    return wire(["6e73"] + apex) + wire(["72"] + apex) + "%08x" % rng.choice([1, 1, 2]) + "00000e10" * 4


def gen_zone(rng, max_records=40):
    """(apex labels, class, [record strings], [accepted-looking owner label lists])"""
    apex = rng.choice(APEXES)
    cls = rng.choice([1, 1, 1, 1, 7, 3])
    # owner pool: relative names, biased to build delegations at several depths, wildcards, ENTs
    pool = [[]]
    alphabet = LABELS + (rng.sample(FOLD_LABELS, rng.randint(1, 3)) if rng.random() < 0.3 else []) + \
        (STAR_LABELS[:2] if rng.random() < 0.15 else [])
    for _ in range(rng.randint(1, 10)):
        depth = rng.choice([1, 1, 2, 2, 3, 3, 4])
        pool.append([rng.choice(alphabet) for _ in range(depth)])
    if rng.random() < 0.6:
        p = rng.choice(pool)
        pool.append(["2a"] + p[-2:] if p else ["2a"])
    ns_owners = [p for p in pool if p and rng.random() < 0.35]
    recs = []
    n = rng.choice([0, 1, 2, 5, 10, 20, 30, max_records, rng.randint(0, max_records)])
    for _ in range(n):
        rel = rng.choice(pool)
        r = rng.random()
        if ns_owners and r < 0.25:
            rel = rng.choice(ns_owners)
            ty = T_NS
        elif r < 0.30:
            rel, ty = [], rng.choice([T_NS, T_SOA])
        else:
            ty = rng.choice([T_A, T_A, T_AAAA, T_AAAA, T_CNAME, T_TXT, T_NS, T_MX, T_MX, T_PTR, T_SRV, T_MINFO,
                             T_SOA, rng.choice([T_MB, T_MG, T_MR, T_MD, T_MF])])
        owner = flip_case(rng, rel + apex, 0.25)
        if rng.random() < 0.05:      # out of the zone
            cands = [owner[1:] if owner else ["78"], rel + ["78"], owner[:-1] + ["64"] if owner else ["64"]]
            if apex:
                # adversarial sibling: same label count as the apex and a WIRE form that ends in the apex's wire form,
                # but the match does not start on a label boundary (first label = 'x' + <len><first apex label>)
                cands.append(["78" + "%02x" % (len(apex[0]) // 2) + apex[0]] + apex[1:])
                cands.append(rel + ["78" + "%02x" % (len(apex[0]) // 2) + apex[0]] + apex[1:])
            owner = rng.choice(cands)
        # name-bearing RDATA (real Rdata::equals: case-insensitive on valid RDATA, octet-wise on malformed RDATA):
        # a burst of 1..3 records of the same RRset whose RDATAs are case / fixed-field / malformation variants
        rds = name_record_burst(rng, ty, cls, apex)
        if not rds:
            if ty == T_A:
                rds = [rng.choice(A_POOL)]
            elif ty == T_AAAA:
                rds = [rng.choice(AAAA_POOL)]
            else:
                rds = [rng.choice(TXT_POOL)]
        ttl = 3600 if rng.random() < 0.9 else 7200
        for rd in rds:
            c = cls if rng.random() < 0.97 else rng.choice([1, 3, 7])
            # the variants keep the owner (sometimes spelled differently) so that they meet in one RRset
            o = owner if rng.random() < 0.7 else flip_case(rng, owner, 0.3)
            recs.append(f"{nm(o)},{ty},{c},{ttl},{rd}")
    if rng.random() < 0.3:
        rng.shuffle(recs)               # interleave the bursts
    recs = recs[:max_records]
    return apex, cls, recs


def all_rel_names(maxdepth=3):
    for d in range(0, maxdepth + 1):
        for t in itertools.product(LABELS, repeat=d):
            yield list(t)


def outside_names(rng, apex):
    out = [[], ["78"], ["61", "78"]]
    if apex:
        out += [apex[1:], apex[:-1] + ["64"], ["61"] + apex[:-1] + ["64"], apex[:-1], ["61", "62"] + apex[1:],
                ["78" + "%02x" % (len(apex[0]) // 2) + apex[0]] + apex[1:]]
    return out


# ---------------------------------------------------------------- validation zones (C21)

def ch_a_rdata(rng):
    # class CH type A: <domain name><16-bit address>; the name compares without case (real Rdata::equals)
    return wire(flip_case(rng, ["63", "68"], 0.3)) + rng.choice(["0001", "0002"])


def addr_records(rng, cls, owner, p_a=0.6, p_aaaa=0.3):
    out = []
    if rng.random() < p_a:
        out.append((owner, T_A, ch_a_rdata(rng) if cls == 3 else rng.choice(A_POOL)))
    if rng.random() < p_aaaa:
        out.append((owner, T_AAAA, rng.choice(AAAA_POOL)))
    return out


def gen_vzone(rng):
    """(apex, cls, wide, [record strings]): delegations (nested and sibling), name servers in the
    authoritative part / inside the delegation / inside a sibling / outside the zone, glue present or
    absent, apex SOA 0..2, apex NS, MX, CNAME alone / with other data / duplicated, NS at wildcards,
    occasionally RDATA that is not a name."""
    apex = rng.choice(APEXES)
    cls = rng.choice([1, 1, 1, 3, 7])
    wide = rng.choice([0, 1])
    L = ["61", "62", "63"]
    dels = []
    for _ in range(rng.choice([0, 1, 1, 2, 3])):
        d = [rng.choice(L) for _ in range(rng.choice([1, 1, 2]))]
        if rng.random() < 0.12:
            d[0] = rng.choice(STAR_LABELS[:2])        # a delegation whose first label only begins with '*'
        dels.append(d)
    if dels and rng.random() < 0.3:
        dels.append([rng.choice(L)] + dels[0])          # a delegation below a delegation (occluded)
    hosts = [["6e73"], ["6d78"], ["61"], ["6e73", "62"]]   # ns, mx, a, ns.b  (authoritative unless under a cut)

    def target():
        r = rng.random()
        if dels and r < 0.35:
            return rng.choice([["6e73"], ["61"], ["6e73", "61"]]) + rng.choice(dels) + apex     # inside a delegation
        if r < 0.75:
            return rng.choice(hosts) + apex
        if r < 0.85:
            return [rng.choice(L)] + ["2a"] + apex if rng.random() < 0.3 else ["7a"] + apex      # wildcard-covered / absent
        if r < 0.89:
            # at the limits of what the name parser accepts: a 63-octet label / a wire form of exactly 255 octets
            return [LONG63] + apex if rng.random() < 0.5 else \
                [LONG63] * 3 + ["61" * (61 - sum(len(l) // 2 + 1 for l in apex))] + apex
        return ["6e73", "78"]                                                                    # outside
    recs = []

    def add(owner, ty, rd, ttl=3600):
        recs.append((owner, ty, rd))
    def variants(owner, ty, parts):
        # the same RDATA again with other letter case in its names: ONE member of the RRset (Rdata::equals), so
        # neither TooManyApexSoas nor DuplicateCname nor a second address lookup may come from it
        if rng.random() < 0.25:
            add(owner, ty, render(rng, parts, 0.6))
    for _ in range(rng.choice([0, 1, 1, 1, 2])):
        parts = [("n", ["6e73"] + apex), ("n", ["72"] + apex), ("b", "%08x" % rng.choice([1, 1, 2]) + "00000e10" * 4)]
        add(apex, T_SOA, render(rng, parts, 0.0))
        variants(apex, T_SOA, parts)
    for _ in range(rng.choice([0, 1, 2, 2])):
        parts = [("n", target())]
        add(apex, T_NS, render(rng, parts, 0.2))
        variants(apex, T_NS, parts)
    for d in dels:
        for _ in range(rng.choice([1, 1, 2])):
            parts = [("n", target())]
            add(d + apex, T_NS, render(rng, parts, 0.2))
            variants(d + apex, T_NS, parts)
    for _ in range(rng.choice([0, 1, 2])):
        parts = [("b", "000a"), ("n", target())]
        o = rng.choice([[], ["61"], ["62", "61"]]) + apex
        add(o, T_MX, render(rng, parts, 0.2))
        variants(o, T_MX, parts)
    # addresses: for hosts, for names inside delegations (glue), sometimes for nothing
    for h in hosts:
        recs += addr_records(rng, cls, h + apex)
    for d in dels:
        for pre in (["6e73"], ["61"], ["6e73", "61"]):
            recs += addr_records(rng, cls, pre + d + apex, 0.4, 0.2)
    if rng.random() < 0.4:
        recs += addr_records(rng, cls, ["2a"] + apex, 0.7, 0.2)
    # CNAMEs
    for _ in range(rng.choice([0, 0, 1, 2])):
        o = rng.choice([["63", "61"], ["77"], ["61"], ["2a", "62"]]) + apex
        parts = [("n", target())]
        add(o, T_CNAME, render(rng, parts, 0.0))
        variants(o, T_CNAME, parts)
        if rng.random() < 0.4:
            add(o, T_CNAME, wire(target()))
        if rng.random() < 0.4:
            add(o, rng.choice([T_TXT, T_A if cls != 3 else T_TXT]), rng.choice(TXT_POOL) if True else "")
    # NS at a wildcard
    if rng.random() < 0.3:
        add(rng.choice([["2a"], ["2a", "62"], ["2a"] + (dels[0] if dels else ["63"])]) + apex, T_NS, wire(target()))
    # RDATA that is not a domain name (in every way the parser can refuse it), or only just one
    if rng.random() < 0.12:
        bad = rng.choice(["", "05", "0161", "4061" + "61" * 63 + "00", "016100ff", "c00c", "00ff", "0000",
                          render(rng, [("n", target())], 0.2, rng.choice(MALFORM)),
                          wire([LONG63] * 3 + ["61" * 62]),                 # 256 octets: one too many
                          wire([LONG63] * 3 + ["61" * 61])])                # 255 octets: still a name
        ty = rng.choice([T_NS, T_NS, T_MX])
        o = rng.choice([apex] + [d + apex for d in dels])
        add(o, ty, ("000a" + bad) if ty == T_MX and rng.random() < 0.7 else (bad or "-"))
    rng.shuffle(recs)
    out = []
    for (o, ty, rd) in recs[:45]:
        if ty == T_A and cls == 3 and len(rd) == 8:
            rd = ch_a_rdata(rng)
        out.append(f"{nm(flip_case(rng, o, 0.15))},{ty},{cls},3600,{rd if rd else '-'}")
    return apex, cls, wide, out
