"""Generators and line helpers shared by the zone-store checks (C06, C20, C21)."""
import itertools, re

LABELS = ["61", "62", "63", "2a", "41"]          # a b c * A
APEXES = [[], ["63"], ["62", "63"], ["41", "62"]]
T_A, T_NS, T_CNAME, T_SOA, T_MX, T_TXT, T_AAAA = 1, 2, 5, 6, 15, 16, 28
QTYPES = [1, 2, 5, 6, 16, 28, 15, 255]


def nm(labels):
    return ".".join(labels) if labels else "@"


def wire(labels):
    return "".join("%02x" % (len(l) // 2) + l for l in labels) + "00"


def flip_case(rng, labels, p=0.5):
    out = []
    for l in labels:
        bs = bytes.fromhex(l)
        bs = bytes((b ^ 0x20) if (chr(b).isalpha() and b < 128 and rng.random() < p) else b for b in bs)
        out.append(bs.hex())
    return out


_name_re = re.compile(r"~([0-9a-f.@]+)")


def _lower_name(m):
    s = m.group(1)
    if s == "@":
        return "~@"
    return "~" + ".".join(bytes(b + 32 if 65 <= b <= 90 else b for b in bytes.fromhex(l)).hex() for l in s.split("."))


def lower_names(line):
    return _name_re.sub(_lower_name, line)


A_POOL = ["7f000001", "7f000002", "c0000201"]
AAAA_POOL = ["00000000000000000000000000000001", "20010db8000000000000000000000002"]
TXT_POOL = ["0161", "0141", "026869"]


def name_rdata(rng, apex):
    """a valid uncompressed name, often inside the zone, with case variants (dedup is case-insensitive)"""
    base = rng.choice([["6e73"], ["6e73", "61"], ["61"], ["62", "61"], ["6e73", "78"]])
    tail = apex if rng.random() < 0.7 else ["78"]
    return wire(flip_case(rng, base + tail, 0.3))


def soa_rdata(rng, apex):
    return wire(["6e73"] + apex) + wire(["72"] + apex) + "%08x" % rng.choice([1, 1, 2]) + "00000e10" * 4


def gen_zone(rng, max_records=40):
    """(apex labels, class, [record strings], [accepted-looking owner label lists])"""
    apex = rng.choice(APEXES)
    cls = rng.choice([1, 1, 1, 1, 7, 3])
    # owner pool: relative names, biased to build delegations at several depths, wildcards, ENTs
    pool = [[]]
    for _ in range(rng.randint(1, 10)):
        depth = rng.choice([1, 1, 2, 2, 3, 3, 4])
        pool.append([rng.choice(LABELS) for _ in range(depth)])
    if rng.random() < 0.6:
        p = rng.choice(pool)
        pool.append(["2a"] + p[-2:] if p else ["2a"])
    ns_owners = [p for p in pool if p and rng.random() < 0.35]
    recs = []
    n = rng.choice([0, 1, 2, 5, 10, 20, 30, max_records, rng.randint(0, max_records)])
    for _ in range(n):
        rel = rng.choice(pool)
        r = rng.random()
        if ns_owners and r < 0.25:
            rel = rng.choice(ns_owners)
            ty = T_NS
        elif r < 0.30:
            rel, ty = [], rng.choice([T_NS, T_SOA])
        else:
            ty = rng.choice([T_A, T_A, T_AAAA, T_AAAA, T_CNAME, T_TXT, T_NS, T_MX])
        owner = flip_case(rng, rel + apex, 0.25)
        if rng.random() < 0.05:      # out of the zone
            cands = [owner[1:] if owner else ["78"], rel + ["78"], owner[:-1] + ["64"] if owner else ["64"]]
            if apex:
                # adversarial sibling: same label count as the apex and a WIRE form that ends in the apex's wire form,
                # but the match does not start on a label boundary (first label = 'x' + <len><first apex label>)
                cands.append(["78" + "%02x" % (len(apex[0]) // 2) + apex[0]] + apex[1:])
                cands.append(rel + ["78" + "%02x" % (len(apex[0]) // 2) + apex[0]] + apex[1:])
            owner = rng.choice(cands)
        if ty == T_A:
            # class CH: <name><u16>; lower-case names only, where Rdata::equals is octet equality
            rd = (wire(["63", "68"]) + rng.choice(["0001", "0002"])) if cls == 3 else rng.choice(A_POOL)
        elif ty == T_AAAA:
            rd = rng.choice(AAAA_POOL)
        elif ty in (T_NS, T_CNAME):
            rd = name_rdata(rng, apex)
        elif ty == T_SOA:
            rd = soa_rdata(rng, apex)
        elif ty == T_MX:
            rd = "000a" + wire(["6d78"] + apex)
        else:
            rd = rng.choice(TXT_POOL)
        ttl = 3600 if rng.random() < 0.9 else 7200
        c = cls if rng.random() < 0.97 else rng.choice([1, 3, 7])
        recs.append(f"{nm(owner)},{ty},{c},{ttl},{rd}")
    return apex, cls, recs


def all_rel_names(maxdepth=3):
    for d in range(0, maxdepth + 1):
        for t in itertools.product(LABELS, repeat=d):
            yield list(t)


def outside_names(rng, apex):
    out = [[], ["78"], ["61", "78"]]
    if apex:
        out += [apex[1:], apex[:-1] + ["64"], ["61"] + apex[:-1] + ["64"], apex[:-1], ["61", "62"] + apex[1:],
                ["78" + "%02x" % (len(apex[0]) // 2) + apex[0]] + apex[1:]]
    return out


# ---------------------------------------------------------------- validation zones (C21)

def ch_a_rdata(rng):
    # class CH type A: <domain name><16-bit address>; lower-case names only (req_simple is octet equality here)
    return wire(["63", "68"]) + rng.choice(["0001", "0002"])


def addr_records(rng, cls, owner, p_a=0.6, p_aaaa=0.3):
    out = []
    if rng.random() < p_a:
        out.append((owner, T_A, ch_a_rdata(rng) if cls == 3 else rng.choice(A_POOL)))
    if rng.random() < p_aaaa:
        out.append((owner, T_AAAA, rng.choice(AAAA_POOL)))
    return out


def gen_vzone(rng):
    """(apex, cls, wide, [record strings]): delegations (nested and sibling), name servers in the
    authoritative part / inside the delegation / inside a sibling / outside the zone, glue present or
    absent, apex SOA 0..2, apex NS, MX, CNAME alone / with other data / duplicated, NS at wildcards,
    occasionally RDATA that is not a name."""
    apex = rng.choice(APEXES)
    cls = rng.choice([1, 1, 1, 3, 7])
    wide = rng.choice([0, 1])
    L = ["61", "62", "63"]
    dels = []
    for _ in range(rng.choice([0, 1, 1, 2, 3])):
        d = [rng.choice(L) for _ in range(rng.choice([1, 1, 2]))]
        dels.append(d)
    if dels and rng.random() < 0.3:
        dels.append([rng.choice(L)] + dels[0])          # a delegation below a delegation (occluded)
    hosts = [["6e73"], ["6d78"], ["61"], ["6e73", "62"]]   # ns, mx, a, ns.b  (authoritative unless under a cut)

    def target():
        r = rng.random()
        if dels and r < 0.35:
            return rng.choice([["6e73"], ["61"], ["6e73", "61"]]) + rng.choice(dels) + apex     # inside a delegation
        if r < 0.75:
            return rng.choice(hosts) + apex
        if r < 0.85:
            return [rng.choice(L)] + ["2a"] + apex if rng.random() < 0.3 else ["7a"] + apex      # wildcard-covered / absent
        return ["6e73", "78"]                                                                    # outside
    recs = []

    def add(owner, ty, rd, ttl=3600):
        recs.append((owner, ty, rd))
    for _ in range(rng.choice([0, 1, 1, 1, 2])):
        add(apex, T_SOA, soa_rdata(rng, apex))
    for _ in range(rng.choice([0, 1, 2, 2])):
        add(apex, T_NS, wire(flip_case(rng, target(), 0.2)))
    for d in dels:
        for _ in range(rng.choice([1, 1, 2])):
            add(d + apex, T_NS, wire(flip_case(rng, target(), 0.2)))
    for _ in range(rng.choice([0, 1, 2])):
        add(rng.choice([[], ["61"], ["62", "61"]]) + apex, T_MX, "000a" + wire(target()))
    # addresses: for hosts, for names inside delegations (glue), sometimes for nothing
    for h in hosts:
        recs += addr_records(rng, cls, h + apex)
    for d in dels:
        for pre in (["6e73"], ["61"], ["6e73", "61"]):
            recs += addr_records(rng, cls, pre + d + apex, 0.4, 0.2)
    if rng.random() < 0.4:
        recs += addr_records(rng, cls, ["2a"] + apex, 0.7, 0.2)
    # CNAMEs
    for _ in range(rng.choice([0, 0, 1, 2])):
        o = rng.choice([["63", "61"], ["77"], ["61"], ["2a", "62"]]) + apex
        add(o, T_CNAME, wire(target()))
        if rng.random() < 0.4:
            add(o, T_CNAME, wire(target()))
        if rng.random() < 0.4:
            add(o, rng.choice([T_TXT, T_A if cls != 3 else T_TXT]), rng.choice(TXT_POOL) if True else "")
    # NS at a wildcard
    if rng.random() < 0.3:
        add(rng.choice([["2a"], ["2a", "62"], ["2a"] + (dels[0] if dels else ["63"])]) + apex, T_NS, wire(target()))
    # RDATA that is not a domain name
    if rng.random() < 0.08:
        bad = rng.choice(["", "05", "0161", "4061" + "61" * 63 + "00", "016100ff", "c00c"])
        ty = rng.choice([T_NS, T_NS, T_MX])
        o = rng.choice([apex] + [d + apex for d in dels])
        add(o, ty, ("000a" + bad) if ty == T_MX and rng.random() < 0.7 else (bad or "-"))
    rng.shuffle(recs)
    out = []
    for (o, ty, rd) in recs[:45]:
        if ty == T_A and cls == 3 and len(rd) == 8:
            rd = ch_a_rdata(rng)
        out.append(f"{nm(flip_case(rng, o, 0.15))},{ty},{cls},3600,{rd if rd else '-'}")
    return apex, cls, wide, out
