"""C18 — RDATA reading, validation and writing are mutually consistent (src/rr/rdata/*.rs)."""
import itertools

IN, CH, HS = 1, 3, 4
# (class or None = any, type, format) — the generator's own description of the formats
FORMATS = {
    2: ["N"], 3: ["N"], 4: ["N"], 5: ["N"], 7: ["N"], 8: ["N"], 9: ["N"], 12: ["N"],
    6: ["N", "N", 20], 13: ["S", "S"], 14: ["N", "N"], 15: [2, "N"], 16: ["S+"],
    41: ["O*"], 250: ["N", 6, 2, "B", 2, 2, "B"],
}
IN_FORMATS = {1: [4], 11: [4, 1, "R"], 28: [16], 33: [2, 2, 2, "N"]}
CH_FORMATS = {1: ["N", 2]}
KNOWN_TYPES = sorted(set(FORMATS) | set(IN_FORMATS) | {10})
OTHER_TYPES = [0, 10, 17, 27, 29, 32, 34, 40, 42, 99, 249, 251, 255, 256, 65535]
CLASSES = [IN, IN, IN, IN, CH, CH, HS, 0, 2, 254, 255, 65535]


def hx(b):
    return bytes(b).hex() if len(b) else "-"


def fmt_of(c, t):
    if t in FORMATS:
        return FORMATS[t]
    if c == IN and t in IN_FORMATS:
        return IN_FORMATS[t]
    if c == CH and t in CH_FORMATS:
        return CH_FORMATS[t]
    return ["R"]


def rand_label(rng):
    r = rng.random()
    n = rng.choice([62, 63]) if r < 0.06 else rng.randint(1, 5) if r < 0.85 else rng.randint(1, 63)
    return [rng.choice([ord('a'), ord('A'), ord('z'), ord('Z'), ord('-'), ord('0'), 0, 0xC0, 0x40, rng.randrange(256)])
            for _ in range(n)]


def rand_labels(rng):
    r = rng.random()
    if r < 0.1:
        return []
    if r < 0.8:
        return [rand_label(rng) for _ in range(rng.randint(1, 4))]
    # long names around the 255-octet limit
    target = rng.choice([253, 254, 255, 255, 256, 257, 200])
    ls, used = [], 1
    while used < target:
        n = min(63, target - used - 1)
        if n <= 0:
            break
        n = n if rng.random() < 0.7 else rng.randint(1, n)
        ls.append([rng.choice([ord('a'), ord('B'), 0]) for _ in range(n)])
        used += n + 1
    return ls


def wire(ls):
    out = []
    for l in ls:
        out += [len(l)] + l
    return out + [0]


def rand_bytes(rng, n):
    return [rng.choice([0, 1, 0xC0, 0xFF, ord('a'), rng.randrange(256)]) for _ in range(n)]


def charstr(rng):
    n = rng.choice([0, 0, 1, 3, 3, 10, 254, 255, rng.randint(0, 255)])
    return [n] + rand_bytes(rng, n)


def blob16(rng):
    n = rng.choice([0, 0, 1, 2, 16, 20, 32, 32, 255, 256, 257, rng.randint(0, 400)])
    return [n >> 8, n & 0xFF] + rand_bytes(rng, n)


def gen_field(rng, f):
    if f == "N":
        return wire(rand_labels(rng))
    if isinstance(f, int):
        return rand_bytes(rng, f)
    if f == "S":
        return charstr(rng)
    if f == "S+":
        out = []
        for _ in range(rng.choice([1, 1, 2, 3, rng.randint(1, 8)])):
            out += charstr(rng)
        return out
    if f == "O*":
        out = []
        for _ in range(rng.choice([0, 1, 1, 2, 3, rng.randint(0, 6)])):
            out += rand_bytes(rng, 2) + blob16(rng)
        return out
    if f == "B":
        return blob16(rng)
    if f == "R":
        return rand_bytes(rng, rng.choice([0, 0, 1, 2, 5, 8, rng.randint(0, 40)]))
    raise ValueError(f)


def valid_fields(rng, c, t):
    return [gen_field(rng, f) for f in fmt_of(c, t)]


def near_valid(rng, fields):
    """One structural defect in an otherwise valid RDATA; returns the octets."""
    fs = [list(f) for f in fields]
    flat = [b for f in fs for b in f]
    k = rng.randrange(12)
    if k == 0 and flat:
        return flat[:-1]                                   # one octet short
    if k == 1:
        return flat + [rng.choice([0, 9, 0xC0])]           # one octet long
    if k == 2 and flat:
        return flat[:rng.randrange(len(flat))]             # truncated anywhere
    if k == 3 and flat:
        i = rng.randrange(len(flat))                       # one octet changed (often a length octet)
        flat[i] = rng.choice([0, 1, 63, 64, 0xC0, 0xFF, (flat[i] + 1) & 0xFF, (flat[i] - 1) & 0xFF])
        return flat
    if k == 4 and fs:
        i = rng.randrange(len(fs))                         # a field dropped
        return [b for j, f in enumerate(fs) if j != i for b in f]
    if k == 5 and fs:
        i = rng.randrange(len(fs))                         # a field duplicated
        return [b for j, f in enumerate(fs) for b in (f + f if j == i else f)]
    if k == 6 and fs:
        i = rng.randrange(len(fs))                         # first octet of a field (length octets) off by one
        if fs[i]:
            fs[i][0] = (fs[i][0] + rng.choice([1, -1])) & 0xFF
        return [b for f in fs for b in f]
    if k == 7 and fs:
        i = rng.randrange(len(fs))                         # a field's last octet replaced by a pointer
        fs[i] = fs[i][:-1] + [0xC0, rng.choice([0, 1, 12])]
        return [b for f in fs for b in f]
    if k == 8 and fs:
        i = rng.randrange(len(fs))
        fs[i] = fs[i][:-1]                                 # a field loses its last octet (root label)
        return [b for f in fs for b in f]
    if k == 9 and fs:
        i = rng.randrange(len(fs))
        fs[i] = fs[i] + [0]
        return [b for f in fs for b in f]
    if k == 10:
        return []
    return flat + rand_bytes(rng, rng.randint(1, 4))


def pick_ct(rng):
    r = rng.random()
    if r < 0.8:
        t = rng.choice(KNOWN_TYPES)
        if t in IN_FORMATS and rng.random() < 0.8:
            return (CH if (t == 1 and rng.random() < 0.45) else IN), t
        return rng.choice(CLASSES), t
    if r < 0.95:
        return rng.choice(CLASSES), rng.choice(OTHER_TYPES)
    return rng.randrange(65536), rng.randrange(65536)


ALPHABET = [0, 1, 2, 0x3F, 0x40, 0xC0, 0xFF, ord('a')]
ALL_CT = [(IN, t) for t in KNOWN_TYPES] + [(CH, 1), (CH, 2), (CH, 11), (CH, 28), (CH, 33), (HS, 1), (HS, 15),
                                           (IN, 0), (IN, 99), (255, 250), (0, 41), (65535, 65535)]


def exhaustive_v(maxlen):
    for n in range(0, maxlen + 1):
        for tup in itertools.product(ALPHABET, repeat=n):
            h = hx(tup)
            for c, t in ALL_CT:
                yield f"v {c} {t} {h}"
                if n <= 2:
                    yield f"c {c} {t} {h}"


FIXED_MSGS = [
    [1, ord('a'), 0, 0, 5, 1, ord('b'), 0xC0, 0, 0, 0, 0, 0],
    [0, 0, 1, ord('a'), 0, 0xC0, 2, 0xC0, 5, 0, 0, 0, 0],
    [0] * 6,
    [0] * 30,
    [1, ord('x'), 0] + [0] * 24,
    [3, 1, 2, 3, 0, 7],
]


def exhaustive_r():
    for msg in FIXED_MSGS:
        h = hx(msg)
        for c, t in ALL_CT:
            for cur in range(0, len(msg) + 2):
                for ln in range(0, len(msg) + 2 - cur + 1):
                    yield f"r {c} {t} {h} {cur} {ln}"


def compress_name(rng, ls, targets, here):
    """Encode the name `ls` at message offset `here`, possibly replacing a suffix by a
    pointer to an earlier occurrence recorded in `targets` (suffix tuple -> offset)."""
    out = []
    for i in range(len(ls) + 1):
        suf = tuple(tuple(l) for l in ls[i:])
        if suf in targets and targets[suf] < 0x4000 and rng.random() < 0.8:
            p = targets[suf]
            return out + [0xC0 | (p >> 8), p & 0xFF]
        if i < len(ls):
            out += [len(ls[i])] + ls[i]
    return out + [0]


def record_targets(ls, targets, at):
    off = at
    for i in range(len(ls)):
        suf = tuple(tuple(l) for l in ls[i:])
        targets.setdefault(suf, off)
        off += 1 + len(ls[i])


def read_case(rng):
    """A message with a header-like prefix and a few earlier names, then RDATA of a chosen
    (class,type) whose names may be compressed against the earlier ones or against each other."""
    c, t = pick_ct(rng)
    msg = rand_bytes(rng, rng.choice([0, 12, 12, 12, rng.randint(0, 20)]))
    targets = {}
    pool = []
    for _ in range(rng.randint(0, 3)):
        ls = rand_labels(rng)
        if sum(len(l) + 1 for l in ls) + 1 > 255:
            ls = ls[:2]
        pool.append(ls)
        record_targets(ls, targets, len(msg))
        msg += wire(ls)
        msg += rand_bytes(rng, rng.choice([0, 0, 4, 10]))
    cur = len(msg)
    bounds = [0]
    for f in fmt_of(c, t):
        if f == "N":
            r = rng.random()
            if pool and r < 0.5:
                base = rng.choice(pool)
                ls = [rand_label(rng) for _ in range(rng.choice([0, 0, 1, 2]))] + base[rng.randrange(len(base) + 1):]
            else:
                ls = rand_labels(rng)
            if sum(len(l) + 1 for l in ls) + 1 > 255 and rng.random() < 0.7:
                ls = ls[-2:]
            here = len(msg)
            r = rng.random()
            if r < 0.6:
                enc = compress_name(rng, ls, targets, here)
            elif r < 0.85:
                enc = wire(ls)
            elif r < 0.9:
                enc = wire(ls)[:-1] + [0xC0 | (here >> 8) & 0x3F, here & 0xFF]       # pointer to itself
            elif r < 0.95:
                fw = min(0x3FFF, here + rng.randint(1, 12))
                enc = wire(ls)[:-1] + [0xC0 | (fw >> 8), fw & 0xFF]                  # forward pointer
            else:
                p = rng.randrange(0, max(1, here))
                enc = wire(ls)[:-1] + [0xC0 | (p >> 8) & 0x3F, p & 0xFF]             # pointer to anywhere before
            record_targets(ls, targets, here)
            pool.append(ls)
            msg += enc
        else:
            msg += gen_field(rng, f)
        bounds.append(len(msg) - cur)
    rdlen = len(msg) - cur
    msg += rand_bytes(rng, rng.choice([0, 0, 0, 1, 2, 11, rng.randint(0, 30)]))
    r = rng.random()
    if r < 0.55:
        pass
    elif r < 0.7:
        rdlen = rng.choice(bounds)                          # ends exactly at a field boundary
    elif r < 0.8:
        rdlen = max(0, rdlen + rng.choice([-2, -1, 1, 2]))
    elif r < 0.87:
        rdlen = len(msg) - cur + rng.choice([0, 1, 2, 100])  # to / past the end of the message
    elif r < 0.93:
        cur = max(0, cur + rng.choice([-1, 1, 2]))
    elif r < 0.97:
        cur = rng.randrange(0, len(msg) + 3); rdlen = rng.randrange(0, 40)
    else:
        i = rng.randrange(0, max(1, len(msg)))
        if i < len(msg):
            msg[i] = rng.choice([0, 1, 63, 64, 0xC0, 0xFF])
    return f"r {c} {t} {hx(msg)} {cur} {min(rdlen, 65535)}"


def gen(rng, tier):
    quick = tier == "quick"
    yield from exhaustive_v(3 if quick else 4)
    yield from exhaustive_r()
    n = 12000 if quick else 300000
    for _ in range(n):
        c, t = pick_ct(rng)
        fs = valid_fields(rng, c, t)
        r = rng.random()
        if r < 0.5:
            rd = [b for f in fs for b in f]
        elif r < 0.95:
            rd = near_valid(rng, fs)
        else:
            rd = rand_bytes(rng, rng.randint(0, 40))
        yield f"{'v' if rng.random() < 0.7 else 'c'} {c} {t} {hx(rd)}"
        if known_ct(c, t) and fmt_of(c, t).count("N") and rng.random() < 0.5:
            yield f"c {c} {t} {hx(rd)}"          # name-bearing types: the split oracle too
    for _ in range(n):
        yield read_case(rng)
    # large RDLENGTHs / large RDATA (u16 limits)
    for _ in range(20 if quick else 400):
        c, t = pick_ct(rng)
        big = rand_bytes(rng, rng.choice([65535, 65534, 65000, 40000]))
        yield f"v {c} {t} {hx(big)}"
        yield f"r {c} {t} {hx(big[:rng.choice([100, 65535, 30000])])} {rng.choice([0, 1, 50])} {rng.choice([65535, 65534, 30000, 50])}"


def known_ct(c, t):
    return fmt_of(c, t) != ["R"]


def nontrivial(case, impl, model, oracle):
    f = case.split()
    c, t = int(f[1]), int(f[2])
    if not known_ct(c, t):
        return False
    if f[0] == "r":
        # a successful read of a structured type, or a rejection for a reason other than the RDLENGTH check
        return impl.startswith("ok") or (impl.startswith("err") and impl != "err UnexpectedEom")
    return True


def classify(case, impl, model, oracle):
    f = case.split()
    c, t = int(f[1]), int(f[2])
    return f"{f[0]}:{'known' if known_ct(c, t) else 'opaque'}:" + (impl.split()[0] if impl.startswith("ok") else impl)


CHECK = {
    "property": "C18",
    "props": "Props/C18.v",
    "theorems": ["c18_validate_iff", "c18_validate_total", "c18_validate_err", "c18_validate_opaque",
                 "c18_read_total", "c18_read_iff", "c18_read_err", "c18_read_valid", "c18_read_uncompressed_partial",
                 "c18_oracle_valid_is_spec", "c18_oracle_read_is_spec",
                 "c18_dispatch_validate", "c18_dispatch_read",
                 "c18_components_partition", "c18_components_valid_total", "c18_components_total",
                 "c18_dispatch_components", "c18_components_opaque", "c18_components_agrees", "c18_components_read_back", "c18_laid_out_uncompressed", "c18_components_read_back_ci",
                 "c18_read_starts_with_prepare", "c18_read_usize_panic_iff", "c18_read_usize_fits",
                 "c18_read_usize_in_message"],
    "allowed_axioms": [],
    "correspondence": {"impl_bin": "impl_c18", "extract": "Extract/ExC18.v", "driver": "run_c18.ml"},
    "gen": gen,
    "nontrivial": nontrivial,
    "classify": classify,
    "exhaustive": {"quick": False, "thorough": False},
    "rule": ("ops v (Rdata::validate), r (Rdata::read), c (Rdata::components, oracle = the executable split of the RDATA along the "
             "RFC 3597 §4 layout, spec_components); exhaustive RDATA over the 8 significant "
             "octets {0,1,2,3F,40,C0,FF,'a'} up to length 3 (thorough 4) for all 21 structured (class,type) combinations "
             "+ 12 opaque/unknown/other-class ones; exhaustive (cursor, RDLENGTH) pairs (incl. one past the end) over 6 "
             "fixed messages for the same 33 combinations; seeded valid RDATA built from the generator's own format table, "
             "near-valid RDATA (12 structural defects: one octet short/long, truncated, changed length octet, field dropped/"
             "duplicated, pointer inside a name, missing root label, ...); seeded messages with earlier names and RDATA "
             "whose names are compressed against them or against each other (also self/forward/arbitrary pointers), "
             "RDLENGTH at every field boundary, +-1/2, to/past the end, shifted cursors; 65535-octet RDATA; "
             "non-trivial = structured (class,type) and, for reads, success or a rejection other than the RDLENGTH check; "
             "distinct = distinct case line"),
    "trusted_base": [
        "Coq 8.16.1 kernel (vm_compute only in the Examples)",
        "axioms: none (every theorem: Closed under the global context)",
        "extraction: ExtrOcamlBasic only, no Extract Constant/Inductive of ours; OCaml 4.13.1 ocamlopt",
        "correspondence: checks/c18.py generators, harness/src/bin/impl_c18.rs (catch_unwind), ocaml/run_c18.ml, line diff in tools/qv.py",
        "tools/gen/rdata.py re-extracts the TYPE/CLASS constants, the four `match rr_type` dispatchers of Rdata::{equals,validate,read,components} "
        "and the ComponentType arrays into Gen/RdataTables.v (line-anchored, fails loudly on an unknown handler expression)",
        "the hand-written bodies of the validators/readers in Model/RdataM.v (differentially tested, not derived); Model/NameWire.v and its C14 theorems for embedded names",
        "the RFC formats as transcribed in Spec/RdataFormatS.v (reviewable: 20 lines); the RFC 3597 §4 compressible-type list and the "
        "layout/split functions of Spec/RdataCompS.v",
        "not verified: Cow/Box allocation, the unsafe from_unchecked casts, Rust slice semantics as modelled",
    ],
    "assumptions": ["octets are < 256 (wf_bytes); RDLENGTH < 65536 (it is a u16)",
                    "cursor + RDLENGTH <= usize::MAX for the c18_read_* theorems stated on the nat model: c18_read_usize_panic_iff proves "
                    "this is exactly the condition under which Rdata::read over a bounded usize does not panic and "
                    "c18_read_usize_in_message that it holds for every cursor inside a message held in memory (what Reader passes)"],
}

MANIFEST = {
    "level_text": ("Coq theorems (no axioms): the model of Rdata::validate accepts exactly the encodings generated by an independent "
                   "per-(class,type) RFC grammar, for every class and type (Ok for opaque/unknown ones); the model of Rdata::read never "
                   "panics for any message/cursor/RDLENGTH and returns r exactly when an independent read relation (RFC 1035 §4.1.4 name "
                   "decoding inside the RDATA-truncated message, RFC 3597 §4 decompression set) prescribes r, hence only validated, "
                   "pointer-free RDATA; the dispatch tables are re-extracted from the source on every run and proved to select the RFC format. "
                   "The model is tied to the code by a differential run (~90k quick cases) and both executable spec oracles (proved equal to "
                   "the relations) are evaluated on every implementation output. Rdata::components: for every class/type and octet string the "
                   "components concatenate to the RDATA, their kinds are the layout RFC 3597 §4 gives (names of RFC 1035 types compressible, SRV/CH A "
                   "uncompressible, everything else opaque) plus at most one remainder, the iterator never panics, never errs on valid RDATA, and "
                   "equals an executable split oracle evaluated on every implementation output. The usize of the cursor is explicit: over a bounded "
                   "usize the only panic of Rdata::read is the overflow of cursor + RDLENGTH, impossible for a cursor inside the message."),
    "level_note": ("The write->read half is proved at the RDATA level only (uncompressed encoding placed in a message reads back; components "
                   "partition the RDATA and are classified per RFC 3597 §4 — both proved); the compressing writer is C12/C13's. Trusted: Coq kernel, extraction, hand-written handler bodies "
                   "(differentially tested), the table extractor, the transcription of the RFC formats."),
    "technique": "machine-checked proof in Coq (validation = RFC grammar; read total, sound and complete vs a decoding relation; components partition) + model/implementation correspondence check",
    "design_ref": "DESIGN.md §4 C18",
}
