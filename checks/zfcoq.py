"""A Python mirror of coq/Spec/ZfRenderS.v: the same abstract lines and `choices` values, rendered by an
independent implementation, plus a seeded generator of legal choices and a serializer.  The `render`
suite of checks/c23.py sends (file, expected items, serialized choices) to the runners: the extracted Coq
renderer must produce the same octets, Coq's file_ok must hold, Coq's number_lines must give the same
items, and the real parser and the model must return exactly these items."""

ERAW, ECHAR, EDEC = 0, 1, 2
SPECIAL = set(b" \t\n\r();\\")

CLASSES = {1: b"IN", 3: b"CH", 4: b"HS"}
TYPES = {1: b"A", 2: b"NS", 3: b"MD", 4: b"MF", 5: b"CNAME", 6: b"SOA", 7: b"MB", 8: b"MG", 9: b"MR", 10: b"NULL", 11: b"WKS",
         12: b"PTR", 13: b"HINFO", 14: b"MINFO", 15: b"MX", 16: b"TXT", 28: b"AAAA", 33: b"SRV", 41: b"OPT", 250: b"TSIG"}
NAME_TYPES = [2, 3, 4, 5, 7, 8, 9, 12]


def hx(b):
    b = bytes(b)
    return b.hex() if b else "-"


# ------------------------------------------------------------------ rendering (mirror of the Coq definitions)

def render_octet(e, c):
    if e == ERAW:
        return bytes([c])
    if e == ECHAR:
        return b"\\" + bytes([c])
    return b"\\%03d" % c


def render_octets(es, s):
    return b"".join(render_octet(es[i] if i < len(es) else EDEC, c) for i, c in enumerate(s))


def render_string(sc, s):
    kind, es = sc
    return b'"' + render_octets(es, s) + b'"' if kind == "q" else render_octets(es, s)


def render_rel(ess, ls):
    return b".".join(render_octets(ess[i] if i < len(ess) else [], l) for i, l in enumerate(ls))


def render_name(nc, ls):
    if nc[0] == "at":
        return b"@"
    if nc[0] == "abs":
        return render_rel(nc[1], ls) + b"."
    return render_rel(nc[2], ls[:nc[1]])


def render_uint(ic, n):
    plus, zeros = ic
    return (b"+" if plus else b"") + b"0" * zeros + b"%d" % n


def render_oct(ic, n):
    return b"0" * ic[1] + b"%o" % n


def hexdig(upper, n):
    return 48 + n if n < 10 else (55 if upper else 87) + n


def render_group(drop, upper, g):
    ds = [g // 4096, (g // 256) % 16, (g // 16) % 16, g % 16]
    return bytes(hexdig(upper, d) for d in ds[drop:])


def render_ip6(c, gs):
    drops, uppers, zip_ = c

    def part(lo, hi):
        return b":".join(render_group(drops[i] if i < len(drops) else 0, uppers[i] if i < len(uppers) else False, gs[i]) for i in range(lo, hi))
    if zip_ is None:
        return part(0, len(gs))
    i, n = zip_
    return part(0, i) + b"::" + part(i + n, len(gs))


def apply_case(lows, s):
    return bytes((c + 32 if 65 <= c <= 90 else c) if (lows[i] if i < len(lows) else False) else c for i, c in enumerate(s))


def render_sym(tbl, prefix, sc, v):
    if sc[0] == "m":
        return apply_case(sc[1], tbl[v]) if v in tbl else prefix + b"%d" % v
    return apply_case(sc[1], prefix) + render_uint(sc[2], v)


def render_nl(crlf):
    return b"\r\n" if crlf else b"\n"


def render_sitem(it):
    k = it[0]
    if k == "open":
        return b"("
    if k == "close":
        return b")"
    if k == "nl":
        return render_nl(it[1])
    return b";" + it[1] + render_nl(it[2])


def render_sep(s):
    groups, tail = s
    return b"".join(bl + render_sitem(it) for bl, it in groups) + tail


def render_term(t):
    k = t[0]
    if k == "nl":
        return render_nl(t[1])
    if k == "c":
        return b";" + t[1] + render_nl(t[2])
    if k == "eof":
        return b""
    return b";" + t[1]


def render_eol(e):
    return render_sep(e[0]) + render_term(e[1])


def field_wire(f):
    k = f[0]
    if k == "name":
        return b"".join(bytes([len(l)]) + l for l in f[1]) + b"\0"
    if k in ("u16", "oct"):
        return f[1].to_bytes(2, "big")
    if k == "u32":
        return f[1].to_bytes(4, "big")
    if k == "ip4":
        return bytes(f[1])
    if k == "ip6":
        return b"".join(g.to_bytes(2, "big") for g in f[1])
    if k == "proto":
        return bytes([f[1]])
    if k == "port":
        return b""
    return bytes([len(f[1])]) + f[1]


def wks_bitmap(ports):
    """One bit per port, numbered from the most significant bit of each octet (RFC 1035 3.4.2 / 2.3.2), as rfc_order of the Coq spec."""
    if not ports:
        return b""
    bm = bytearray(max(ports) // 8 + 1)
    for p in ports:
        bm[p // 8] |= 0x80 >> (p % 8)
    return bytes(bm)


def render_field(fc, f):
    k = f[0]
    if k == "name":
        return render_name(fc[1], f[1])
    if k in ("u16", "u32"):
        return render_uint(fc[1], f[1])
    if k == "oct":
        return render_oct(fc[1], f[1])
    if k == "ip4":
        return b".".join(b"%d" % x for x in f[1])
    if k == "ip6":
        return render_ip6(fc[1], f[1])
    if k == "proto":
        pc = fc[1]
        if pc[0] == "tcp":
            return apply_case(pc[1], b"TCP")
        if pc[0] == "udp":
            return apply_case(pc[1], b"UDP")
        return render_uint(pc[1], f[1])
    if k == "port":
        return render_uint(fc[1], f[1])
    return render_string(fc[1], f[1])


def rdata_wire(d):
    if d[0] != "fields":
        return d[1]
    return b"".join(field_wire(f) for f in d[1]) + wks_bitmap([f[1] for f in d[1] if f[0] == "port"])


def render_rdata(dc, d):
    if dc[0] == "fields":
        return b"".join(render_sep(s) + render_field(fc, f) for (s, fc), f in zip(dc[1], d[1]))
    _, s0, s1, ic, ws = dc
    data = rdata_wire(d)
    out = render_sep(s0) + b"\\#" + render_sep(s1) + render_uint(ic, len(data))
    for (so, u1, u2), o in zip(ws, data):
        out += (render_sep(so) if so is not None else b"") + bytes([hexdig(u1, o // 16), hexdig(u2, o % 16)])
    return out


def render_tc(tc, cls):
    k = tc[0]
    if k == "none":
        return b""
    if k == "t":
        return render_uint(tc[2], tc[1]) + render_sep(tc[3])
    if k == "c":
        return render_sym(CLASSES, b"CLASS", tc[1], cls) + render_sep(tc[2])
    if k == "tc":
        return render_uint(tc[2], tc[1]) + render_sep(tc[3]) + render_sym(CLASSES, b"CLASS", tc[4], cls) + render_sep(tc[5])
    return render_sym(CLASSES, b"CLASS", tc[1], cls) + render_sep(tc[2]) + render_uint(tc[4], tc[3]) + render_sep(tc[5])


def render_line(l):
    k = l[0]
    if k == "rec":
        rc, r = l[1], l[2]
        out = render_sep(rc["lead"])
        if rc["owner"] is not None:
            out += render_name(rc["owner"][0], r["owner"]) + render_sep(rc["owner"][1])
        out += render_tc(rc["tc"], r["class"]) + render_sym(TYPES, b"TYPE", rc["type"], r["type"])
        return out + render_rdata(rc["rdata"], r["rdata"]) + render_eol(rc["end"])
    if k == "blank":
        return render_eol(l[1])
    if k == "origin":
        return apply_case(l[1], b"$ORIGIN") + render_sep(l[2]) + render_name(l[3], l[4]) + render_eol(l[5])
    if k == "include":
        _, lows, s, pc, path, org, e = l
        out = apply_case(lows, b"$INCLUDE") + render_sep(s) + render_string(pc, path)
        if org is not None:
            out += render_sep(org[0]) + render_name(org[1], org[2])
        return out + render_eol(e)
    return apply_case(l[1], b"$TTL") + render_sep(l[2]) + render_uint(l[3], l[4]) + render_eol(l[5])


def render_file(lines):
    return b"".join(render_line(l) for l in lines)


def denote(lines):
    """Records and $INCLUDE directives with their line numbers; an $INCLUDE carries the origin given, else the current one."""
    out, line, origin = [], 1, None
    for l in lines:
        if l[0] == "rec":
            out.append((line, ("rec", l[2])))
        elif l[0] == "include":
            out.append((line, ("include", l[4], l[5][2] if l[5] is not None else origin)))
        elif l[0] == "origin":
            origin = l[4]
        line += render_line(l).count(b"\n")
    return out


def name_str(ls):
    return "%s/%d" % (hx(field_wire(("name", ls))), len(ls) + 1)


def show_items(items):
    res = []
    for n, it in items:
        if it[0] == "rec":
            r = it[1]
            res.append("R%d o=%s t=%d c=%d y=%d d=%s v=ok" % (n, name_str(r["owner"]), r["ttl"], r["class"], r["type"], hx(rdata_wire(r["rdata"]))))
        else:
            res.append("I%d p=%s o=%s" % (n, hx(it[1]), name_str(it[2]) if it[2] is not None else "none"))
    return " ; ".join(res + ["after=0"])


# ------------------------------------------------------------------ serialization (decoded by ocaml/run_c24.ml)

def ser_lines(lines):
    t = []

    def nat(n):
        t.append(str(n))

    def bl(b):
        t.append("1" if b else "0")

    def by(b):
        t.append(hx(b))

    def lst(xs, f):
        nat(len(xs))
        for x in xs:
            f(x)

    def escs(es):
        lst(es, nat)

    def sitem(it):
        k = it[0]
        if k == "open":
            nat(0)
        elif k == "close":
            nat(1)
        elif k == "nl":
            nat(2); bl(it[1])
        else:
            nat(3); by(it[1]); bl(it[2])

    def sep(s):
        lst(s[0], lambda g: (by(g[0]), sitem(g[1])))
        by(s[1])

    def term(x):
        k = x[0]
        if k == "nl":
            nat(0); bl(x[1])
        elif k == "c":
            nat(1); by(x[1]); bl(x[2])
        elif k == "eof":
            nat(2)
        else:
            nat(3); by(x[1])

    def eol(e):
        sep(e[0]); term(e[1])

    def labels(ls):
        lst(ls, by)

    def nch(nc):
        if nc[0] == "at":
            nat(0)
        elif nc[0] == "abs":
            nat(1); lst(nc[1], escs)
        else:
            nat(2); nat(nc[1]); lst(nc[2], escs)

    def ich(ic):
        bl(ic[0]); nat(ic[1])

    def sym(sc):
        if sc[0] == "m":
            nat(0); lst(sc[1], bl)
        else:
            nat(1); lst(sc[1], bl); ich(sc[2])

    def sch(sc):
        nat(0 if sc[0] == "q" else 1); escs(sc[1])

    def fch(fc):
        k = fc[0]
        if k == "name":
            nat(0); nch(fc[1])
        elif k == "int":
            nat(1); ich(fc[1])
        elif k == "ip6":
            nat(2); lst(fc[1][0], nat); lst(fc[1][1], bl)
            if fc[1][2] is None:
                nat(0)
            else:
                nat(1); nat(fc[1][2][0]); nat(fc[1][2][1])
        elif k == "str":
            nat(3); sch(fc[1])
        elif k == "proto":
            nat(5)
            pc = fc[1]
            if pc[0] == "tcp":
                nat(0); lst(pc[1], bl)
            elif pc[0] == "udp":
                nat(1); lst(pc[1], bl)
            else:
                nat(2); ich(pc[1])
        else:
            nat(4)

    def fval(f):
        k = f[0]
        if k == "name":
            nat(0); labels(f[1])
        elif k == "u16":
            nat(1); nat(f[1])
        elif k == "u32":
            nat(2); nat(f[1])
        elif k == "oct":
            nat(3); nat(f[1])
        elif k == "ip4":
            nat(4); [nat(x) for x in f[1]]
        elif k == "ip6":
            nat(5); lst(f[1], nat)
        elif k == "proto":
            nat(7); nat(f[1])
        elif k == "port":
            nat(8); nat(f[1])
        else:
            nat(6); by(f[1])

    def tcc(tc):
        k = tc[0]
        if k == "none":
            nat(0)
        elif k == "t":
            nat(1); nat(tc[1]); ich(tc[2]); sep(tc[3])
        elif k == "c":
            nat(2); sym(tc[1]); sep(tc[2])
        elif k == "tc":
            nat(3); nat(tc[1]); ich(tc[2]); sep(tc[3]); sym(tc[4]); sep(tc[5])
        else:
            nat(4); sym(tc[1]); sep(tc[2]); nat(tc[3]); ich(tc[4]); sep(tc[5])

    def dch(dc):
        if dc[0] == "fields":
            nat(0); lst(dc[1], lambda c: (sep(c[0]), fch(c[1])))
        else:
            nat(1); sep(dc[1]); sep(dc[2]); ich(dc[3])
            lst(dc[4], lambda w: ((nat(0) if w[0] is None else (nat(1), sep(w[0]))), bl(w[1]), bl(w[2])))

    def rdata(d):
        if d[0] == "fields":
            nat(0); lst(d[1], fval)
        else:
            nat(1); by(d[1])

    def line(l):
        k = l[0]
        if k == "rec":
            rc, r = l[1], l[2]
            nat(0); sep(rc["lead"])
            if rc["owner"] is None:
                nat(0)
            else:
                nat(1); nch(rc["owner"][0]); sep(rc["owner"][1])
            tcc(rc["tc"]); sym(rc["type"]); dch(rc["rdata"]); eol(rc["end"])
            labels(r["owner"]); nat(r["ttl"]); nat(r["class"]); nat(r["type"]); rdata(r["rdata"])
        elif k == "blank":
            nat(1); eol(l[1])
        elif k == "origin":
            nat(2); lst(l[1], bl); sep(l[2]); nch(l[3]); labels(l[4]); eol(l[5])
        elif k == "include":
            nat(4); lst(l[1], bl); sep(l[2]); sch(l[3]); by(l[4])
            if l[5] is None:
                nat(0)
            else:
                nat(1); sep(l[5][0]); nch(l[5][1]); labels(l[5][2])
            eol(l[6])
        else:
            nat(3); lst(l[1], bl); sep(l[2]); ich(l[3]); nat(l[4]); eol(l[5])

    lst(lines, line)
    return ",".join(t)


# ------------------------------------------------------------------ generation of legal choices

def wire_len(ls):
    return sum(1 + len(l) for l in ls) + 1


def gen_label(rng, hard):
    n = rng.choice([1, 1, 2, 3, 3, 4, 5, 8, rng.randint(1, 20)])
    if rng.random() < 0.02:
        n = rng.choice([62, 63])
    alpha = (b"abcXYZ019-_*" + bytes([0, 9, 10, 13, 32, 34, 35, 36, 40, 41, 46, 59, 64, 92, 127, 128, 200, 255])) if hard \
        else b"abcdefghijklmnopqrstuvwxyzABCXYZ0123456789-_"
    return bytes(rng.choice(alpha) for _ in range(n))


def gen_labels(rng, hard, maxn=4, budget=255):
    k = rng.choice([0, 1, 1, 2, 2, 3, maxn])
    ls = [gen_label(rng, hard and rng.random() < 0.4) for _ in range(k)]
    while wire_len(ls) > budget:
        ls.pop()
    return ls


def gen_escs(rng, s, ctx):
    """ctx: 'label' | 'unq' | 'q'."""
    es = []
    for c in s:
        if ctx == "q":
            raw_ok = c not in (34, 92)
        else:
            raw_ok = c not in SPECIAL and not (ctx == "label" and c == 46)
        opts = [EDEC]
        if not (48 <= c <= 57):
            opts.append(ECHAR)
        r = rng.random()
        if raw_ok and r < 0.9:
            es.append(ERAW)
        else:
            es.append(rng.choice(opts))
    if rng.random() < 0.05 and es:
        es = es[:rng.randrange(len(es))] if all(True for _ in es) else es        # a short list: the rest is written as \DDD
    return es


def gen_ich(rng):
    r = rng.random()
    return (r < 0.05, rng.randint(1, 3) if 0.05 <= r < 0.12 else 0)


def gen_lows(rng, n):
    if rng.random() < 0.7:
        return []
    return [rng.random() < 0.5 for _ in range(rng.randint(0, n))]


def gen_sym(rng, tbl, v):
    if v in tbl and rng.random() < 0.85:
        return ("m", gen_lows(rng, len(tbl[v])))
    return ("n", gen_lows(rng, 5), gen_ich(rng))


def gen_blanks(rng, lo=0):
    return bytes(rng.choice(b" \t") if rng.random() < 0.3 else 32 for _ in range(rng.choice([lo, 1, 1, 2, 3]) if lo else rng.choice([0, 0, 1, 2])))


def gen_comment(rng):
    return bytes(rng.choice(b"abc ;()\"\\$@.\t#0123") for _ in range(rng.randint(0, 10)))


def gen_sep(rng, st, nonempty=True, allow_paren=True, crlf=False):
    """st: {'paren': bool}; a separator that is legal in the current parenthesis state."""
    groups = []
    n = rng.choice([0, 0, 0, 0, 1, 1, 2, 3]) if allow_paren else 0
    for _ in range(n):
        bl = gen_blanks(rng)
        if not st["paren"]:
            groups.append((bl, ("open",)))
            st["paren"] = True
        else:
            r = rng.random()
            if r < 0.3:
                groups.append((bl, ("close",)))
                st["paren"] = False
            elif r < 0.7:
                groups.append((bl, ("nl", crlf)))
            else:
                groups.append((bl, ("comment", gen_comment(rng), crlf)))
    tail = gen_blanks(rng)
    if nonempty and not groups and not tail:
        tail = gen_blanks(rng, 1)
    return (groups, tail)


def gen_eol(rng, st, crlf, last):
    groups = []
    if st["paren"]:
        # close the group (possibly after some more line breaks inside it)
        for _ in range(rng.choice([0, 0, 1])):
            groups.append((gen_blanks(rng), ("nl", crlf) if rng.random() < 0.6 else ("comment", gen_comment(rng), crlf)))
        groups.append((gen_blanks(rng), ("close",)))
        st["paren"] = False
    elif rng.random() < 0.05:
        groups.append((gen_blanks(rng), ("open",)))
        groups.append((gen_blanks(rng), ("nl", crlf)))
        groups.append((gen_blanks(rng), ("close",)))
    tail = gen_blanks(rng) if rng.random() < 0.3 else b""
    r = rng.random()
    if last and r < 0.3:
        term = ("eof",) if rng.random() < 0.6 else ("ceof", gen_comment(rng))
    elif r < 0.8:
        term = ("nl", crlf)
    else:
        term = ("c", gen_comment(rng), crlf)
    return ((groups, tail), term)


def gen_name_choice(rng, ls, origin, first, bol):
    """A legal nchoice for the name ls in the given context."""
    forms = ["abs"]
    if origin is not None:
        if ls == origin:
            forms += ["at", "at"]
        k = len(ls) - len(origin)
        if k >= 1 and ls[k:] == origin:
            forms += ["rel", "rel"]
    f = rng.choice(forms)
    if f == "at":
        return ("at",)
    shown = ls if f == "abs" else ls[:len(ls) - len(origin)]
    ess = [gen_escs(rng, l, "label") for l in shown]
    nc = ("abs", ess) if f == "abs" else ("rel", len(shown), ess)
    tok = render_name(nc, ls)
    if (f == "rel" and (tok == b"@" or (first and tok == b"\\#"))) or (bol and tok[:1] == b"$"):
        ess[0] = [EDEC] + list(ess[0][1:]) if ess[0] else [EDEC]
        if not shown[0]:
            pass
        nc = ("abs", ess) if f == "abs" else ("rel", len(shown), ess)
    return nc


def gen_string_choice(rng, s, first):
    if len(s) == 0 or rng.random() < 0.5:
        return ("q", gen_escs(rng, s, "q"))
    es = gen_escs(rng, s, "unq")
    while len(es) < len(s):
        es.append(EDEC)
    tok = render_octets(es, s)
    if tok[:1] == b'"' or (first and tok == b"\\#"):
        es[0] = EDEC
    return ("u", es)


def gen_u(rng, bits):
    m = (1 << bits) - 1
    return rng.choice([0, 1, 2, 10, 255, 256, 3600, 86400, m, m - 1, rng.randint(0, m), rng.randint(0, min(m, 100000))]) & m


def gen_string(rng, maxlen=30):
    n = rng.choice([0, 1, 2, 3, 5, 8, rng.randint(0, maxlen)])
    if rng.random() < 0.02:
        n = rng.choice([254, 255])
    alpha = b"abcdefgh XYZ012;()\"\\.\t#$@" + bytes([10, 13, 0, 127, 128, 255])
    return bytes(rng.choice(alpha) if rng.random() < 0.5 else rng.choice(b"abcdefghijklmnop") for _ in range(n))


def gen_rdata_values(rng, hard, origin):
    """(type, class or None, fields or None, data or None)"""
    def nm():
        if origin is not None and rng.random() < 0.4:
            rel = gen_labels(rng, hard, 2, 255 - wire_len(origin) + 1)
            return ("name", rel + origin)
        return ("name", gen_labels(rng, hard))
    kind = rng.choice(["A", "A", "NS", "CNAME", "SOA", "MX", "TXT", "TXT", "AAAA", "SRV", "PTR", "HINFO", "MINFO", "CHA", "MB", "MG",
                       "MR", "MD", "MF", "UNK", "UNK", "WKS"])
    if kind == "WKS":
        ports = [rng.choice([0, 7, 8, 25, 53, 80, 255, 256, 1023, rng.randint(0, 2000)]) for _ in range(rng.choice([0, 1, 2, 3, 6]))]
        if rng.random() < 0.03:
            ports.append(65535)
        return 11, 1, [("ip4", [rng.randrange(256) for _ in range(4)]), ("proto", rng.choice([6, 17, 0, 1, 255, rng.randrange(256)]))] + [("port", q) for q in ports]
    if kind == "A":
        return 1, 1, [("ip4", [rng.randrange(256) for _ in range(4)])]
    if kind in ("NS", "CNAME", "PTR", "MB", "MG", "MR", "MD", "MF"):
        return {"NS": 2, "MD": 3, "MF": 4, "CNAME": 5, "MB": 7, "MG": 8, "MR": 9, "PTR": 12}[kind], None, [nm()]
    if kind == "SOA":
        return 6, None, [nm(), nm()] + [("u32", gen_u(rng, 32)) for _ in range(5)]
    if kind == "MX":
        return 15, None, [("u16", gen_u(rng, 16)), nm()]
    if kind == "TXT":
        return 16, None, [("str", gen_string(rng)) for _ in range(rng.choice([1, 1, 2, 3, rng.randint(1, 6)]))]
    if kind == "AAAA":
        return 28, 1, [("ip6", [rng.choice([0, 0, 0, 1, 255, 4096, rng.randrange(65536)]) for _ in range(8)])]
    if kind == "SRV":
        return 33, 1, [("u16", gen_u(rng, 16)), ("u16", gen_u(rng, 16)), ("u16", gen_u(rng, 16)), nm()]
    if kind == "HINFO":
        return 13, None, [("str", gen_string(rng)), ("str", gen_string(rng))]
    if kind == "MINFO":
        return 14, None, [nm(), nm()]
    if kind == "CHA":
        return 1, 3, [nm(), ("oct", gen_u(rng, 16))]
    t = rng.choice([17, 18, 29, 99, 255, 256, 65280, 65535, rng.randint(42, 65535)])
    while t in (10, 41, 250) or t in TYPES:
        t = rng.randint(42, 65535)
    return t, None, None, bytes(rng.randrange(256) for _ in range(rng.choice([0, 0, 1, 2, 4, 16, rng.randint(0, 60)])))


def gen_field_choice(rng, f, origin, first):
    k = f[0]
    if k == "name":
        return ("name", gen_name_choice(rng, f[1], origin, first, False))
    if k in ("u16", "u32"):
        return ("int", gen_ich(rng))
    if k == "oct":
        return ("int", (False, rng.choice([0, 0, 0, 1, 2])))
    if k == "ip4":
        return ("plain",)
    if k == "proto":
        if f[1] == 6 and rng.random() < 0.7:
            return ("proto", ("tcp", gen_lows(rng, 3)))
        if f[1] == 17 and rng.random() < 0.7:
            return ("proto", ("udp", gen_lows(rng, 3)))
        return ("proto", ("num", gen_ich(rng)))
    if k == "port":
        return ("int", gen_ich(rng))
    if k == "ip6":
        drops = []
        for g in f[1]:
            lead = 0
            for d in (g // 4096, (g // 256) % 16, (g // 16) % 16):
                if d == 0:
                    lead += 1
                else:
                    break
            drops.append(rng.choice([lead, lead, rng.randint(0, lead)]))
        runs = [(i, j - i) for i in range(8) for j in range(i + 1, 9) if all(g == 0 for g in f[1][i:j])]
        zip_ = rng.choice(runs) if runs and rng.random() < 0.7 else None
        return ("ip6", (drops, [rng.random() < 0.3 for _ in f[1]], zip_))
    return ("str", gen_string_choice(rng, f[1], first))


def gen_file(rng, nlines=None, hard=None):
    """Returns (lines, file octets, expected items string)."""
    if hard is None:
        hard = rng.random() < 0.4
    crlf = rng.random() < 0.25
    origin = owner = ttl = cls = default = None
    lines = []
    n = nlines if nlines is not None else rng.choice([1, 2, 3, 5, 8, 12])
    for i in range(n):
        last = i == n - 1
        st = {"paren": False}
        r = rng.random()
        if r < 0.08:
            lines.append(("blank", gen_eol(rng, st, crlf, last)))
        elif r < 0.2:
            ls = gen_labels(rng, hard)
            if origin is not None and rng.random() < 0.4:
                ls = gen_labels(rng, hard, 2, 255 - wire_len(origin) + 1) + origin
            s = gen_sep(rng, st, True, True, crlf)
            nc = gen_name_choice(rng, ls, origin, False, False)
            lines.append(("origin", gen_lows(rng, 7), s, nc, ls, gen_eol(rng, st, crlf, last)))
            origin = ls
        elif r < 0.3:
            v = gen_u(rng, 32)
            s = gen_sep(rng, st, True, True, crlf)
            lines.append(("ttl", gen_lows(rng, 4), s, gen_ich(rng), v, gen_eol(rng, st, crlf, last)))
            default = 0 if v > 0x7FFFFFFF else v
        elif r < 0.35:
            path = gen_string(rng, 20)
            s = gen_sep(rng, st, True, True, crlf)
            pc = gen_string_choice(rng, path, False)
            org = None
            if rng.random() < 0.5:
                ls = gen_labels(rng, hard)
                if origin is not None and rng.random() < 0.4:
                    ls = gen_labels(rng, hard, 2, 255 - wire_len(origin) + 1) + origin
                s2 = gen_sep(rng, st, not (pc[0] == "q" and rng.random() < 0.3), True, crlf)
                org = (s2, gen_name_choice(rng, ls, origin, False, False), ls)
            lines.append(("include", gen_lows(rng, 8), s, pc, path, org, gen_eol(rng, st, crlf, last)))
        else:
            vals = gen_rdata_values(rng, hard, origin)
            typ, c = vals[0], vals[1]
            rc = {}
            # owner
            if owner is not None and rng.random() < 0.3:
                own = owner
                lead = ([], gen_blanks(rng, 1)) if rng.random() < 0.8 else ([(gen_blanks(rng, 1), ("open",))], gen_blanks(rng))
                if lead[0]:
                    st["paren"] = True
                rc["lead"], rc["owner"] = lead, None
            else:
                own = gen_labels(rng, hard)
                if origin is not None and rng.random() < 0.4:
                    own = gen_labels(rng, hard, 2, 255 - wire_len(origin) + 1) + origin
                if origin is not None and rng.random() < 0.15:
                    own = list(origin)
                if rng.random() < 0.08:
                    lead = ([(b"", ("open",))], gen_blanks(rng))
                    st["paren"] = True
                    if rng.random() < 0.5:
                        lead = ([(b"", ("open",)), (gen_blanks(rng), ("nl", crlf))], gen_blanks(rng))
                else:
                    lead = ([], b"")
                empty_lead = not lead[0] and not lead[1]
                nc = gen_name_choice(rng, own, origin, False, True)
                rc["lead"], rc["owner"] = lead, (nc, gen_sep(rng, st, True, True, crlf))
            # TTL and class
            raw = gen_u(rng, 32)
            klass = c if c is not None else rng.choice([1, 1, 1, 3, 4, 2, 254, rng.randint(0, 65535)])
            have = default if default is not None else ttl
            show_t = have is None or rng.random() < 0.5
            show_c = cls is None or cls != klass or rng.random() < 0.5
            t_val = (0 if raw > 0x7FFFFFFF else raw) if show_t else have
            if show_t and show_c:
                if rng.random() < 0.5:
                    rc["tc"] = ("tc", raw, gen_ich(rng), gen_sep(rng, st, True, True, crlf), gen_sym(rng, CLASSES, klass), gen_sep(rng, st, True, True, crlf))
                else:
                    rc["tc"] = ("ct", gen_sym(rng, CLASSES, klass), gen_sep(rng, st, True, True, crlf), raw, gen_ich(rng), gen_sep(rng, st, True, True, crlf))
            elif show_t:
                rc["tc"] = ("t", raw, gen_ich(rng), gen_sep(rng, st, True, True, crlf))
            elif show_c:
                rc["tc"] = ("c", gen_sym(rng, CLASSES, klass), gen_sep(rng, st, True, True, crlf))
            else:
                rc["tc"] = ("none",)
            rc["type"] = gen_sym(rng, TYPES, typ)
            # RDATA
            if vals[2] is not None:
                d = ("fields", vals[2])
                generic = rng.random() < 0.2
            else:
                d = ("data", vals[3])
                generic = True
            if generic:
                s0 = gen_sep(rng, st, True, True, crlf)
                s1 = gen_sep(rng, st, True, True, crlf)
                ws = []
                for j, o in enumerate(rdata_wire(d)):
                    so = gen_sep(rng, st, True, True, crlf) if (j == 0 or rng.random() < 0.15) else None
                    ws.append((so, rng.random() < 0.3, rng.random() < 0.3))
                rc["rdata"] = ("generic", s0, s1, gen_ich(rng), ws)
            else:
                cs = []
                closed = False
                for j, f in enumerate(vals[2]):
                    s = gen_sep(rng, st, not (closed and rng.random() < 0.3), True, crlf)
                    fc = gen_field_choice(rng, f, origin, j == 0)
                    closed = f[0] == "str" and fc[1][0] == "q"
                    cs.append((s, fc))
                rc["rdata"] = ("fields", cs)
            rc["end"] = gen_eol(rng, st, crlf, last)
            rec = {"owner": own, "ttl": t_val, "class": klass, "type": typ, "rdata": d}
            lines.append(("rec", rc, rec))
            owner, ttl, cls = own, t_val, klass
    data = render_file(lines)
    return lines, data, show_items(denote(lines))
