"""C28 — rate limiting counts correctly under concurrent requests (src/server/rrl.rs:364-407)."""

KINDS = ["na", "nB", "da", "wq", "yq", "cq", "xq", "rq", "f", "va", "u"]


def gen(rng, tier):
    n_cases = 400 if tier == "quick" else 20000
    for i in range(n_cases):
        threads = rng.choice([2, 2, 3, 4, 4, 7, 8, 8, 12, 15, 16, 16])
        r = rng.random()
        if r < 0.3:
            bursts = [rng.randint(1, 20) for _ in range(threads)]
        elif r < 0.8:
            b = rng.choice([50, 100, 200, 400])
            bursts = [rng.randint(b // 2, b) for _ in range(threads)]
        else:
            bursts = [rng.choice([1, 1, 2, rng.randint(200, 600 if tier == "quick" else 2000)]) for _ in range(threads)]
        rounds = rng.random() < 0.15
        if rounds:
            # fresh-stream rounds (mode 4): small bursts from 4-8 threads whose first requests collide
            threads = rng.choice([4, 6, 8, 8])
            bursts = [rng.randint(1, 5) for _ in range(threads)]
        n = sum(bursts)
        window = rng.choice([1, 1, 2, 3, 5])
        target = rng.choice([1, 2, max(1, n // 2), max(1, n - 1), n, n + 1, 2 * n, rng.randint(1, n + 5)])
        rate = max(1, target // window)
        slip = rng.choice([0, 1, 1, 2, 3])
        size = rng.choice([1, 7, 65537])
        if rng.random() < 0.02:
            rate, window = rng.choice([(0, 1), (1, 0), (65536, 65536)])
        yield (f"{rate} {window} {slip} {size} {rng.choice(KINDS)} {rng.choice([0, 1])} {4 if rounds else rng.choice([0, 0, 1, 2, 3])} "
               f"{rng.randrange(1 << 30)} {','.join(map(str, bursts))}")


def counts(line):
    d = dict(x.split("=") for x in line.split()[1:]) if line.startswith("ok ") else {}
    return int(d.get("sent", -1)), int(d.get("limited", -1))


def nontrivial(case, impl, model, oracle):
    s, l = counts(impl)
    return s > 0 and l > 0 and len(case.split()[8].split(",")) >= 2     # the limit was reached while several threads were at it


def classify(case, impl, model, oracle):
    if not impl.startswith("ok"):
        return impl
    s, l = counts(impl)
    t = len(case.split()[8].split(","))
    return f"threads{'2-4' if t <= 4 else '5-8' if t <= 8 else '9-16'}:" + ("all-sent" if l == 0 else "limit-reached")


CHECK = {
    "property": "C28",
    "props": "Props/C28.v",
    "theorems": ["c28_exact", "c28_exact_fresh", "c28_table_exact", "c28_table_projection", "c28_invariant_init", "c28_invariant_step", "c28_progress", "c28_can_finish",
                 "c28_cell_step_is_process_response", "c28_lockless_refuted"],
    "allowed_axioms": [],
    "suites": [{
        "name": "rrlconc",
        "impl_bin": "impl_c28", "extract": "Extract/ExC28.v", "driver": "run_c28.ml",
        "gen": gen, "nontrivial": nontrivial, "classify": classify,
        "timeout": {"quick": 300, "thorough": 3000},
        "exhaustive": {"quick": False, "thorough": False},
        "rule": ("stress runs on the real code: one Server, 2-16 OS threads released together by a barrier, each handling a burst of "
                 "1..600 (thorough: ..2000) identical requests of one stream from different addresses of one /24 (back to back / yield "
                 "after every request / pseudo-random spins / pseudo-random yields), rate x window chosen around the total n (1, 2, n/2, "
                 "n-1, n, n+1, 2n, random), slip 0/1/2/3, table sizes 1/7/65537; a run counts only if it took < 0.8 s; 15% of the cases are FRESH-STREAM ROUNDS (the same small burst of 4-8 "
                 "threads repeated 60 times on one Server, each round from a /24 never seen before, threads released by a spinning barrier so "
                 "that the requests that CREATE the bucket collide; every round must give the same counts); the total sent must "
                 "equal min(n, rate x window); the model column runs the extracted interleaving semantics under a seeded random "
                 "schedule; non-trivial = the limit was reached (some sent, some limited); distinct = distinct case line"),
    }],
    "trusted_base": [
        "Coq 8.16.1 kernel (vm_compute only in the closed witnesses/examples)",
        "axioms: none (every theorem: Closed under the global context)",
        "extraction: ExtrOcamlBasic only; OCaml 4.13.1 ocamlopt",
        "ASSUMED, not exhibited by the model: std::sync::Mutex gives mutual exclusion and release/acquire ordering (the model's "
        "Acquire step is atomic and the cell sequentially consistent); no poisoning; Instant::now() is read inside the lock",
        "correspondence: checks/c28.py generator, harness/src/bin/impl_c28.rs (threads, barrier, counting, < 0.8 s rule), "
        "ocaml/run_c28.ml (random scheduler over the extracted cstep), line diff in tools/qv.py; OS schedules are sampled, not enumerated",
    ],
    "assumptions": ["all clock readings of the burst lie in an interval shorter than one second in which the bucket gets no refill "
                    "(cell_ok); the harness enforces < 0.8 s per run",
                    "c28_table_exact: threads of other streams do not share the stream's bucket (a colliding stream evicts the entry and restarts the count — C26 c26_refines_mixed)"],
}

MANIFEST = {
    "level_text": ("Coq theorems (no axioms) about a small-step interleaving semantics of process_response (threads, the bucket's lock, "
                   "acquire/read/write/release steps, arbitrary scheduler and clock readings within one refill second): for ANY number of "
                   "threads, ANY bursts and ANY schedule, when all threads are done exactly min(n, tokens) responses were sent and the rest "
                   "limited (inductive invariant: mutual exclusion, reads current, one token per sent response); progress (no deadlock, no "
                   "panic); lifted to the whole table with one lock per bucket and threads of many streams by a step-for-step projection; the lockless variant is refuted. Real code: ~400 (quick) stress runs with 2-16 OS threads must give the theorem's count."),
    "level_note": ("Proof of the model; partial w.r.t. the runtime: correctness of std::sync::Mutex, memory ordering and OS scheduling are "
                   "assumed / sampled by the stress harness, not proved."),
    "technique": "machine-checked proof in Coq (interleaving semantics + inductive invariant, all schedules) + stress correspondence on the real code",
    "design_ref": "DESIGN.md §4 C28",
}
