"""C19 — RDATA equality is an equivalence and RRsets deduplicate by it (src/rr/rdata/*.rs, src/rr/rdata_set.rs)."""

IN, CH, HS = 1, 3, 4
# generator-side formats of the types whose names compare case-insensitively, and a few others
NAME_FORMATS = {
    2: ["N"], 3: ["N"], 4: ["N"], 5: ["N"], 7: ["N"], 8: ["N"], 9: ["N"], 12: ["N"],
    6: ["N", "N", 20], 14: ["N", "N"], 15: [2, "N"],
}
CT = ([(IN, t) for t in NAME_FORMATS] + [(CH, 1), (IN, 33), (CH, 2), (HS, 6), (CH, 15), (0, 14)]
      + [(IN, 1), (IN, 16), (IN, 250), (255, 250), (CH, 33), (HS, 1), (IN, 99), (IN, 10), (IN, 28), (65535, 65535)])


def hx(b):
    return bytes(b).hex() if len(b) else "-"


def fmt_of(c, t):
    if t in NAME_FORMATS:
        return NAME_FORMATS[t]
    if c == CH and t == 1:
        return ["N", 2]
    if c == IN and t == 33:
        return [6, "N"]
    if t == 250:
        return ["N", 6, 2, "B", 2, 2, "B"]
    if t == 16:
        return ["S"]
    if c == IN and t == 1:
        return [4]
    return [3]


def wire(ls):
    out = []
    for l in ls:
        out += [len(l)] + list(l)
    return out + [0]


def make_pool(rng):
    """A small pool of names; most equalities come from re-using a pool name with other letter case."""
    pool = []
    for _ in range(rng.randint(2, 4)):
        nl = rng.choice([0, 1, 1, 2, 3])
        ls = []
        for _ in range(nl):
            n = rng.choice([1, 1, 2, 3, 5, 63])
            ls.append([rng.choice([ord('a'), ord('b'), ord('z'), ord('A'), ord('Z'), ord('@'), ord('['), ord('`'), ord('{'),
                                   ord('-'), 0, 0x20, 0xC0, 0xE1, 0xC1]) for _ in range(n)])
        pool.append(ls)
    return pool


def recase(rng, ls):
    out = []
    for l in ls:
        m = []
        for ch in l:
            r = rng.random()
            if r < 0.35 and (65 <= ch <= 90 or 97 <= ch <= 122):
                ch ^= 0x20
            elif r < 0.38:
                ch ^= 0x20          # also flips non-letters: must make the names different
            m.append(ch)
        out.append(m)
    return out


def gen_rdata(rng, c, t, pool, fixed):
    out = []
    for i, f in enumerate(fmt_of(c, t)):
        if f == "N":
            out += wire(recase(rng, rng.choice(pool)))
        elif f == "S":
            s = rng.choice(fixed)
            out += [len(s)] + s
        elif f == "B":
            s = rng.choice(fixed)
            out += [0, len(s)] + s
        else:
            s = rng.choice(fixed)
            out += (s * 8)[:f] if rng.random() < 0.9 else [rng.randrange(256) for _ in range(f)]
    return out


def variant(rng, rd):
    r = rng.random()
    if r < 0.55:
        return list(rd)
    if r < 0.70:
        return rd + rng.choice([[9], [0], [0xC0, 0], [1, ord('a'), 0]])      # trailing junk
    if r < 0.80 and rd:
        return rd[:rng.randrange(len(rd))]                                   # truncation
    if r < 0.88 and rd:
        i = rng.randrange(len(rd)); x = list(rd); x[i] ^= rng.choice([0x20, 1, 0x80]); return x
    if r < 0.94 and rd:
        i = rng.randrange(len(rd)); x = list(rd); x[i] = rng.choice([0, 63, 64, 0xC0]); return x
    return []


def group(rng):
    """(class, type) and a handful of related RDATA (same pool, case/junk/truncation variants)."""
    c, t = rng.choice(CT) if rng.random() < 0.95 else (rng.randrange(65536), rng.randrange(65536))
    pool = make_pool(rng)
    fixed = [[rng.choice([0, 1, ord('a'), ord('A'), 0xFF]) for _ in range(rng.choice([1, 2, 4]))] for _ in range(2)]
    base = [gen_rdata(rng, c, t, pool, fixed) for _ in range(rng.randint(1, 3))]
    items = []
    for _ in range(rng.randint(3, 7)):
        items.append(variant(rng, rng.choice(base)))
    return c, t, items


B = [[0], [1, 0x61, 0], [1, 0x41, 0], [1, 0x62, 0], [1, 0x61, 1, 0x61, 0], [1, 0x61, 1, 0x41, 0]]
JUNK = [[], [9], [0], [0xC0, 0]]


def exhaustive(quick):
    """All ordered pairs over small hand-built families: names with case variants, trailing junk,
    a missing root label; the same behind an MX preference / before a CH address / as MINFO and SOA pairs."""
    names = [b + j for b in B for j in JUNK] + [b[:-1] for b in B]
    fams = {
        (IN, 2): names,
        (IN, 12): names[:12],
        (IN, 15): [p + n for p in ([0, 1], [0, 2]) for n in names] + [[], [0], [0, 1]],
        (IN, 33): [p + n for p in ([0, 1, 0, 2, 0, 3], [0, 1, 0, 2, 0, 4]) for n in names[:16]] + [[0] * 6, [0] * 5],
        (CH, 1): [n + a for n in B + [b[:-1] for b in B[:3]] for a in ([0, 1], [0, 2], [0], [0, 1, 2])],
        (IN, 14): [x + y + j for x in B[:4] for y in B[:4] for j in ([], [9])] + [x for x in B[:4]],
        (IN, 6): [x + y + [0] * k for x in B[:3] for y in B[:3] for k in (19, 20, 21)],
        (IN, 1): [[1, 0x61, 0, 0], [1, 0x41, 0, 0], [1, 0x61, 0], []],
        (IN, 250): [n + [0] * 6 + [0, 0, 0, 0, 0, 0, 0, 0, 0, 0] for n in B[:3]],
    }
    for (c, t), items in fams.items():
        if quick and len(items) > 40:
            items = items[:40]
        for a in items:
            for b in items:
                yield f"e {c} {t} {hx(a)} {hx(b)}"


def long_cases(rng, quick):
    """RDATA of 255..65535 octets (the u16 length prefix of RdataSetOwned needs its high octet), names at the
    255-octet limit and one octet over it (invalid: must fall back to octet comparison), in pairs and in sets."""
    def nm(last, up):
        ls = [[ord(ch)] * n for ch, n in (("a", 63), ("b", 63), ("c", 63), ("d", last))]
        if up:
            ls = [[x ^ 0x20 for x in l] for l in ls]
        return wire(ls)
    mx, MX_, tl, TL = nm(61, False), nm(61, True), nm(62, False), nm(62, True)      # 255 / 256 octets
    z20 = [0] * 20
    fams = {
        (IN, 2): [mx, MX_, tl, TL, mx + [0]],
        (IN, 15): [[0, 1] + mx, [0, 1] + MX_, [0, 2] + mx, [0, 1] + tl, [0, 1] + TL],
        (IN, 33): [[0] * 6 + mx, [0] * 6 + MX_, [0] * 5 + [1] + MX_, [0] * 6 + tl, [0] * 6 + TL],
        (CH, 1): [mx + [0, 1], MX_ + [0, 1], MX_ + [0, 2], tl + [0, 1], TL + [0, 1]],
        (IN, 14): [mx + mx, MX_ + mx, mx + MX_, mx + tl, MX_ + tl, mx + TL],
        (IN, 6): [mx + mx + z20, MX_ + MX_ + z20, MX_ + mx + z20[:-1] + [1], mx + tl + z20, MX_ + tl + z20, mx + mx + z20 + [0]],
    }
    for (c, t), items in fams.items():
        for a in items:
            for b in items:
                yield f"e {c} {t} {hx(a)} {hx(b)}"
        yield f"s {c} {t} " + ",".join(hx(x) for x in items + items[::-1])
        yield f"l {c} {t} {hx(items[0])} {hx(items[1])} {hx(items[2])}"
    for _ in range(25 if quick else 500):
        c, t = rng.choice([(IN, 10), (IN, 16), (IN, 99), (IN, 2), (IN, 15), (IN, 6)])
        lens = [rng.choice([255, 256, 257, 300, 511, 512, 513, 1024, 65535 if rng.random() < 0.08 else 700])
                for _ in range(rng.randint(2, 3))]
        items = [[rng.choice([0, 1, 0x61, 0x41, 0xFF]) for _ in range(L)] for L in lens]
        seq = []
        for _ in range(rng.randint(2, 6)):
            x = list(rng.choice(items))
            r = rng.random()
            if r < 0.25:
                x[-1] ^= 1
            elif r < 0.4:
                x[rng.randrange(len(x))] ^= 0x20
            seq.append(x)
        yield f"s {c} {t} " + ",".join(hx(x) for x in seq)
        yield f"e {c} {t} {hx(seq[0])} {hx(seq[-1])}"


def gen(rng, tier):
    quick = tier == "quick"
    # the witness of the repaired defect, both directions, and its MX/SRV analogues
    yield "e 1 2 016100 01610009"
    yield "e 1 2 01610009 016100"
    yield "l 1 2 016100 01610009 01410009"
    yield "s 1 2 01610009,016100,014100"
    yield "s 1 2 016100,01610009,014100"
    yield from exhaustive(quick)
    yield from long_cases(rng, quick)
    n = 6000 if quick else 150000
    for _ in range(n):
        c, t, items = group(rng)
        a, b, d = (rng.choice(items) for _ in range(3))
        yield f"e {c} {t} {hx(a)} {hx(b)}"
        yield f"e {c} {t} {hx(b)} {hx(a)}"
        yield f"l {c} {t} {hx(a)} {hx(b)} {hx(d)}"
        seq = [rng.choice(items) for _ in range(rng.choice([1, 2, 3, 5, 8]))]
        yield f"s {c} {t} " + ",".join(hx(x) for x in seq)
    yield "s 1 1 none"


def nontrivial(case, impl, model, oracle):
    f = case.split()
    if f[0] == "e":
        # equal although the octets differ (case-insensitive match), or unequal
        return (impl == "true" and f[3] != f[4]) or impl == "false"
    if f[0] == "l":
        return "ab=true" in impl or "bc=true" in impl or "ac=true" in impl
    # a set that actually dropped a member
    return impl.startswith("ok") and impl.count(",") < f[3].count(",")


def classify(case, impl, model, oracle):
    f = case.split()
    if f[0] == "e":
        return f"e:{impl}:{'same' if f[3] == f[4] else 'diff'}"
    if f[0] == "l":
        return "l:" + " ".join(impl.split()[:3])
    return "s:" + ("dedup" if impl.startswith("ok") and impl.count(",") < f[3].count(",") else impl.split()[0])


CHECK = {
    "property": "C19",
    "props": "Props/C19.v",
    "theorems": ["c19_spec_refl", "c19_spec_sym", "c19_spec_trans", "c19_dispatch", "c19_name_eq",
                 "c19_char", "c19_total", "c19_laws", "c19_octetwise", "c19_set", "c19_set_meaning", "c19_insert",
                 "c19_sym_refuted_prefix"],
    "allowed_axioms": [],
    "correspondence": {"impl_bin": "impl_c19", "extract": "Extract/ExC19.v", "driver": "run_c19.ml"},
    "gen": gen,
    "nontrivial": nontrivial,
    "classify": classify,
    "exhaustive": {"quick": False, "thorough": False},
    "rule": ("ops e (Rdata::equals a b), l (reflexivity/symmetry/transitivity evaluated on the implementation for a triple), "
             "s (RdataSetOwned::from_iter + iteration order); all ordered pairs over hand-built families for NS, PTR, MX, SRV, CH A, "
             "MINFO, SOA, A, TSIG (names with case variants, trailing junk 09/00/C000, missing root label, differing fixed fields, "
             "19/20/21-octet SOA tails); seeded groups: a pool of 2-4 names (letters, '@[`{' neighbours of the letter ranges, 0x20-flipped "
             "non-letters, 63-octet labels), RDATA built from the pool for 27 (class,type) combinations incl. other-class and unknown "
             "types, variants by re-casing, trailing junk, truncation, single-octet changes; pairs in both orders, triples, and "
             "sequences of 1-8 members for the sets; names at the 255-octet limit and one over it (pairs, triples, sets) for NS, MX, SRV, CH A, "
             "MINFO, SOA and sets/pairs of 255..65535-octet RDATA (both octets of the u16 length prefix); the oracle is the independent characterisation spec_equals / nodup_by; "
             "non-trivial = equal-but-not-identical or unequal pairs, triples with an equal pair, sets that dropped a member; "
             "distinct = distinct case line"),
    "trusted_base": [
        "Coq 8.16.1 kernel (vm_compute only in the Example and the refutation witness)",
        "axioms: none (every theorem: Closed under the global context)",
        "extraction: ExtrOcamlBasic only; OCaml 4.13.1 ocamlopt",
        "correspondence: checks/c19.py generators, harness/src/bin/impl_c19.rs (catch_unwind), ocaml/run_c19.ml, line diff in tools/qv.py",
        "tools/gen/rdata.py re-extracts the equals dispatcher into Gen/RdataTables.v",
        "the hand-written bodies of names_equal/test_n_name_fields/equals_as_* and of RdataSetOwned in Model/RdataM.v, Model/RdataSetM.v "
        "(differentially tested)",
        "the characterisation as transcribed in Spec/RdataEqS.v",
        "not verified: the unsafe slice casts of RdataSet, Vec growth, native-endian u16 (the model is parametric in the byte order)",
    ],
    "assumptions": ["octets are < 256 (wf_bytes); every RDATA is at most 65535 octets (Rdata's invariant)",
                    "the model follows the code WITH the fix: commit to helpers.rs::names_equal"],
}

MANIFEST = {
    "level_text": ("Coq theorems (no axioms): the characterisation of RDATA equality (octet-wise, names of the pre-RFC 3597 name-bearing "
                   "types label-wise case-insensitive when both RDATA are valid) is an equivalence for every class and type; the equals "
                   "dispatcher re-extracted from the source sends exactly those types to name-aware handlers; the model of the repaired "
                   "Rdata::equals equals the characterisation for EVERY class and type and every pair of octet strings (all seven handlers: "
                   "names_equal, equals_as_{soa,minfo,mx,in_srv,ch_a}, bitwise), hence is total (never panics), reflexive, symmetric and "
                   "transitive on the model itself and octet-wise whenever either RDATA is malformed; RdataSetOwned::from_iter is nodup_by "
                   "of that characterisation in insertion order for either byte order, with no hypothesis on equals. The pre-fix code is "
                   "refuted (asymmetric). The differential run (~31k quick cases incl. the three laws evaluated on the implementation) ties "
                   "the model to the crate."),
    "level_note": ("Full statement proved on the model. "
                   "Trusted: Coq kernel, extraction, hand-written model bodies (differentially tested), table extractor."),
    "technique": "machine-checked proof in Coq (equality = characterisation, hence an equivalence; set = nodup) + model/implementation correspondence check",
    "design_ref": "DESIGN.md §4 C19",
}
