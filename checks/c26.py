"""C26 — response rate limiting follows its token-bucket rule over time (src/server/rrl.rs)."""

NS = 10 ** 9
FRAC_MAX = 100_000_000          # cumulative fractional part kept below this (impl_c26.rs: REAL_TIME_MARGIN = 1 s - this - slack)
BIG_SECS = [2 ** 30, 2 ** 31 - 1, 2 ** 31, 2 ** 31 + 1, 2 ** 32 - 1, 2 ** 32, 2 ** 32 + 1, 10 ** 9,
            1431655766, 1431655765, 2 ** 33, 3 * 2 ** 32 + 5, 2 ** 40, 31_536_000, 10 * 31_536_000]
KINDS = ["na", "nb", "nc", "nA", "da", "wq", "wzz", "yq", "zq", "cq", "xq", "xab", "rq", "f", "va", "vb", "u"]


def gen_params(rng):
    r = rng.random()
    if r < 0.03:   # rejected configurations
        return rng.choice([(0, 1, 1, 1), (1, 0, 1, 1), (1, 1, 0, 1), (1, 1, 1, 0), (2, 1, 1, 2 ** 32 - 1),
                           (1, 65536, 1, 65536), (1, 1, 2 ** 31, 2), (2 ** 32 - 1, 1, 1, 2), (0, 0, 0, 0),
                           (65537, 65537, 65537, 65535)])
    if r < 0.08:   # accepted boundary configurations (limits near u32::MAX: never exhausted)
        return rng.choice([(2 ** 32 - 1, 2 ** 32 - 1, 2 ** 32 - 1, 1), (1, 1, 1, 2 ** 32 - 1), (65535, 65537, 3, 65537),
                           (2 ** 31, 2 ** 31, 2 ** 31, 1), (65536, 65536, 65536, 65535)])
    rates = [rng.choice([1, 1, 2, 3, 4, 5, 7, 10, rng.randint(1, 12)]) for _ in range(3)]
    if rng.random() < 0.5:
        rates = [rates[0]] * 3
    return (*rates, rng.choice([1, 1, 2, 2, 3, 5, rng.randint(1, 8)]))


def gen_gaps(rng, rate, window):
    """Phases: a burst (gap 0 / tiny) long enough to exhaust the bucket, then an idle period."""
    limit = max(1, min(rate * window, 60))
    gaps, cum = [], 0
    n_phase = rng.randint(1, 6)

    def push(g):
        nonlocal cum
        if (cum + g) % NS > FRAC_MAX:            # keep clear of the next second boundary
            g -= (cum + g) % NS - rng.randint(0, FRAC_MAX)
            g = max(g, 0)
            if (cum + g) % NS > FRAC_MAX:
                g = 0
        cum += g
        gaps.append(g)

    huge_used = False
    for ph in range(n_phase):
        # idle period before the phase (the first one precedes the first request)
        r = rng.random()
        if ph == 0 and r < 0.7:
            idle = 0
        elif r < 0.25:
            idle = rng.randint(1, window + 2) * NS                       # whole seconds around the window
        elif r < 0.45:
            idle = rng.randint(0, (window + 2) * NS)                     # fractional
        elif r < 0.55:
            idle = rng.choice([NS - 1, NS, NS + 1, 2 * NS - 1, 999_999_999, 1, 500_000_000])
        elif r < 0.8:
            idle = rng.choice(BIG_SECS) * NS + rng.choice([0, 0, rng.randint(0, NS - 1)])
        elif r < 0.84 and not huge_used:
            idle = rng.choice([2 ** 61, 2 ** 53 + 1, 2 ** 48]) * NS
            huge_used = True
        else:
            idle = rng.randint(0, 3) * NS + rng.randint(0, NS - 1)
        push(idle)
        if ph == 0:
            cum = 0      # the bucket's seconds are counted from the FIRST request (entry creation)
        burst = rng.choice([limit + 2, limit + 1, limit, rng.randint(1, limit + 4), rng.randint(1, 5)])
        for i in range(burst - 1):
            r = rng.random()
            push(0 if r < 0.7 else rng.randint(0, 300_000_000) if r < 0.9 else rng.choice([NS, 2 * NS, rng.randint(0, 2 * NS)]))
    return gaps[:120]


def gen(rng, tier):
    n = 15000 if tier == "quick" else 250000
    # the DESIGN witness and the truncation witness first
    yield "3 3 3 2 1 1 xq 1 0,0,0,0,0,0,0,1431655766000000000,0,0,0,0,0,0,0,0"
    yield "4 4 4 1 0 1 na 0 0,0,0,0,0,1073741824000000000,0,0,0,0,0"
    yield "3 3 3 2 1 1 na 0 0,0,0,0,0,0,0,4294967296000000000,0,0,0,0,0,0,0,0"
    for _ in range(n):
        ne, nx, er, win = gen_params(rng)
        slip = rng.choice([0, 0, 1, 1, 1, 2, 2, 3, 10])
        size = rng.choice([1, 1, 2, 7, 65537, 65537])
        if rng.random() < 0.01:
            size = 0
        kind = rng.choice(KINDS)
        rate = {"n": ne, "d": ne, "w": ne, "y": ne, "z": ne, "c": ne, "x": nx}.get(kind[0], er)
        gaps = gen_gaps(rng, max(rate, 1), max(win, 1))
        if size > 1000:
            # the aging hook walks the whole table: keep the number of idle periods (and with it the real time) small
            seen = 0
            for i, g in enumerate(gaps):
                if g:
                    seen += 1
                    if seen > 25:
                        gaps = gaps[:i]
                        break
        yield f"{ne} {nx} {er} {win} {slip} {size} {kind} {rng.choice([0, 1])} {','.join(map(str, gaps))}"


MIX_KINDS = ["na", "nA", "nb", "da", "wq", "wzz", "xq", "xab", "rq", "f", "va", "u"]
EXEMPT = ["oa", "m"]


def gen_mixed(rng, tier):
    """Several streams through ONE slot (size 1: every other stream evicts), or one stream in a
    table of any size, with exempt traffic (TCP, NOTIFY, suppressed responses) in between.
    Gaps are whole seconds, so every pairwise distance is (evictions restart the bucket's clock)."""
    n = 5000 if tier == "quick" else 60000
    for _ in range(n):
        ne, nx, er, win = gen_params(rng)
        if ne * win > 40 or ne == 0 or nx == 0 or er == 0 or win == 0:
            ne = nx = er = rng.randint(1, 4); win = rng.randint(1, 3)
        slip = rng.choice([0, 1, 1, 2])
        multi = rng.random() < 0.7
        size = 1 if multi else rng.choice([1, 7, 65537])
        streams = rng.sample(MIX_KINDS, rng.randint(2, 3)) if multi else [rng.choice(MIX_KINDS)]
        reqs = []
        cur = rng.choice(streams)
        for i in range(rng.randint(4, 40)):
            r = rng.random()
            if r < 0.15:
                k, tr = rng.choice(EXEMPT + [cur]), rng.choice(["u", "t", "t"])
                if k == cur and tr == "u":
                    tr = "t"
            else:
                if r < 0.35:
                    cur = rng.choice(streams)
                k, tr = cur, "u"
            g = rng.choice([0, 0, 0, 0, 0, 1, 1, 2, win, win + 1, rng.choice(BIG_SECS)]) * NS if i else 0
            reqs.append(f"{k}:{tr}:{g}")
        yield f"{ne} {nx} {er} {win} {slip} {size} {rng.choice([0, 1])} {','.join(reqs)}"


def nontrivial_mixed(case, impl, model, oracle):
    # something was limited and at least two different kinds of request occur
    f = case.split()
    return impl.startswith("ok") and any(ch in "TDL" for ch in letters(impl)) and len({r.split(":")[0] for r in f[7].split(",")}) >= 2


def classify_mixed(case, impl, model, oracle):
    if not impl.startswith("ok"):
        return impl.split("(")[0]
    f = case.split()
    return ("one-slot" if f[5] == "1" else "many-slots") + ":" + ("limited" if any(ch in "TDL" for ch in letters(impl)) else "never-limited")


def letters(line):
    return line[3:] if line.startswith("ok ") else ""


def nontrivial(case, impl, model, oracle):
    s = letters(impl)
    lim = [i for i, ch in enumerate(s) if ch in "TDL"]
    # the bucket was exhausted and later refilled: a limited response followed by a sent one
    return bool(lim) and "S" in s[lim[0]:]


def classify(case, impl, model, oracle):
    if not impl.startswith("ok"):
        return impl.split("(")[0]
    s = letters(impl)
    slip = case.split()[4]
    lim = [i for i, ch in enumerate(s) if ch in "TDL"]
    return f"slip{min(int(slip), 2)}:" + ("never-limited" if not lim else "limited+refilled" if "S" in s[lim[0]:] else "limited")


CHECK = {
    "property": "C26",
    "props": "Props/C26.v",
    "theorems": ["c26_params_wf", "c26_refines", "c26_refines_mixed", "c26_step", "c26_new_wf", "c26_count_bound", "c26_outcomes",
                 "c26_slip0", "c26_slip1", "c26_slip_shape", "c26_refines_refuted_prefix"],
    "allowed_axioms": [],
    "suites": [{
        "name": "rrl",
        "impl_bin": "impl_c26", "extract": "Extract/ExC26.v", "driver": "run_c26.ml",
        "gen": gen, "nontrivial": nontrivial, "classify": classify, "release_too": True,
        "exhaustive": {"quick": False, "thorough": False},
        "rule": ("seeded single-stream histories through Server::handle_message on a one-zone catalog (one Server per case): [query kinds incl. wildcard ANY / no-data / CNAME answers and BADVERS] "
                 "rates 1..12 / windows 1..8 mostly, boundary and rejected configurations, slip 0/1/2/3/10, table sizes 1/2/7/65537, "
                 "streams NOERROR (answer, NODATA, wildcard), NXDOMAIN, REFUSED, FORMERR, with and without EDNS; each history is "
                 "1-6 phases of (idle period, burst): idle periods 0, sub-second, whole seconds around the window, 1 s +- 1 ns, "
                 "2^30..2^40 s incl. 2^31+-1, 2^32+-1, 1431655766, 10^9 s, once 2^48..2^61 s, applied with Server::verif_rrl_age; "
                 "non-trivial = the stream was limited and later sent again (a refill was observed); distinct = distinct case line"),
    }, {
        "name": "rrlmix",
        "impl_bin": "impl_c26", "extract": "Extract/ExC26.v", "driver": "run_c26.ml",
        "gen": gen_mixed, "nontrivial": nontrivial_mixed, "classify": classify_mixed,
        "exhaustive": {"quick": False, "thorough": False},
        "rule": ("seeded mixed histories from one source: 2-3 streams sharing the single slot of a size-1 table (every change of "
                 "stream evicts and restarts the bucket), or one stream in a table of size 1/7/65537, interleaved with exempt traffic "
                 "(TCP, NOTIFY opcode, suppressed responses); whole-second idle periods 0/1/2/window/window+1/2^30..2^40 s; the oracle "
                 "is the specification's bucket per stream with eviction; non-trivial = something was limited and >= 2 kinds of request"),
    }],
    "trusted_base": [
        "Coq 8.16.1 kernel (vm_compute only in the closed witnesses/examples)",
        "axioms: none (every theorem: Closed under the global context)",
        "extraction: ExtrOcamlBasic only; OCaml 4.13.1 ocamlopt",
        "correspondence: checks/c26.py generator, harness/src/bin/impl_c26.rs + rrl_common (tiny zone, query construction, "
        "response classification, catch_unwind), ocaml/run_c26.ml (incl. the kind -> rcode/question/source-of-synthesis glue "
        "that stands in for the unmodelled query.rs), line diff in tools/qv.py",
        "hook Server::verif_rrl_age (cfg quandary_verif): shifting last_refill back by d is taken to be equivalent to d of idle time",
        "tools/gen/rrl.py re-extracts the RrlParams defaults, prefix bounds, NOERROR/NXDOMAIN/QUERY codes",
        "time: real time elapsed inside one case (< 800 ms, enforced by the runner) is absorbed by keeping every cumulative "
        "fractional second below 0.1 s; the random slip decision for slip >= 2 is compared only as 'limited'",
        "not modelled: Mutex poisoning, allocation failure, the octets of the response (only counts/flags of clear_rrs/set_tc)",
    ],
    "assumptions": ["wf_params: established by RrlParams::new (c26_params_wf)",
                    "Instant::duration_since saturates at zero (Rust >= 1.60) and Instant differences fit a Duration"],
}

MANIFEST = {
    "level_text": ("Coq theorems (no axioms): for every hash function, every configuration RrlParams::new accepts, every reachable "
                   "table and every single-stream history (arbitrary times/gaps and random draws) the model of process_response "
                   "never panics, keeps every count <= rate x window <= u32::MAX, and takes exactly the send/limit decisions of an "
                   "unbounded token bucket (capacity rate x window, rate per whole second, fraction kept); slip 0 => dropped, "
                   "slip 1 => slipped, slipped => TC set and only OPT/TSIG counted. Model tied to the code through "
                   "Server::handle_message on ~20k (quick) seeded single-stream and mixed histories with idle periods up to 2^61 s."),
    "level_note": ("Trusted: Coq kernel, extraction, the hand-written model's correspondence (differentially tested), the aging hook. "
                   "The pre-fix `rate * secs as u32` arithmetic is refuted by c26_refines_refuted_prefix; the model follows the fix: commit."),
    "technique": "machine-checked proof in Coq (refinement to a token-bucket specification, all histories) + model/implementation correspondence check",
    "design_ref": "DESIGN.md §4 C26",
}
