"""C04 — responses respect the transport size limit and truncate correctly."""
import os, subprocess
import qv, qgen, srvgen
from dnsgen import u16, u32, enc_name, hx
from qgen import wirehex

DIRTY_QTYPES = [1, 28, 2, 15, 33, 16, 99]
LONG = [b"l" * 63, b"m" * 50, b"n" * 40, b"o" * 30, b"p" * 20, b"q" * 10]


def request(rng, qname, qtype, qclass, their):
    flags = rng.choice([0x0000, 0x0100])
    ar = srvgen.rr(enc_name([]), 41, their, rng.choice([0, 0, 0x8000]), []) if their is not None else []
    return u16(rng.randrange(65536)) + u16(flags) + u16(1) + u16(0) + u16(0) + u16(1 if their is not None else 0) + \
        enc_name(qname) + u16(qtype) + u16(qclass) + ar


def pick_limits(rng):
    """(server edns size, requestor's size or None, limit in effect over UDP)"""
    server = rng.choice([512, 1232, 1232, 4096, rng.randint(512, 2000), rng.randint(512, 65535)])
    r = rng.random()
    if r < 0.3:
        return server, None, 512
    their = rng.choice([0, 511, 512, 513, 700, 1232, 4096, 65535, rng.randint(512, 1500), rng.randint(0, 5000)])
    return server, their, max(512, min(their, server))


class Z:
    """a zone under construction with lower-case names (sizes are computed from it)"""
    def __init__(self, apex, cls=1):
        self.apex, self.cls, self.recs = apex, cls, []
        self.add([], 6, 3600, enc_name([b"ns"] + apex) + enc_name([b"hm"] + apex) + u32(1) + u32(2) + u32(3) + u32(4) + u32(60))

    def add(self, rel, ty, ttl, rd):
        self.recs.append((rel + self.apex, ty, ttl, list(rd)))

    def render(self):
        parts = [f"{wirehex(o)}/{ty}/{ttl}/{hx(rd)}" for (o, ty, ttl, rd) in self.recs]
        return f"{self.cls},{wirehex(self.apex)},L," + "+".join(parts)


def a_rd(i):
    return [10, 0, (i >> 8) & 0xFF, i & 0xFF]


def aaaa_rd(i):
    return [0x20, 0x01, 0x0d, 0xb8] + [0] * 10 + [(i >> 8) & 0xFF, i & 0xFF]


def scenarios(rng, limit, opt):
    """yield (zone, qname, qtype): each tuned so that the complete response is close to `limit` octets"""
    apex = rng.choice([[b"a"], [b"z" * 30, b"a"], []])
    delta = rng.randint(-40, 40)
    # the model's Writer is a list-based buffer: keep complete responses below ~3500 octets
    target = limit + delta if limit <= 3400 else rng.choice([512, 1232, rng.randint(300, 3400)]) + delta
    base = 12 + len(enc_name([b"big"] + apex)) + 4 + (11 if opt else 0)
    kind = rng.random()
    z = Z(apex)
    if kind < 0.22:
        # one big TXT RRset: the size is exact (owner = pointer to the question name)
        payload = max(13, target - base)
        rrs = []
        while payload >= 12 + 2:
            body = min(payload - 12, rng.choice([255, 200, 120, 60]) + 1)
            body = max(body, 2)
            rrs.append([body - 1] + [97 + (len(rrs) % 26)] * (body - 1))
            payload -= 12 + body
        for rd in rrs:
            z.add([b"big"], 16, 300, rd)
        yield z, [b"big"] + apex, 16
    elif kind < 0.4:
        # many A records (16 octets each) plus AAAA for ANY
        n = max(1, (target - base) // 16 + rng.choice([-1, 0, 0, 1]))
        for i in range(n):
            z.add([b"big"], 1, 60, a_rd(i))
        if rng.random() < 0.3:
            z.add([b"big"], 28, 60, aaaa_rd(1))
        yield z, [b"big"] + apex, rng.choice([1, 1, 255])
    elif kind < 0.6:
        # MX RRset whose targets have addresses: the answer fits, the additional section lands around the limit
        k = rng.randint(2, 8)
        names = [[b"mx%d" % i] for i in range(k)]
        ans = base + sum(12 + 2 + len(n[0]) + 1 + 2 for n in names)
        per = 16 + (28 if rng.random() < 0.5 else 0)
        for i, nm in enumerate(names):
            z.add([b"big"], 15, 300, u16(i) + enc_name(nm + apex))
        room = max(0, target - ans)
        cnt = 0
        for i, nm in enumerate(names):
            na = max(1, room // (k * 16) + rng.choice([0, 0, 1]))
            for j in range(na):
                z.add(nm, 1, 60, a_rd(cnt)); cnt += 1
            if per > 16:
                z.add(nm, 28, 60, aaaa_rd(i))
        yield z, [b"big"] + apex, 15
    elif kind < 0.8:
        # a referral: name servers inside the delegated zone (mandatory glue) and elsewhere (optional)
        # ... and, in a third of the cases, the delegation name ITSELF as a name server (`d NS d`, glue at the cut)
        at_cut = rng.random() < 0.35
        k = rng.randint(0 if at_cut else 1, 6)
        inside = [[b"ns%d" % i, b"d"] for i in range(k)]
        if at_cut:
            inside.insert(rng.randrange(len(inside) + 1), [b"d"])
        outside = [[b"ons%d" % i] for i in range(rng.randint(0, 3))]
        used = 12 + len(enc_name([b"x", b"d"] + apex)) + 4 + (11 if opt else 0)
        for nm in inside + outside:
            z.add([b"d"], 2, 600, enc_name(nm + apex))
            used += 12 + 2 if nm == [b"d"] else 12 + len(nm[0]) + 1 + 2 + (2 if nm in outside else 0)
        room = max(0, target - used)
        na = max(1, room // (16 * max(1, len(inside) + len(outside))))
        cnt = 0
        order = inside + outside
        rng.shuffle(order)
        for nm in order:
            for j in range(na + rng.choice([0, 0, 1])):
                z.add(nm, 1, 60, a_rd(cnt)); cnt += 1
            if rng.random() < 0.4:
                z.add(nm, 28, 60, aaaa_rd(cnt))
        yield z, [rng.choice([b"x", b"www"]), b"d"] + apex, rng.choice([1, 2, 255])
    elif kind < 0.93:
        # CNAME chains with long labels: 1-10 links, ending at a host / nowhere / in a loop
        n = rng.choice([2, 4, 6, 8, 8, 9, 10])
        lab = LONG[rng.randrange(len(LONG))]
        lablen = max(1, min(63, (target - base) // max(1, n) - 16 + rng.randint(-3, 3)))
        names = [[bytes([97 + i]) + lab[:max(0, lablen - 1)]] for i in range(n)]
        end = rng.choice(["host", "host", "nx", "loop", "out"])
        for i in range(n):
            if i + 1 < n:
                tgt = names[i + 1] + apex
            elif end == "host":
                tgt = [b"w"] + apex
            elif end == "nx":
                tgt = [b"nx"] + apex
            elif end == "loop":
                tgt = names[0] + apex
            else:
                tgt = [b"host", b"elsewhere"]
            z.add(names[i], 5, 300, enc_name(tgt))
        z.add([b"w"], 1, 60, a_rd(7))
        yield z, names[0] + apex, 1
    else:
        # a negative answer whose SOA (long MNAME/RNAME) only just fits or not
        qn = [b"q" * rng.randint(1, 63), b"r" * rng.randint(1, 63)] + apex
        used = 12 + len(enc_name(qn)) + 4 + (11 if opt else 0) + 12 + 20
        spare = max(4, target - used)
        m = min(200, spare // 2)
        mn = [b"s" * min(63, max(1, m // 4))] * 3
        rn = [b"t" * min(63, max(1, (spare - m) // 4))] * 3
        z.recs = []
        z.add([], 6, 3600, enc_name(mn) + enc_name(rn) + u32(1) + u32(2) + u32(3) + u32(4) + u32(60))
        yield z, qn, 1


def gen(rng, tier):
    for c in gen0(rng, tier):
        _CASES.append(c)
        yield c


def gen0(rng, tier, n=None):
    n = n or (1600 if tier == "quick" else 60000)
    for _ in range(n):
        server, their, limit = pick_limits(rng)
        for z, qn, qt in scenarios(rng, limit, their is not None):
            req = request(rng, qgen.flip(rng, qn, 0.05), qt, z.cls, their)
            yield f"{server} {their if their is not None else '-'} {z.render()} {hx(req)}"
    # the structured catalogs of C05 (nested zones, wildcards, ...) with random size negotiation
    m = 12 if tier == "quick" else 300
    for _ in range(m):
        zones = qgen.gen_catalog(rng)
        cat = ";".join(zz.render() for zz in zones)
        names = qgen.query_names(rng, zones)
        owners = [list(o) for zz in zones for o in zz.owners + [zz.apex]]
        for nm in owners + rng.sample(names, min(len(names), 30)):
            server, their, limit = pick_limits(rng)
            cl = rng.choice([zz.cls for zz in zones])
            # catalogs with RDATA that is not valid for its type: only questions whose answer does not copy such RDATA
            # into the response (assumption of C02/C05: zone loading validates RDATA)
            qt = rng.choice(DIRTY_QTYPES if any(zz.dirty for zz in zones) else qgen.QTYPES)
            yield f"{server} {their if their is not None else '-'} {cat} {hx(request(rng, qgen.flip(rng, nm, 0.1), qt, cl, their))}"


# ---------------------------------------------------------------- oracle plumbing (extracted specification on implementation output)

class Oracle:
    """verdicts of the extracted specification (`run --oracle04` / `--oracle02`) on the implementation's
    responses; computed in one sharded batch on first use"""
    def __init__(self, runner_dir, flag, to_lines):
        self.runner = os.path.join(qv.BUILD, "ocaml", runner_dir, "run")
        self.flag, self.to_lines = flag, to_lines
        self.pending, self.cache, self.done = [], {}, False

    def note(self, case, impl):
        self.pending.append((case, impl))

    def verdicts(self, case, impl):
        key = (case, impl)
        if key in self.cache:
            return self.cache[key]
        lines = self.to_lines(case, impl)
        if not os.path.exists(self.runner):
            return ["unavailable"] * max(1, len(lines))
        out = qv.run_sharded(self.runner, lines, 600, args=[self.flag]) if lines else []
        self.cache[key] = out
        return out

    def prime(self, pairs):
        """batch evaluation: pairs = [(case, impl)]"""
        if not os.path.exists(self.runner):
            return
        allines, index = [], []
        for case, impl in pairs:
            ls = self.to_lines(case, impl)
            index.append((case, impl, len(ls)))
            allines += ls
        out = qv.run_sharded(self.runner, allines, 900, args=[self.flag]) if allines else []
        k = 0
        for case, impl, nl in index:
            self.cache[(case, impl)] = out[k:k + nl]
            k += nl


def split_pair(line):
    if " ## " not in line:
        return None, None
    u, t = line.split(" ## ", 1)
    return u[2:] if u.startswith("U ") else u, t[2:] if t.startswith("T ") else t


ORACLE = Oracle("c04_pair", "--oracle04", lambda case, impl: [case + " @@ " + impl])
_CASES = []
_primed = [False]


def _prime():
    """one batch: the implementation's responses for all generated cases, then the extracted oracle on them"""
    _primed[0] = True
    exe = os.path.join(qv.BUILD, "target", "debug", "impl_c04")
    if not _CASES or not os.path.exists(exe):
        return
    impl = qv.run_sharded(exe, _CASES, 600)
    ORACLE.prime(list(zip(_CASES, impl)))


def oracle_ok(case, impl, oracle):
    if impl in srvgen.BAD or " ## " not in impl:
        return False
    if not _primed[0]:
        _prime()
    v = ORACLE.verdicts(case, impl)
    return bool(v) and v[0] == "ok"


def finding_matches(kf, case, impl, model, oracle):
    """C04-1: over TCP the answering logic ends in SERVFAIL (CNAME chain too long / loop / unusable zone data)
    only after having written more than the UDP limit allows; over UDP the same request runs into the
    limit first and is answered with TC. Everything else about the pair must be as the model says."""
    if kf.get("id") != "C04-1" or " ## " not in impl:
        return False
    u, t = split_pair(impl)
    if not (u.startswith("resp") and t.startswith("resp")):
        return False
    du, dt = srvgen.parse_resp(u), srvgen.parse_resp(t)
    v = ORACLE.verdicts(case, impl)
    return (v and v[0] == "bad:TCP-response-fits-but-UDP-response-differs" and dt.get("rc") == "2" and dt.get("an") == "0"
            and dt.get("ns") == "0" and du.get("tc") == "1" and du.get("an") == "0" and du.get("ns") == "0"
            and corr_eq(case, impl, model))


def corr_eq(case, impl, model):
    """octet-exact: both responses of the implementation equal the model's"""
    iu, it = split_pair(impl)
    mu, mt = split_pair(model)
    if iu is None or mu is None:
        return impl == model
    def raw(x):
        return srvgen.parse_resp(x).get("raw") if x.startswith("resp") else x
    return raw(iu) == raw(mu) and raw(it) == raw(mt)


def classify(case, impl, model, oracle):
    u, t = split_pair(impl)
    if u is None or not u.startswith("resp") or not t.startswith("resp"):
        return impl[:20]
    du, dt = srvgen.parse_resp(u), srvgen.parse_resp(t)
    f = case.split()
    their = None if f[1] == "-" else int(f[1])
    limit = 512 if their is None else max(512, min(their, int(f[0])))
    lt = int(dt["len"])
    near = abs(lt - limit) <= 40
    if du.get("tc") == "1":
        k = "TC"
    elif du.get("raw") == dt.get("raw"):
        k = "identical"
    else:
        k = "optional-omitted"
    return f"{k} tcp-{'fits' if lt <= limit else 'exceeds'} near={int(near)} rc={dt.get('rc')}"


def nontrivial(case, impl, model, oracle):
    c = classify(case, impl, model, oracle)
    return c.startswith("TC") or c.startswith("optional-omitted") or "near=1" in c


RULE = ("each request (plain QUERY, RD random, with or without an OPT advertising 0/511/512/513/700/1232/4096/65535/random octets) is sent over "
        "UDP and over TCP to the real server (EDNS size 512/1232/4096/random); zones are built so that the complete response is within +-40 "
        "octets of the limit in effect (512 or the negotiated size): one TXT RRset of exactly tuned size, many A records, MX with target "
        "addresses straddling the limit in the additional section, referrals with 1-6 name servers inside the delegated zone (mandatory glue; "
        "in a third of them the delegation name ITSELF is a name server, `d NS d`, with A/AAAA glue at the cut) "
        "and 0-3 elsewhere (optional), CNAME chains of 2-10 links with labels sized to cross the limit (ending at a host, nowhere, outside, in "
        "a loop), NXDOMAIN with a SOA of tuned size; plus the nested catalogs of C05 under random negotiation; both responses are compared "
        "OCTET FOR OCTET with the model (query model over the Writer model), and the extracted pair relation is the oracle; non-trivial = TC, "
        "optional records omitted, or complete response within 40 octets of the limit")

CHECK = {
    "property": "C04",
    "props": "Props/C04.v",
    "theorems": ["c04_tc_on_the_octets", "c04_clause_iv", "c04_clause_iv_two_runs", "c04_endings_on_the_octets", "c04_only_optional_omitted_partial", "c04_glue_complete_partial", "c04_optional_only_partial", "c04_response_within_limit", "c04_tc_shape", "c04_limit_value", "c04_udp_response_size", "c04_udp_identical_when_fits_partial", "c04_writer_limit_monotone", "c04_oracle_tc_shape",
                 "c04_oracle_sizes_and_identity", "c04_signed_oracle_conservative", "c04_signed_oracle_sizes_and_identity",
                 "c04_signed_oracle_tc_shape", "c04_signed_oracle_omission", "c04_signed_oracle_tsig_set_aside"],
    "allowed_axioms": [],
    "suites": [{
        "name": "pair", "impl_bin": "impl_c04", "extract": "Extract/ExC04.v", "driver": "run_c04.ml",
        "gen": gen, "nontrivial": nontrivial, "classify": classify, "oracle_ok": oracle_ok, "corr_eq": corr_eq,
        "finding_matches": finding_matches,
        "exhaustive": {"quick": False, "thorough": False}, "rule": RULE, "n_samples": 3,
        "timeout": {"quick": 400, "thorough": 3000},
    }],
    "trusted_base": [
        "Coq 8.16.1 kernel (vm_compute only in the Example); axioms: none",
        "octet-level model = Model/Query.v (C05) instantiated with Model/MsgWriter.v (C12) by Model/QueryW.v; hand-written, tied to the "
        "code by comparing BOTH responses of the real server OCTET FOR OCTET with the model's on every case",
        "the request side (is this a clean QUERY for a Loaded zone, which EDNS size, which negotiated limit) is Model/Server.v "
        "(C01/C03/C07/C08/C09); its composition with the Writer side is executed by the runner, not a theorem",
        "oracle: Spec/RespS.v pair_check over the RFC 1035 decoder of Spec/MsgWriterS.v, extracted (ExtrOcamlBasic only), run on the "
        "implementation's responses; the requestor's payload size is taken from the generator's case line",
        "suite signed is ORACLE-DECIDED: no model of TSIG-bearing response octets exists (the Writer model has no signing mode, HMAC is a "
        "parameter of the server model); Spec/RespSigS.v pair_check_signed (= pair_check on responses without TSIG: "
        "c04_signed_oracle_conservative) extracted by Extract/ExSig.v, ocaml/run_sig.ml kept as a co-process by checks/siggen.py; "
        "harness/src/bin/impl_sig.rs signs the request with the crate's own Writer (a request the server rejects would show as NOTAUTH "
        "responses in the outcome histogram, not as a violation) and relies on the wall clock not ticking between the two transports "
        "(checked, retried)",
        "harness/src/bin/impl_c04.rs, ocaml/run_c04.ml (the model uses a 4096-octet buffer when the uncompressed response is below 4000 "
        "octets, 65535 otherwise; a wrong choice would show as an octet difference), checks/c04.py generators",
    ],
    "assumptions": ["suite pair: plain QUERYs with one question and at most one OPT (version 0, no TSIG); response buffer of 65535 octets. "
                    "Suite signed: QUERYs with one question, at most one OPT, and a TSIG RR that verifies under the one key the server "
                    "holds (hmac-sha1 / hmac-sha256, time within the fudge); UDP response buffer = the server's EDNS size, TCP 65535, as "
                    "the I/O providers pass; both transports served within one second of the clock"],
}

# ---- second suite: CORRECTLY SIGNED requests (checks/siggen.py). Oracle-decided: no model of TSIG-bearing octets exists.
import siggen
CHECK["suites"].append(siggen.suite(siggen.oracle_c04, siggen.findings_c04, siggen.classify_c04))

MANIFEST = {
    "level_text": ("Coq theorems (no axioms). Server model: the limit of every response handle_message yields is 65535 over TCP, 512 "
                   "over UDP, or over UDP the CLASS of a processed OPT clamped to [512, server size] (through the whole pre-scan). "
                   "Octet-level model of query answering (the C05 query model driving the C12 Writer model, prepared as handle_message "
                   "prepares a clean QUERY), for every zone, question, buffer and size: the finished response is no longer than the "
                   "limit in effect, and the two sides compose for UDP; the limit never changes while answering; TC is set only in the "
                   "Truncation arm, only over UDP, after clear_rrs (no answer/authority records, only the reserved OPT/TSIG counted), "
                   "never over TCP — and (third wave, c04_tc_on_the_octets, composed with C12's message-level round trip and the key lemma "
                   "that query.rs obeys the Writer's hint contract) the same on the FINISHED OCTETS for every zone built by adds: an "
                   "independent RFC 1035 decoder reads TC set only over UDP, and then empty answer and authority sections and nothing "
                   "but the OPT in the additional section; the glue half of clause (iv) in unary form (c04_glue_complete_partial): a direct "
                   "referral whose answering logic succeeded carries on the finished octets the NS RRset and, first in the additional "
                   "section, EVERY address record the zone holds for the name servers at/below the delegated zone, followed by an "
                   "order-preserving sub-selection of the other name servers' addresses and then only the OPT, whatever the "
                   "transport and limit; likewise for direct positive answers (c04_optional_only_partial: answer RRset, empty "
                   "authority, a sub-selection of the additional-section candidates) — so any two successful responses to the "
                   "same question differ only in which optional candidates are present (clause (iv) per response against "
                   "canonical lists, for direct referrals and direct answers); and in general (c04_only_optional_omitted_partial, EVERY "
                   "question incl. CNAME chains, ANY and negative answers): whenever the answering logic succeeds on the octet-level "
                   "Writer, the decoded answer and authority sections are those of the idealised never-truncating run of the same "
                   "logic — C05's object, equal to the RFC resolution algorithm `resolve` — and the decoded additional section is the "
                   "idealised one minus some records of its optional tail (then only the OPT), and no record of that tail is in-bailiwick "
                   "(owner at/below the owner of an authority record), so referral glue is never omitted: this also closes C05's gap between "
                   "the octet-level answer and `resolve`; c04_endings_on_the_octets + c04_clause_iv turn the premise into the decoded "
                   "bits: a response with TC clear and RCODE other than SERVFAIL is exactly one whose answering logic succeeded, "
                   "hence it differs from the complete answer only by omitted additional records; c04_clause_iv_two_runs states it as the comparison of two runs: the same question over UDP and over TCP (any buffers, ids, EDNS states, limits), TCP never has TC, and if the UDP response is TC-clear and neither is SERVFAIL both differ from ONE complete answer only by omitted not-in-bailiwick additional records (equal answer and authority sections, all glue in both); and — clause (iii) for answers that end Ok — if the finished TCP message fits the UDP space the UDP "
                   "response is octet-identical (Writer limit-monotonicity + a relational lifting over the query model). PARTIAL: "
                   "clause (iii) for answers ending in SERVFAIL after partial writes (false there: known finding C04-1) "
                   "is not a theorem; it, and all clauses on the real octets, are decided on every run by the extracted relation pair_check "
                   "on the real server's two responses to ~2.4k requests tuned to within +-40 octets of 512 and of random negotiated "
                   "sizes; both responses are also compared octet for octet with the model. RESPONSES THAT CARRY A TSIG (requests whose "
                   "signature verified) are outside every model: suite `signed` sends ~1.6k correctly signed requests (crate's own "
                   "Writer, one installed key, key names 3..255 octets sharing labels with the zone's RDATA names / apex / QNAME or "
                   "unrelated, QNAMEs up to 255 octets, the same size tuning incl. question + TSIG RR around the limit) over both "
                   "transports and decides all clauses by the extracted pair_check_signed — pair_check with the trailing TSIG records "
                   "set aside in the omission clause (equal modulo RDATA, never counted as omitted), proved equal to pair_check on "
                   "responses without TSIG (c04_signed_oracle_conservative; meaning of its verdict: c04_signed_oracle_*). Known finding "
                   "C04-2 (conservative TSIG reservation) was found by it."),
    "level_note": ("Trusted: Coq kernel, extraction, fidelity of the hand-written models (octet-exact differential test on every run), "
                   "C12's Writer invariants (reused), the decoder used by the oracle; for signed requests nothing but the oracle, the "
                   "harness runner and the wall clock. Known findings C04-1, C04-2 (see known_findings.jsonl)."),
    "technique": "machine-checked proof in Coq (invariants and a limit-monotonicity simulation lifted through the query model over the Writer model; limit value through the server model) + octet-exact correspondence on both transports + extracted pair-relation oracle (for TSIG-signed requests: oracle only)",
    "design_ref": "DESIGN.md section 4 (C04)",
}


# pkg-tsigw: theorems about the TSIG-bearing responses of the extended composed model (Model/ServerWT.v), append-only
CHECK["theorems"] = list(CHECK["theorems"]) + ['c04_tsig_within_limit_partial', 'c04_tsig_or_tc']

# pkg-sproof: the signed TSIG record and the limit, append-only
CHECK["theorems"] = list(CHECK["theorems"]) + ['c04_tsig_within_limit']
MANIFEST["level_note"] += (" `c04_tsig_within_limit`: also the SIGNED TSIG-bearing responses (BADTIME, verified-without-records) are within "
                           "the limit, for every verifier and every hmac of the algorithm's output size, the only fact about HMAC used (finish_signed_ok2: the signed "
                           "record never exceeds signed_len = key + algorithm + 26 + MAC size (+ 6 BADTIME)).")
