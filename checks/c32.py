"""C32 — concurrent catalog and key swaps never mix snapshots (src/server/mod.rs)."""


def gen(rng, tier):
    quick = tier == "quick"
    n = 36 if quick else 400
    for i in range(n):
        mode = ["cat", "keys", "both", "both"][i % 4]
        nthreads = rng.choice([4, 6, 8, 12])
        ngens = rng.choice([8, 20, 50, 120] if quick else [8, 20, 50, 120, 400, 1000])
        iters = rng.choice([50, 150, 400] if quick else [50, 150, 400, 2000])
        yield f"swap {mode} {nthreads} {ngens} {iters}"


def nontrivial(case, impl, model, oracle):
    # impl prints `ok` only if (with catalog swaps) >= 2 catalog generations were actually observed by the queriers
    return impl == "ok"


def classify(case, impl, model, oracle):
    return case.split()[1] + ":" + impl.split()[0]


CHECK = {
    "property": "C32",
    "props": "Props/C32.v",
    "theorems": ["c32_single_snapshot", "c32_after_swap", "c32_versions_grow", "c32_one_acquisition_per_cell"],
    "allowed_axioms": [],
    "suites": [{
        "name": "swap",
        "impl_bin": "impl_c32", "extract": "Extract/ExC32.v", "driver": "run_c32.ml",
        "gen": gen, "nontrivial": nontrivial, "classify": classify,
        "exhaustive": {"quick": False, "thorough": False},
        "timeout": {"quick": 100, "thorough": 1500},
        "rule": ("real Server<HashMapTreeCatalog>: 4..12 threads calling handle_message[every fourth key generation is the EMPTY key set; after the last swap: install a key -> verified, revoke all -> BADKEY]  (NS+glue, NXDOMAIN+SOA, A, TXT queries; two thirds "
                 "TSIG-signed with the key of a random generation) while another thread calls set_catalog / set_tsig_keys through 8..120 "
                 "(thorough: ..1000) generations whose every record / key name carries the generation; a SeqCst sequence counter brackets "
                 "every call; each response must be byte-identical to the single-threaded reference response of ONE catalog generation "
                 "that can have been current during the call (none older than a set_catalog that returned before the call began), and "
                 "its TSIG status that of ONE key generation likewise; the model side runs the extracted exec under a random schedule "
                 "with the same shape and evaluates Spec response_ok exhaustively on its trace; non-trivial = run in which >= 2 catalog "
                 "generations were observed (or, keys-only mode, all key statuses consistent)"),
    }],
    "trusted_base": [
        "Coq 8.16.1 kernel; axioms: none",
        "extraction: ExtrOcamlBasic only; OCaml 4.13.1",
        "RwLock/Arc (std): read()/write() are atomic and return/replace the stored Arc; memory ordering — NOT modelled",
        "the model's handler program (one catalog read at the start, at most one key-set read at the TSIG point, then a pure function) "
        "is tied to handle_message by tools/gen/snapconsts.py (acquisition counts, pinned to 1 in Props/C32.v) and by the concurrent run",
        "purity of the rest of handle_message w.r.t. the two cells (it also reads the clock and RRL state: outside this property)",
    ],
    "assumptions": ["threads start fresh; handle is a function of the request and the two values read"],
}

MANIFEST = {
    "level_text": ("Coq theorem (no axioms) over ALL interleavings of any number of handler and swapper threads on two atomic cells: every "
                   "response equals handle(request, c, k) for ONE catalog value and ONE key set, each held by its cell at an instant inside "
                   "the handler's interval, and a handler started after set_catalog(c) returned uses c or a later value. The real "
                   "handle_message is tied to the model's one-read-per-cell handler by a source sentinel and by concurrent runs on the real "
                   "Server with generation-marked catalogs and key sets."),
    "level_note": "Proof of the model; partial w.r.t. the runtime (RwLock/Arc correctness and memory ordering are trusted).",
    "technique": "machine-checked proof in Coq (invariant over all schedules) + source sentinel + concurrent consistency runs",
    "design_ref": "DESIGN.md §4 C32",
}
