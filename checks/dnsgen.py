"""Shared Python builders for DNS messages used by several check generators
(independent of both the Rust code and the Coq model)."""

LITE_TYPES = [1, 28, 41, 250, 10, 99, 65280, 255, 0]      # types the RdataLite model covers
NAME_TYPES = [2, 5, 12, 15, 6, 33, 16, 13]                 # need the full RDATA model


def enc_name(labels):
    out = []
    for l in labels:
        out.append(len(l)); out += list(l)
    out.append(0)
    return out


def rand_labels(rng, maxn=4):
    pool = [b"a", b"b", b"www", b"example", b"COM", b"com", b"*", b"x" * 63, b"\x00", b"A"]
    return [rng.choice(pool) for _ in range(rng.randint(0, maxn))]


def u16(v):
    return [(v >> 8) & 0xFF, v & 0xFF]


def u32(v):
    return [(v >> 24) & 0xFF, (v >> 16) & 0xFF, (v >> 8) & 0xFF, v & 0xFF]


def opt_rdata(rng):
    out = []
    for _ in range(rng.choice([0, 0, 1, 2])):
        data = [rng.randrange(256) for _ in range(rng.choice([0, 1, 4, 8]))]
        out += u16(rng.randrange(65536)) + u16(len(data)) + data
    if rng.random() < 0.15:
        out += [rng.randrange(256) for _ in range(rng.randint(1, 3))]      # malformed tail
    return out


def tsig_rdata(rng, alg=None, mac=None, time=None, fudge=300, orig_id=0, error=0, other=None):
    alg = alg if alg is not None else enc_name([b"hmac-sha256"])
    mac = mac if mac is not None else [rng.randrange(256) for _ in range(rng.choice([0, 10, 16, 20, 32]))]
    time = time if time is not None else rng.randrange(1 << 48)
    other = other if other is not None else []
    t = [(time >> (8 * i)) & 0xFF for i in (5, 4, 3, 2, 1, 0)]
    out = alg + t + u16(fudge) + u16(len(mac)) + mac + u16(orig_id) + u16(error) + u16(len(other)) + other
    return out


def name_rdata(rng, m, ty):
    """RDATA of the RFC 1035 name-bearing types, written into Msg m so that embedded names may be compressed"""
    start = len(m.buf)
    if ty in (2, 5, 12, 3, 4, 7, 8, 9):
        m.name(rand_labels(rng))
    elif ty == 15:
        m.buf += u16(rng.randrange(65536)); m.name(rand_labels(rng))
    elif ty == 33:
        m.buf += u16(1) + u16(2) + u16(53); m.name(rand_labels(rng), compress=rng.random() < 0.2)
    elif ty == 6:
        m.name(rand_labels(rng)); m.name(rand_labels(rng))
        m.buf += u32(1) + u32(2) + u32(3) + u32(4) + u32(rng.randrange(1 << 32))
    elif ty == 14:
        m.name(rand_labels(rng)); m.name(rand_labels(rng))
    elif ty == 16:
        for _ in range(rng.randint(1, 3)):
            s = [rng.randrange(256) for _ in range(rng.choice([0, 1, 5, 255]))]
            m.buf += [len(s)] + s
    elif ty == 13:
        for _ in range(2):
            s = [rng.randrange(256) for _ in range(rng.choice([0, 3]))]
            m.buf += [len(s)] + s
    elif ty == 11:
        m.buf += [1, 2, 3, 4, 6] + [rng.randrange(256) for _ in range(rng.choice([0, 2]))]
    rd = m.buf[start:]
    del m.buf[start:]
    if rng.random() < 0.12 and rd:
        rd = rd[:rng.randrange(len(rd))] if rng.random() < 0.5 else rd + [rng.randrange(256)]
    return rd


def lite_rdata(rng, ty, cl):
    if ty == 1 and cl == 1:
        return [rng.randrange(256) for _ in range(rng.choice([4, 4, 4, 3, 5, 0]))]
    if ty == 28 and cl == 1:
        return [rng.randrange(256) for _ in range(rng.choice([16, 16, 15, 17]))]
    if ty == 41:
        return opt_rdata(rng)
    if ty == 250:
        rd = tsig_rdata(rng)
        if rng.random() < 0.2:
            rd = rd[:rng.randrange(len(rd) + 1)]
        elif rng.random() < 0.1:
            rd += [0]
        return rd
    return [rng.randrange(256) for _ in range(rng.choice([0, 1, 4, 20, 60]))]


class Msg:
    """Builds a message and remembers where names start (for compression pointers)."""

    def __init__(self, rng):
        self.rng = rng
        self.buf = []
        self.name_starts = []

    def name(self, labels, compress=True):
        rng = self.rng
        if compress and self.name_starts and rng.random() < 0.4:
            keep = rng.randint(0, len(labels))
            for l in labels[:keep]:
                self.name_starts.append(len(self.buf))
                self.buf += [len(l)] + list(l)
            t = rng.choice(self.name_starts)
            self.buf += [0xC0 | (t >> 8), t & 0xFF]
        else:
            for l in labels:
                self.name_starts.append(len(self.buf))
                self.buf += [len(l)] + list(l)
            self.name_starts.append(len(self.buf))
            self.buf.append(0)


def build_message(rng, types=LITE_TYPES, max_rr=4, qd=None, flags=None):
    m = Msg(rng)
    qd = rng.choice([0, 1, 1, 1, 2]) if qd is None else qd
    counts = [rng.randint(0, max_rr) if rng.random() < 0.5 else 0 for _ in range(3)]
    flags = rng.randrange(65536) if flags is None else flags
    m.buf = u16(rng.randrange(65536)) + u16(flags) + u16(qd) + u16(counts[0]) + u16(counts[1]) + u16(counts[2])
    for _ in range(qd):
        m.name(rand_labels(rng))
        m.buf += u16(rng.choice([1, 2, 255, 252, 28, 99])) + u16(rng.choice([1, 3, 255, 7]))
    for _ in range(sum(counts)):
        m.name(rand_labels(rng))
        ty = rng.choice(types)
        cl = rng.choice([1, 1, 3, 255, 4096, 7])
        ttl = rng.choice([0, 1, 3600, 0x7FFFFFFF, 0x80000000, 0xFFFFFFFF, rng.randrange(1 << 32)])
        if ty in NAME_TYPES or ty in (3, 4, 7, 8, 9, 14, 11):
            hdr_at = len(m.buf)
            m.buf += u16(ty) + u16(cl) + u32(ttl) + [0, 0]
            rd = name_rdata(rng, m, ty)
            m.buf += rd
            m.buf[hdr_at + 8:hdr_at + 10] = u16(len(rd))
        else:
            rd = lite_rdata(rng, ty, cl)
            m.buf += u16(ty) + u16(cl) + u32(ttl) + u16(len(rd)) + rd
    return m.buf, qd, sum(counts)


def mutate(rng, buf):
    buf = list(buf)
    r = rng.random()
    if r < 0.35 and buf:
        return buf[:rng.randrange(len(buf) + 1)]                      # truncate
    if r < 0.5:
        return buf + [rng.randrange(256) for _ in range(rng.randint(1, 4))]   # trailing junk
    if r < 0.7 and len(buf) >= 12:
        i = rng.choice([4, 5, 6, 7, 8, 9, 10, 11])                    # count edit
        buf[i] = rng.choice([0, 1, 2, 0xFF])
        return buf
    if r < 0.9 and buf:
        i = rng.randrange(len(buf))                                   # byte corruption
        buf[i] = rng.choice([0, 0xC0, 0xC1, 0xFF, 63, 64, rng.randrange(256)])
        return buf
    return buf


def hx(b):
    return bytes(b).hex() if len(b) else "-"
