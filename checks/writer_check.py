"""Shared suite pieces of C12 and C13 (the message writer): oracle plumbing.

The framework diffs the implementation line against the model line (correspondence).  The
property oracle needs the *implementation's* result (outcomes and octets), so it is evaluated by
the extracted specification (`run --oracle`: Spec/MsgWriterS.v `judge` / `judge13`) on
`<implementation line> <case>`; verdicts are computed in one sharded batch on first use."""
import os, subprocess
import qv
import writer_gen

RUNNER = os.path.join(qv.BUILD, "ocaml", "c12_writer", "run")


class Oracle:
    def __init__(self, flag, impl_bin="impl_c12"):
        self.flag = flag
        self.impl_bin = impl_bin
        self.cases = []
        self.cache = {}
        self.batched = False

    def gen(self, rng, tier, **kw):
        for c in writer_gen.gen(rng, tier, **kw):
            self.cases.append(c)
            yield c

    def _batch(self):
        self.batched = True
        if not self.cases or not os.path.exists(RUNNER):
            return
        exe = os.path.join(qv.BUILD, "target", "debug", self.impl_bin)
        impl = qv.run_sharded(exe, self.cases, 600)
        lines = [i + " " + c for i, c in zip(impl, self.cases)]
        verdicts = qv.run_sharded(RUNNER, lines, 900, args=[self.flag])
        for c, i, v in zip(self.cases, impl, verdicts):
            self.cache[c] = (i, v)

    def verdict(self, case, impl):
        if not self.batched:
            self._batch()
        hit = self.cache.get(case)
        if hit and hit[0] == impl:
            return hit[1]
        if not os.path.exists(RUNNER):
            # the extracted specification could not be built (reported by the framework as a broken
            # obligation); no verdict can be given
            return "unavailable"
        try:
            p = subprocess.run([RUNNER, self.flag], input=impl + " " + case + "\n", stdout=subprocess.PIPE,
                               stderr=subprocess.DEVNULL, timeout=120, text=True)
            v = p.stdout.strip() or "bad:oracle-crash"
        except subprocess.TimeoutExpired:
            v = "bad:oracle-timeout"
        self.cache[case] = (impl, v)
        return v

    def oracle_ok(self, case, impl, oracle):
        return not self.verdict(case, impl).startswith("bad")


def n_pointers(impl):
    """Rough count of compression pointers in the finished message (c0xx / c1xx .. pairs cannot be
    told from data without decoding; used only for the non-triviality rule together with success)."""
    if ";buf=" not in impl or ";len=" not in impl:
        return 0
    try:
        ln = int(impl.split(";len=")[1].split(";")[0])
    except ValueError:
        return 0
    b = impl.split(";buf=")[1]
    return b[:2 * ln].count("c0")


def classify(case, impl, model, oracle):
    if impl.startswith("new:"):
        return impl
    if impl.endswith(";panic") or impl == "panic":
        return "panic"
    if impl.endswith("len=dead;buf=-"):
        return "consumed-by-failed-template"
    outs = impl.split(";")[0][4:].split(",")
    nerr = sum(1 for o in outs if o.startswith("E:"))
    return "finished:all-ok" if nerr == 0 else ("finished:some-errors" if nerr < len(outs) else "finished:all-errors")
