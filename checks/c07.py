"""C07 — zone selection and RCODEs for unsupported queries."""
import srvgen


def gen(rng, tier):
    n = 10000 if tier == "quick" else 300000
    for _ in range(n):
        yield srvgen.gen_case(rng, loaded=(rng.random() < 0.6), mutate_p=0.05, clean_p=0.2)


def nontrivial(case, impl, model, oracle):
    return impl.startswith("resp") and any(f" rc={c} " in impl for c in ("2", "4", "5"))


CHECK, MANIFEST = srvgen.make_check(
    "C07", "Props/C07.v",
    ["c07_dispatch", "c07_query_table", "c07_longest_suffix", "c07_error_responses_empty", "c07_data_only_from_loaded_zone",
     "c07_catalog_tree_link", "c07_catalog_refinement_link", "c07_single_zone_link", "c07_srv_entry_fields", "c07_tree_of_entries_ok", "c07_query_table_tree", "c07_clean_query_tree",
     "c07_answering_writer_agrees", "c07_clean_query_numbers"],
    srvgen.oracle_c07, gen, nontrivial, srvgen.std_classify,
    ("Coq theorems (no axioms): a request that passes the generic pre-processing is dispatched on its opcode (anything but QUERY: "
     "NOTIMP, whatever the catalog); the QUERY decision table (QTYPE AXFR/IXFR/MAILA/MAILB and QCLASS ANY: NOTIMP regardless of "
     "the catalog; otherwise the entry selected by a longest-suffix match within the class, proved to be exactly that: none => "
     "REFUSED, not-yet-loaded/failed => SERVFAIL, loaded => the zone's answer); these error responses carry no records and have "
     "AA clear, and records/AA only ever come from a clean QUERY answered out of a Loaded zone. The catalog of the model is a flat "
     "list; c07_catalog_tree_link proves that for EVERY hash-map-tree catalog (Model/CatTree.v, C22) reachable by insert/remove "
     "histories the flat lookup on the tree's flat view returns exactly the entry the tree's own lookup returns (same class, name "
     "modulo case, kind), so the table holds verbatim for the real structure (c07_query_table_tree, c07_clean_query_tree: end to "
     "end from the request octets, the QNAME being the spec-level decoding); the model runner builds the catalog by Catalog::insert "
     "into the tree model and dispatches on its flat view."),
    "machine-checked proof in Coq (decision table as implications, longest-suffix characterisation) + correspondence check")
