"""C01 — the server survives every possible request without panicking (partial: see MANIFEST text)."""
import srvgen
import dnsgen


def gen(rng, tier):
    quick = tier == "quick"
    n = 9000 if quick else 300000
    for _ in range(n):
        yield srvgen.gen_case(rng, loaded=True, mutate_p=0.5, clean_p=0.3)
    # every truncation prefix of well-formed requests
    for _ in range(30 if quick else 2000):
        cat, names = srvgen.gen_catalog(rng, True)
        req = srvgen.gen_request(rng, names)
        keys = srvgen.gen_keys(rng)
        for cut in range(len(req) + 1):
            yield f"{rng.choice('ut')} {rng.choice([512, 1232])} {cat} {keys} {dnsgen.hx(req[:cut])}"
            if cut >= 12 and cut % 2 == 0:
                # the prefix ending in a significant octet: pointer start, longest label, over-long label
                yield f"{rng.choice('ut')} 512 {cat} {keys} {dnsgen.hx(req[:cut] + [rng.choice([0xC0, 0xFF, 63, 64])])}"
    # raw random bytes
    for _ in range(1000 if quick else 50000):
        req = [rng.randrange(256) for _ in range(rng.randint(0, 64))]
        yield f"{rng.choice('ut')} 512 - - {dnsgen.hx(req)}"


def nontrivial(case, impl, model, oracle):
    return impl.startswith("resp")


CHECK, MANIFEST = srvgen.make_check(
    "C01", "Props/C01.v", ["c01_no_panic", "c01_composed_dispatch_same", "c01_no_panic_partial", "c01_no_panic_tsig_partial"],
    srvgen.oracle_c01, gen, nontrivial, srvgen.std_classify,
    ("Coq theorem c01_no_panic (no axioms): the COMPOSED model of Server::handle_message (Model/ServerW.v) returns a response or "
     "none, never a panic, for every octet string, both transports, every EDNS size in [512, 65535], every key set and every catalog "
     "whose Loaded entries are zones built by Zone::new + Zone::add over arbitrary record lists (RDATA <= 65535 octets, 16-bit "
     "types: what the Rust types enforce). Covered: the Reader, compressed-name parsing, OPT/TSIG RDATA validation, the complete "
     "pre-scan with the Writer's size arithmetic, the opcode/QTYPE/catalog dispatch (first wave, c01_no_panic_partial), and now "
     "the serialisation of EVERY response that does not carry a TSIG (header, echoed question, EDNS, extended RCODE, finish) and, "
     "for a clean QUERY without TSIG — answered from a Loaded zone, or with NOTIMP/REFUSED/SERVFAIL — ALL of the response side at the octet level: every zone lookup of the tree model (C06), "
     "every RDATA name parse, the CNAME chase with PreviousOwners, referrals and glue, additional-section processing, the error "
     "mapping, and every Writer operation issued (add_*_rr / add_*_rrset with Hint::Qname / MostRecentOwner / "
     "MostRecentNameInRdata / hint-pointer-vector slots, clear_rrs, set_aa/rcode/tc, rollbacks) up to and including finish — by "
     "the key lemma (Proofs/ComposeKeyP.v) that query.rs only issues operations with well-formed arguments that obey the Writer's "
     "hint contract, so that C12's c12_ops_never_panic applies to each. STILL PARAMETERS (universally quantified, not covered): "
     "HMAC verification (its totality on the TSIG model is C11's c11_verify_total) and query answering for a request whose TSIG "
     "verified. TSIG-BEARING RESPONSES: c01_no_panic_tsig_partial is the same statement for the EXTENDED composed model "
     "(Model/ServerWT.v), which also writes the response's TSIG record in octets with the byte-level Writer model (ser_prepare, "
     "Writer::set_tsig with the reserved-space arithmetic - OPT reserves 11 octets, the TSIG record must fit in what is left, else TC "
     "-, finish_with_mac): no panic for every request whose TSIG is NOT verified (BADKEY, BADSIG, FORMERR for a forbidden MAC size), "
     "any hmac, any clock < 2^48 s; the signing modes (BADTIME, verified) are modelled and run, not proved. Not modelled "
     "at all: AXFR (NOTIMP in this version), the socket loops and thread pool (C27-C30), zone-file loading (C15-C19, C31). The "
     "four panics/defects of the pinned tree on this path were repaired by fix: commits and are kept as refuted witnesses. The "
     "correspondence run feeds mutated, truncated and random requests to the real server and requires a non-panicking outcome "
     "equal to the model's on every one."),
    "machine-checked proof in Coq (totality of the composed request + octet-level response model) + correspondence/no-panic run on the real server")

# C01 is no longer only the request side: say what the composed theorem trusts and assumes
MANIFEST["level_note"] = (
    "Trusted: Coq kernel; extraction; fidelity of the hand-written models (server request side, query answering, zone tree, "
    "Writer — each differentially tested against the real crate on every run, the composed octets by the shared server runner). "
    "Parameters of c01_no_panic: HMAC verification, and query answering for requests whose TSIG verified.")
CHECK["assumptions"] = CHECK["assumptions"] + [
    "every Loaded catalog entry is a zone built by Zone::new + Zone::add (any record list: RDATA <= 65535 octets < 256, 16-bit "
    "types; the apex a valid Name of the entry's class; Rdata::equals transitive)"]


# ---- second suite: the extracted COMPOSED model (Model/ServerW.v handle_message_w — the very function c01_no_panic and
# c02_wellformed are about) against the real server, raw octets included wherever the model produces octets
def _raw(line):
    for tok in line.split():
        if tok.startswith("raw="):
            return tok[4:]
    return None


def _canon_tsig(line):
    """the TSIG entry of the AR section in the summary form srvgen.resp_equal compares (both sides print the RDATA in hex
    now that the model writes the TSIG record itself; the octets are compared through raw=)"""
    out = []
    for tok in line.split(" "):
        if tok.startswith("AR=[") and tok.endswith("]") and tok != "AR=[?]":
            tok = "AR=[" + ",".join(srvgen.canon_tsig_entry(x) for x in tok[4:-1].split(",") if x != "") + "]"
        out.append(tok)
    return " ".join(out)


def corr_eq_w(case, impl, model):
    if not srvgen.resp_equal(impl, _canon_tsig(model)):
        return False
    rm = _raw(model)
    return rm is None or rm == _raw(impl)


def gen_tsig_case(rng):
    """a well-formed request (any opcode, mostly QUERY) whose LAST additional record is a TSIG record (known / unknown keys and
    algorithms, MAC sizes around the allowed ones, long names), mostly preceded by an OPT record: the responses carry a TSIG
    record (BADKEY / BADSIG / FORMERR) or, when it does not fit, TC"""
    cat, names = srvgen.gen_catalog(rng, rng.random() < 0.7)
    keys = srvgen.gen_keys(rng)
    labels = rng.choice([[b"www", b"a"], [b"a"], [], [b"nx", b"example"], [b"q" * 63, b"r" * 63, b"s" * 63, b"t" * 61],
                         [b"key", b"example"], [b"K"], [b"Example"]])
    ar = ([srvgen.gen_opt(rng)] if rng.random() < 0.6 else []) + [srvgen.gen_tsig(rng)]
    flags = rng.choice([0, 0x0100, 0x0100, 0x2800, 0x7800])
    msg = dnsgen.u16(rng.randrange(65536)) + dnsgen.u16(flags) + dnsgen.u16(1) + dnsgen.u16(0) + dnsgen.u16(0) + dnsgen.u16(len(ar)) + \
        dnsgen.enc_name(labels) + dnsgen.u16(rng.choice([1, 2, 255, 252, 99])) + dnsgen.u16(rng.choice([1, 1, 3, 255]))
    for x in ar:
        msg += x
    return f"{rng.choice('uut')} {rng.choice([512, 512, 1232, 4096, 65535])} {cat} {keys} {dnsgen.hx(msg)}"


def gen_w(rng, tier):
    quick = tier == "quick"
    for _ in range(5000 if quick else 150000):
        yield srvgen.gen_case(rng, loaded=True, mutate_p=0.3, clean_p=0.5)
    # the TSIG-bearing responses, octet for octet: the reserved-space window, and the error classes
    for _ in range(1500 if quick else 40000):
        yield srvgen.gen_limit_edge_case(rng)
    for _ in range(1500 if quick else 40000):
        yield gen_tsig_case(rng)


def nontrivial_w(case, impl, model, oracle):
    return _raw(model) is not None          # the composed model answered in octets


CHECK["suites"].append(dict(CHECK["suites"][0], name="srvw", impl_bin="impl_srvt", extract="Extract/ExSrvW.v", driver="run_srvw.ml",
                            runner_name="SRVW", gen=gen_w, nontrivial=nontrivial_w, corr_eq=corr_eq_w,
                            rule=("the extracted EXTENDED composed model handle_message_wt itself (no composition in the runner); every "
                                  "response it produces in octets - now including the responses that carry a TSIG record (BADKEY / BADSIG "
                                  "/ FORMERR, and the TC fallback of the reserved-space window) - must equal the real server's octet for "
                                  "octet; the response's wall-clock fields (TSIG time signed / BADTIME server time) are normalised to the "
                                  "model's clock 0 by impl_srvt when they lie between the clock readings around handle_message; "
                                  "hmac is symbolic in the model runner (see ocaml/run_srvw.ml)")))



# ---- third suite (pkg-signed): CORRECTLY SIGNED queries over both transports as a no-panic stream. Query answering for a request
# whose TSIG verified is a PARAMETER of c01_no_panic (see level_note), and no suite above ever sends a request whose signature
# verifies; here the real server runs those paths (verified TSIG, answering, truncation / clear_rrs, TSIG RR that does not fit).
# No model column (no model of TSIG-bearing octets): the only requirement is two responses and never a panic / timeout / bad line.
import siggen
CHECK["suites"].append(dict(siggen.suite(siggen.oracle_c01),
                            gen=lambda rng, tier: siggen.gen(rng, tier, *((400, 5, 400, 8) if tier == "quick" else (15000, 100, 10000, 200)))))
MANIFEST["level_note"] += (" Suite `signed` (oracle-free, no model): correctly signed queries incl. stale-time (BADTIME) ones around the "
                           "size limits, both transports; requirement: two responses, never a panic.")


# pkg-sproof: the signing TSIG modes (finish_with_mac in response mode) are now under a theorem, append-only
CHECK["theorems"] = list(CHECK["theorems"]) + ['c01_no_panic_tsig']
MANIFEST["level_note"] += (" `c01_no_panic_tsig` (Proofs/SignFinishP.v, SignSerP.v, SignTopP.v): the extended composed model never "
                           "panics for EVERY verifier (signed BADTIME responses; verified requests answered NOTIMP / REFUSED / SERVFAIL / "
                           "FORMERR with a signed TSIG record) and every hmac whose output has the algorithm's output size (the only fact about HMAC used).")


# ---- fourth suite: the server WITH response rate limiting configured (src/server/rrl.rs runs inside handle_message, and the
# composed model has no RRL): C26's single-stream and mixed histories - every request kind incl. BADVERS with and without a
# question, FORMERR without a question, suppressed responses - as a NO-PANIC stream.  The model/oracle columns are C26's business;
# here the only requirement is that no request of a history panics or hangs.
import c26 as _c26


def _rrl_gen(rng, tier):
    n = 2500 if tier == "quick" else 40000
    for i, c in enumerate(_c26.gen(rng, tier)):
        if i >= n:
            break
        yield c
    for i, c in enumerate(_c26.gen_mixed(rng, tier)):
        if i >= n // 2:
            break
        yield c


CHECK["suites"].append({
    "name": "rrlnopanic", "runner_name": "C26_rrl", "impl_bin": "impl_c26", "extract": "Extract/ExC26.v", "driver": "run_c26.ml",
    "gen": _rrl_gen,
    "nontrivial": lambda case, impl, model, oracle: impl.startswith("ok"),
    "classify": lambda case, impl, model, oracle: impl.split()[0] if impl else "-",
    "corr_eq": lambda case, impl, model: True,
    "oracle_ok": lambda case, impl, oracle: impl not in ("panic", "timeout", "crash"),
    "exhaustive": {"quick": False, "thorough": False},
    "rule": ("C26's request histories against a Server with response rate limiting configured (every request kind of the RRL suites incl. "
             "BADVERS with and without a question); requirement: no request panics or hangs"),
})
MANIFEST["level_note"] += (" Suite `rrlnopanic`: the same server with response rate limiting configured (not in the composed model) must "
                           "not panic on C26's request histories.")
