"""C01 — the server survives every possible request without panicking (partial: see MANIFEST text)."""
import srvgen
import dnsgen


def gen(rng, tier):
    quick = tier == "quick"
    n = 9000 if quick else 300000
    for _ in range(n):
        yield srvgen.gen_case(rng, loaded=True, mutate_p=0.5, clean_p=0.3)
    # every truncation prefix of well-formed requests
    for _ in range(30 if quick else 2000):
        cat, names = srvgen.gen_catalog(rng, True)
        req = srvgen.gen_request(rng, names)
        keys = srvgen.gen_keys(rng)
        for cut in range(len(req) + 1):
            yield f"{rng.choice('ut')} {rng.choice([512, 1232])} {cat} {keys} {dnsgen.hx(req[:cut])}"
            if cut >= 12 and cut % 2 == 0:
                # the prefix ending in a significant octet: pointer start, longest label, over-long label
                yield f"{rng.choice('ut')} 512 {cat} {keys} {dnsgen.hx(req[:cut] + [rng.choice([0xC0, 0xFF, 63, 64])])}"
    # raw random bytes
    for _ in range(1000 if quick else 50000):
        req = [rng.randrange(256) for _ in range(rng.randint(0, 64))]
        yield f"{rng.choice('ut')} 512 - - {dnsgen.hx(req)}"


def nontrivial(case, impl, model, oracle):
    return impl.startswith("resp")


CHECK, MANIFEST = srvgen.make_check(
    "C01", "Props/C01.v", ["c01_no_panic_partial"],
    srvgen.oracle_c01, gen, nontrivial, srvgen.std_classify,
    ("PARTIAL. Coq theorem (no axioms): the model of handle_message — Reader, compressed-name parsing, OPT/TSIG RDATA validation, "
     "the complete pre-scan with the Writer's size arithmetic for the question and the EDNS/TSIG reservations, opcode/QTYPE/"
     "catalog dispatch — returns a response or none, never a panic, for every octet string, both transports, every EDNS size >= "
     "512, every catalog and key set. The four panics/defects of the pinned tree on this path were repaired by fix: commits and "
     "are kept as refuted witnesses. NOT covered by the theorem: panics inside query answering for a loaded zone and inside the "
     "Writer's serialisation (parameters of the model; C05/C06/C12) — those are only exercised by the correspondence run, which "
     "feeds mutated, truncated and random requests to the real server and requires a non-panicking outcome on every one."),
    "machine-checked proof in Coq (totality of the modelled request path) + correspondence/no-panic run on the real server")
