"""C20 — the zone store holds exactly the records added to it (HashMapTreeZone::add, Node iteration, RrsetList)."""
import re
import zonegen as zg


def gen(rng, tier):
    quick = tier == "quick"
    n = 4000 if quick else 60000
    for _ in range(n):
        apex, cls, recs = zg.gen_zone(rng, max_records=rng.choice([6, 12, 25, 40]))
        # more rejects than the lookup zones: out-of-zone owners, class and TTL mismatches, duplicates
        extra = []
        for r in recs:
            x = rng.random()
            if x < 0.10:
                extra.append(r)                                    # exact duplicate
            elif x < 0.16:
                f = r.split(",")
                f[3] = str(rng.choice([60, 7200, 3600]))
                extra.append(",".join(f))                         # same RRset, other TTL
            elif x < 0.20:
                f = r.split(",")
                f[2] = str(rng.choice([1, 3, 7]))
                extra.append(",".join(f))                         # other class
        allr = recs + extra
        rng.shuffle(allr)
        allr = allr[:45]
        yield f"H {zg.nm(apex)} {cls} {';'.join(allr) if allr else '-'}"


def _canon(line):
    """steps -> list of (verdict, node set, rrset set, soa, ns)"""
    out = []
    # names compared case-insensitively for the property verdict (the model column is compared exactly)
    for st in zg.lower_names(line).split(" / "):
        m = re.fullmatch(r"(new|ok|err \w+|panic)(?: N\{(.*)\} R\{(.*)\} S(\S+) T(\S+))?", st)
        if not m:
            return None
        v, ns, rs, soa, nsr = m.groups()
        out.append((v, tuple(sorted(ns.split(";"))) if ns else (), tuple(sorted(rs.split(";"))) if rs else (), soa, nsr))
    return out


def oracle_ok(case, impl, oracle):
    if "panic" in impl:
        return False
    if oracle == "-":
        # no model/oracle column at all (the executable model could not be built: reported separately as a broken
        # obligation, "no-failing-input-found"); not a verdict about this input
        return True
    a, b = _canon(impl), _canon(oracle)
    return a is not None and a == b


def nontrivial(case, impl, model, oracle):
    # at least one rejected add and one node that owns no records (empty non-terminal) or a merged RRset
    return "err " in impl and ("[]" in impl or "+" in impl)


_rset = re.compile(r" R\{([^}]*)\}")


def _n_rdatas(step):
    m = _rset.search(step)
    return sum(x.rsplit(":", 1)[-1].count("+") + 1 for x in m.group(1).split(";")) if m and m.group(1) else 0


def ci_absorbed(case, impl):
    """number of ACCEPTED adds that did not grow any RRset although no octet-identical RDATA had been added to that
    (owner, type) before: the record was absorbed by Rdata::equals on a differently spelled RDATA"""
    f = case.split()
    if len(f) < 4 or f[3] == "-":
        return 0
    steps = impl.split(" / ")
    n, prev, seen = 0, _n_rdatas(steps[0]), {}
    for rec, st in zip(f[3].split(";"), steps[1:]):
        o, ty, _c, _ttl, rd = rec.split(",")
        cur = _n_rdatas(st)
        if st.startswith("ok"):
            key = (zg.lower_names("~" + o), ty)
            if cur == prev and rd not in seen.get(key, ()):
                n += 1
            seen.setdefault(key, set()).add(rd)
        prev = cur
    return n


def classify(case, impl, model, oracle):
    ks = sorted(set(re.findall(r"err (\w+)", impl)))
    ci = " ci-dedup" if ci_absorbed(case, impl) else ""
    return ("panic " if "panic" in impl else "") + ("ok+" + "+".join(ks) if ks else "ok-only") + ci


def gen_rdset(rng, tier):
    """RdataSetOwned::from_iter at the buffer level: lengths around the u16 byte split, duplicates, empty RDATA, and
    (real Rdata::equals) every name-bearing type with case variants of the embedded names, fixed-field variants and
    malformed RDATA (compared octet-wise), in the classes where SRV / A change their comparison rule."""
    n = 4000 if tier == "quick" else 200000
    # RDATA at the largest lengths the 16-bit length prefix of the set's buffer can express (and one below)
    for _ in range(6 if tier == "quick" else 60):
        big = [(rng.choice(["00", "61", "ff"]) * rng.choice([65535, 65534, 65533, 65532])) for _ in range(rng.randint(1, 2))]
        small = rng.choice(["-", "61", "00ff"])
        order = big + [small] + ([big[0]] if rng.random() < 0.5 else [])
        rng.shuffle(order)
        yield f"B {rng.choice([1, 3])} {rng.choice([99, 65280, 16])} {','.join(order)}"
    named = list(zg.ONE_NAME_TYPES) + [zg.T_MX, zg.T_MX, zg.T_SOA, zg.T_SOA, zg.T_MINFO, zg.T_SRV, zg.T_SRV, zg.T_A]
    for _ in range(n):
        cls = rng.choice([1, 1, 3, 7])
        pool = []
        if rng.random() < 0.6:
            ty = rng.choice(named)
            apex = rng.choice(zg.APEXES)
            while len(pool) < rng.randint(1, 4):
                pool += zg.name_record_burst(rng, ty, cls, apex) or [rng.choice(zg.A_POOL)]
        else:
            ty = rng.choice([1, 16, 16, 2, 5, 12, 99])
            for _ in range(rng.randint(1, 4)):
                if ty in (2, 5, 12):
                    pool.append(zg.wire(zg.flip_case(rng, [rng.choice(["6e73", "61", "6162"])] + rng.choice([[], ["63"]]), 0.4)))
                else:
                    ln = rng.choice([0, 1, 2, 4, 16, 255, 256, 257, 300, 511, 512, 513, rng.randint(0, 700)])
                    b = rng.choice(["00", "61", "ff"])
                    pool.append((b * ln) or "-")
        k = rng.randint(1, 8)
        yield f"B {cls} {ty} {','.join(rng.choice(pool) for _ in range(k))}"


def nontrivial_rdset(case, impl, model, oracle):
    # something was dropped as a duplicate, or an RDATA of 256+ octets went through the length prefix
    given = case.split()[3].split(",")
    kept = impl[3:].split("+") if impl.startswith("ok ") else []
    return len(kept) < len(given) or any(len(x) >= 512 for x in kept)


def classify_rdset(case, impl, model, oracle):
    if not impl.startswith("ok"):
        return impl
    given = case.split()[3].split(",")
    kept = impl[3:].split("+")
    # "ci": fewer members than DISTINCT octet strings given, i.e. Rdata::equals identified differently spelled RDATA
    return f"kept{len(kept)}of{len(given)}" + (" ci" if len(kept) < len(set(given)) else "")


RDSET_RULE = ("RdataSetOwned::from_iter on 1..8 RDATAs drawn with repetition from a pool of <=4..6: 40% opaque (lengths 0,1,2,4,16,255,256,257,300,"
              "511,512,513 and random <=700; valid names with case variants for NS/CNAME/PTR), 60% name-bearing (NS/CNAME/PTR/MB/MG/MR/MD/MF, "
              "MX, SOA, MINFO, SRV, A: a base RDATA plus variants differing only in the letter case of the embedded names, in a fixed "
              "field, or malformed — junk octet, missing root label, 64-octet label, pointer, >255-octet name, leading root label; names "
              "with 63-octet labels and of exactly 255 octets), classes IN/CH/7; compared: the RDATAs "
              "iter() yields, against the octet-buffer model and against the spec's first-occurrence de-duplication; "
              "non-trivial = a duplicate was dropped or an RDATA of >=256 octets is present")

CHECK = {
    "property": "C20",
    "props": "Props/C20.v",
    "theorems": ["c20_req_real_is_equals", "c20_add_result_real", "c20_iter_by_node_real", "c20_iter_by_rrset_real",
                 "c20_iter_names_spelled_real", "c20_soa_ns_real", "c20_rrset_is_c19_set", "c20_rdataset_real_buffer", "c20_stored_rdata_real",
                 "c20_add_result", "c20_add_ok_iff", "c20_add_err_kind", "c20_iter_by_node",
                 "c20_iter_by_rrset", "c20_iter_names_spelled", "c20_iter_state_machine", "c20_soa_ns",
                 "c20_rdataset_buffer", "c20_rdataset_insert"],
    "allowed_axioms": [],
    "suites": [
        {"name": "hist", "impl_bin": "impl_zone", "extract": "Extract/ExZone.v", "driver": "run_zone.ml",
         "runner_name": "zone", "gen": gen, "nontrivial": nontrivial, "classify": classify, "oracle_ok": oracle_ok,
         "exhaustive": {"quick": False, "thorough": False}, "timeout": {"quick": 300, "thorough": 3000},
         "rule": "@HIST@"},
        {"name": "rdset", "impl_bin": "impl_zone", "extract": "Extract/ExZone.v", "driver": "run_zone.ml",
         "runner_name": "zone", "gen": gen_rdset, "nontrivial": nontrivial_rdset, "classify": classify_rdset,
         "exhaustive": {"quick": False, "thorough": False}, "timeout": {"quick": 300, "thorough": 3000},
         "rule": RDSET_RULE},
    ],
    "rule_hist": ("seeded random add histories (<=45 adds over labels {a,b,c,*,A}, apexes ., c., b.c., A.b., classes IN/CH/7): "
             "in-zone and out-of-zone owners, class mismatches, TTL mismatches, exact duplicates, case variants of owners "
             "and of name RDATA; after new and after EVERY add the line records the Result, the full iter_by_node and "
             "iter_by_rrset output (sorted) and soa()/ns(); implementation vs model compared exactly, implementation vs "
             "specification as sets with names compared case-insensitively; non-trivial = at least one rejected add and an empty "
             "non-terminal or a multi-RDATA RRset; distinct = distinct case line"),
    "trusted_base": [
        "Coq 8.16.1 kernel",
        "axioms: none (every theorem: Closed under the global context)",
        "extraction: ExtrOcamlBasic only; OCaml 4.13.1 ocamlopt",
        "correspondence: checks/c20.py + checks/zonegen.py generators, harness/src/bin/impl_zone.rs, ocaml/run_zone.ml, line diff in tools/qv.py",
        "tools/gen/zoneconsts.py re-extracts Type::{A,NS,CNAME,SOA,MX,AAAA}, Class::IN and Label::asterisk() from the source",
        "model abstractions (differentially tested, not proved): Name as list of labels, HashMap as association list "
        "(iteration order unspecified: compared as sorted sets), binary_search_by_key as ordered scan of the sorted Vec",
        "Rdata::equals is no longer a parameter: the *_real theorems use Model/RdataM.v equals (C19: total, equal to the RFC "
        "characterisation spec_equals) on the model side and spec_equals on the specification side; the runner runs exactly these",
    ],
    "assumptions": ["every RDATA is a string of octets (elements < 256: the u8 type) — the domain of C19's theorems",
                    "zones are built only by HashMapTreeZone::new and add"],
}

MANIFEST = {
    "level_text": ("Coq theorems (no axioms): for every add history, add returns exactly the specification's verdict "
                   "(owner in zone, class, TTL of the existing RRset) and a rejected add returns the identical tree; "
                   "iter_by_node yields every existing name (empty non-terminals included) exactly once with its RRsets, "
                   "iter_by_rrset exactly the RRsets of the accepted records once each, de-duplicated by the real Rdata::equals "
                   "(= nodup_by of C19's RFC characterisation: case-insensitive embedded names on valid RDATA, octet-wise otherwise), "
                   "and soa()/ns() agree "
                   "with the apex item. Model tied to the code by a differential run over 4000 add histories with the full "
                   "iteration after every step."),
    "level_note": ("Trusted: Coq kernel, extraction, the hand-written model's correspondence to the Rust code (differentially "
                   "tested). Rdata::equals is the proved model of C19 (real instance), not a parameter."),
    "technique": "machine-checked proof in Coq (abstraction invariant tree <-> flat accepted-record list, induction over the nested tree) + model/implementation correspondence check",
    "design_ref": "DESIGN.md §4 C20",
}

CHECK["suites"][0]["rule"] = CHECK.pop("rule_hist")
