"""C15 — the message reader is total, atomic and faithful (src/message/reader.rs)."""
import dnsgen

RR_OPS = ["rr", "sr", "pf", "ps", "pp"]
ALL_OPS = ["h", "m", "rq", "sq", "e", "mc"] + RR_OPS


def op_sequence(rng, qd, nrr):
    r = rng.random()
    ops = []
    marked = False
    if r < 0.6:
        # a plausible walk over the message, with peeks sprinkled in
        if rng.random() < 0.5:
            ops.append("h")
        for _ in range(qd):
            ops.append(rng.choice(["rq", "rq", "sq"]))
        if rng.random() < 0.3:
            ops.append("m"); marked = True
        for _ in range(nrr + rng.choice([0, 0, 1])):
            if rng.random() < 0.3:
                ops.append("pf")
            ops.append(rng.choice(RR_OPS))
        ops.append("e")
        if marked and rng.random() < 0.7:
            ops.append("w"); marked = False
            ops.append(rng.choice(RR_OPS + ["mc"]))
    else:
        for _ in range(rng.randint(1, 30)):
            o = rng.choice(ALL_OPS + (["w"] if marked else []))
            if o == "m":
                marked = True
            if o == "w":
                marked = False
            ops.append(o)
    return ops[:30]


def gen(rng, tier):
    n = 25000 if tier == "quick" else 600000
    # single read_question on a fresh reader: has a spec oracle
    for _ in range(n // 10):
        buf, qd, nrr = dnsgen.build_message(rng, qd=1)
        if rng.random() < 0.4:
            buf = dnsgen.mutate(rng, buf)
        yield f"{dnsgen.hx(buf)} rq"
    for _ in range(n):
        buf, qd, nrr = dnsgen.build_message(rng, types=dnsgen.LITE_TYPES + dnsgen.NAME_TYPES + [9, 7, 14, 11])
        if rng.random() < 0.45:
            buf = dnsgen.mutate(rng, buf)
        ops = op_sequence(rng, qd, nrr)
        yield f"{dnsgen.hx(buf)} {','.join(ops)}"
    # boundary: every truncation of a few messages, peeked/skipped/read at the first RR
    for _ in range(20 if tier == "quick" else 300):
        buf, qd, nrr = dnsgen.build_message(rng, qd=1)
        for cut in range(len(buf) + 1):
            for op in ("rq,sr", "rq,pp", "rq,rr", "sq,pf", "rr", "sr", "pp"):
                yield f"{dnsgen.hx(buf[:cut])} {op}"


def nontrivial(case, impl, model, oracle):
    # at least one successful record/question read or peek AND the cursor moved beyond the header
    return ((" rr wire=" in " " + impl) or ("q wire=" in impl) or ("peek type=" in impl)) and "@12 ;" not in impl[-8:]


def classify(case, impl, model, oracle):
    outs = impl.split(" ; ")
    kinds = set()
    for o in outs:
        w = o.split()[0] if o else "?"
        kinds.add(o.split(" @")[0] if w == "err" else w)
    return "+".join(sorted(kinds))[:80]


UNMODELLED = "err InvalidRdata(InvalidName(OutOfFuel))"


def corr_eq(case, impl, model):
    """Equal op by op; comparison stops where the partial RDATA model says "type not covered"
    (a name-bearing RFC 1035 type, reached only through corrupted messages here; C18 models those)."""
    io, mo = impl.split(" ; "), model.split(" ; ")
    for a, b in zip(io, mo):
        if b.startswith(UNMODELLED):
            return a.startswith("err InvalidRdata(") or a.startswith("rr wire=")
        if a != b:
            return False
    return len(io) == len(mo)


def oracle_ok(case, impl, oracle):
    """Property-level checks on the implementation's line alone: no panic; a failed operation leaves the
    read position where it was (atomicity); plus the spec decoder's verdict for single read_question cases."""
    if "panic" in impl or impl in ("timeout", "crash"):
        return False
    cur = 12
    for o in impl.split(" ; "):
        if " @" not in o:
            continue
        body, at = o.rsplit(" @", 1)
        if body.startswith("err ") and at != str(cur):
            return False
        if at.isdigit():
            cur = int(at)
    if oracle == "-":
        return True
    if oracle == "reject":
        return impl.startswith("err")
    return impl == oracle


CHECK = {
    "property": "C15",
    "props": "Props/C15.v",
    "theorems": ["c15_total", "c15_atomic", "c15_cursor_inv", "c15_total_seq", "c15_new_inv",
                 "c15_faithful_question", "c15_faithful_rr", "c15_peek_consistent", "c15_rd_lite_ok", "c15_rd_full_ok"],
    "allowed_axioms": [],
    "correspondence": {"impl_bin": "impl_c15", "extract": "Extract/ExC15.v", "driver": "run_c15.ml"},
    "gen": gen,
    "oracle_ok": oracle_ok,
    "nontrivial": nontrivial,
    "classify": classify,
    "n_samples": 6,
    "exhaustive": {"quick": False, "thorough": False},
    "rule": ("seeded messages from an independent Python builder (0-2 questions, up to 12 RRs of types A/AAAA/OPT/TSIG/NULL/"
             "unknown in several classes, compressed owners, TTLs around 2^31) with truncation / trailing junk / count edits / "
             "byte corruption, driven by op sequences (<=30 reader calls: plausible walks with peeks, mark/rewind, and random "
             "sequences); every truncation prefix of sample messages under 7 short op sequences; after every op the result and "
             "message_to_cursor().len() are compared; non-trivial = at least one successful question/record read or peek with the "
             "cursor beyond the header; distinct = distinct case line"),
    "trusted_base": [
        "Coq 8.16.1 kernel (vm_compute only in two 256-value sweeps and the regression Example)",
        "axioms: none (Closed under the global context)",
        "theorems are parametric in Rdata::read (hypotheses rd_total, rd_bounds), discharged for the modelled subset rd_lite "
        "(types without name decompression); RDATA of RFC 1035 name-bearing types is C18's model",
        "extraction: ExtrOcamlBasic only; OCaml 4.13.1",
        "correspondence: checks/c15.py + checks/dnsgen.py generators, harness/src/bin/impl_c15.rs, ocaml/run_c15.ml, tools/qv.py diff",
        "tools/gen/consts.py re-extracts the header offsets/masks from src/message/constants.rs",
    ],
    "assumptions": ["message octets < 256; Reader constructed through TryFrom (>= 12 octets)",
                    "rewind only after mark (documented panic otherwise)"],
}

MANIFEST = {
    "level_text": ("Coq theorems (no axioms) over a state-returning model of every Reader/PeekRr method: no operation panics on any "
                   "octet string (the two slice panics of the pinned tree are repaired by fix: commits and kept as a refuted witness), "
                   "a failing operation returns the reader unchanged, the cursor invariant holds along every op sequence, successful "
                   "read_question/read_rr agree field by field with an independent RFC 1035 decoder, and peek+parse equals read_rr. "
                   "Tied to the code by differential op-sequence runs (result and cursor after every call)."),
    "level_note": ("Trusted: Coq kernel, extraction, the hand-written model's fidelity (differentially tested). RDATA decompression "
                   "is a parameter of these theorems (discharged for types without embedded names; C18 covers the rest)."),
    "technique": "machine-checked proof in Coq (invariant over op sequences, refinement to an inductive decoder) + correspondence check",
}
