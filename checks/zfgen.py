"""Zone-file generators shared by checks/c23.py and checks/c24.py.

`gen_file(rng)` builds a list of abstract lines (records, $ORIGIN/$TTL/$INCLUDE directives, blank
and comment lines), renders each with random presentation choices, and computes — from the
abstract records only, never from the text — the items the parser must yield, in the canonical
output format of the runners.  `mutate`/`soup`/`junk` derive malformed inputs for C24."""

TYPES = {"A": 1, "NS": 2, "MD": 3, "MF": 4, "CNAME": 5, "SOA": 6, "MB": 7, "MG": 8, "MR": 9, "NULL": 10,
         "WKS": 11, "PTR": 12, "HINFO": 13, "MINFO": 14, "MX": 15, "TXT": 16, "AAAA": 28, "SRV": 33,
         "OPT": 41, "TSIG": 250}
TYPE_NAMES = {v: k for k, v in TYPES.items()}
CLASSES = {"IN": 1, "CH": 3, "HS": 4}
CLASS_NAMES = {v: k for k, v in CLASSES.items()}
NAME_TYPES = ["NS", "MD", "MF", "CNAME", "MB", "MG", "MR", "PTR"]


def hx(b):
    b = bytes(b)
    return b.hex() if b else "-"


# ------------------------------------------------------------------ abstract values

def wire(labels):
    out = b""
    for l in labels:
        out += bytes([len(l)]) + l
    return out + b"\0"


def rand_label(rng, hard):
    n = rng.choice([1, 1, 2, 3, 3, 4, 5, 8, rng.randint(1, 20)])
    if rng.random() < 0.03:
        n = rng.choice([62, 63])
    if hard:
        alpha = b"abcXYZ019-_*" + bytes([0, 9, 10, 13, 32, 34, 36, 40, 41, 46, 59, 64, 92, 35, 127, 128, 200, 255])
    else:
        alpha = b"abcdefghijklmnopqrstuvwxyzABCXYZ0123456789-_"
    return bytes(rng.choice(alpha) for _ in range(n))


_CUR_ORIGIN = [None]      # the origin in force where the name is going to be written (set by gen_file)


def _fill_labels(rng, room):
    """labels whose wire form (without a root octet) takes exactly `room` octets (room >= 2)"""
    out = []
    while room > 0:
        k = min(63, room - 1)
        if room - 1 - k == 1:
            k -= 1
        out.append(bytes(rng.choice(b"abcXYZ019") for _ in range(k)))
        room -= k + 1
    return out


def rand_name(rng, hard=False, maxlabels=4):
    o = _CUR_ORIGIN[0]
    if o is not None:
        r = rng.random()
        if r < 0.22:
            # a name BELOW the current origin (so that the relative form is really used)
            ls = [rand_label(rng, hard and rng.random() < 0.4) for _ in range(rng.choice([1, 1, 2]))] + list(o)
            if len(wire(ls)) <= 255:
                return ls
        elif r < 0.27 and o:
            # ... whose absolute form is exactly 255 / 254 / 253 octets long: the longest names there are
            room = rng.choice([255, 255, 254, 253]) - len(wire(o))
            if room >= 2:
                return _fill_labels(rng, room) + list(o)
        elif r < 0.34 and o:
            # the origin itself (or a name below it) in ANOTHER letter case: a different spelling of an equal name,
            # which must come back exactly as written
            v = [bytes((c ^ 0x20) if (65 <= (c & 0xDF) <= 90 and rng.random() < 0.6) else c for c in l) for l in o]
            if v != list(o):
                pre = [rand_label(rng, False)] if rng.random() < 0.3 else []
                if len(wire(pre + v)) <= 255:
                    return pre + v
    k = rng.choice([0, 1, 1, 2, 2, 3, maxlabels])
    ls = [rand_label(rng, hard and rng.random() < 0.4) for _ in range(k)]
    while len(wire(ls)) > 255:
        ls.pop()
    return ls


def rand_u(rng, bits):
    m = (1 << bits) - 1
    return rng.choice([0, 1, 2, 10, 255, 256, 3600, 86400, m, m - 1, rng.randint(0, m), rng.randint(0, min(m, 100000))]) & m


def rand_string(rng, maxlen=40):
    n = rng.choice([0, 1, 2, 3, 5, 8, rng.randint(0, maxlen)])
    if rng.random() < 0.03:
        n = rng.choice([254, 255])
    alpha = b"abcdefgh XYZ012;()\"\\.\t#$@" + bytes([10, 13, 0, 127, 128, 255])
    return bytes(rng.choice(alpha) if rng.random() < 0.5 else rng.choice(b"abcdefghijklmnop") for _ in range(n))


# ------------------------------------------------------------------ text rendering of fields

NAME_SPECIAL = set(b" \t\n\r();.\\\"@$") | set(range(0, 33)) | set(range(127, 256))


def esc_octet(rng, o, must, allow_raw=True):
    """Presentation of one octet: raw, \\c or \\DDD."""
    if must or rng.random() < 0.06:
        if chr(o).isdigit() or o == 35 or rng.random() < 0.5:      # \# is the generic-RDATA marker: never \c-escape '#'
            return b"\\%03d" % o
        return b"\\" + bytes([o])
    return bytes([o])


def render_label(rng, l):
    return b"".join(esc_octet(rng, o, o in NAME_SPECIAL) for o in l)


def render_name(rng, labels, origin, at_line_start=False):
    """Choices: absolute; relative to the origin when the origin is a proper suffix; @ for the origin."""
    forms = ["abs"]
    if origin is not None:
        if labels == origin:
            forms += ["at", "at"]
        k = len(origin)
        if len(labels) > k and labels[len(labels) - k:] == origin:
            forms += ["rel", "rel"]
    f = rng.choice(forms)
    if f == "at":
        return b"@"
    if f == "rel":
        ls = labels[:len(labels) - len(origin)]
        t = b".".join(render_label(rng, l) for l in ls)
    else:
        if not labels:
            return b"."
        t = b".".join(render_label(rng, l) for l in labels) + b"."
    if t == b"@" or (at_line_start and t[:1] == b"$"):       # lone @ means the origin; $ starts a directive
        t = b"\\%03d" % t[0] + t[1:]
    return t


def render_string(rng, s, first_in_rdata=False):
    quoted = (len(s) == 0) or rng.random() < 0.5
    if quoted:
        out = b'"'
        for o in s:
            out += esc_octet(rng, o, o in (34, 92))
        return out + b'"'
    out = b""
    for i, o in enumerate(s):
        must = o in b" \t\n\r();\\" or (i == 0 and o == 34)
        # a lone CR is field data, but CR LF is a line ending: always escape CR and LF
        out += esc_octet(rng, o, must)
    return out


def render_int(rng, v, width_choices=True):
    t = b"%d" % v
    r = rng.random()
    if r < 0.05:
        t = b"+" + t
    elif r < 0.1:
        t = b"0" * rng.randint(1, 3) + t
    return t


def render_ipv4(o):
    return b".".join(b"%d" % x for x in o)


def render_ipv6(rng, o):
    g = [o[2 * i] * 256 + o[2 * i + 1] for i in range(8)]

    def grp(x):
        t = "%x" % x
        if rng.random() < 0.2:
            t = t.rjust(rng.randint(len(t), 4), "0")
        if rng.random() < 0.3:
            t = t.upper()
        return t
    r = rng.random()
    v4tail = r < 0.15
    n = 6 if v4tail else 8
    parts = [grp(x) for x in g[:n]]
    tail = [".".join(str(x) for x in o[12:])] if v4tail else []
    # :: for one run of zero groups (any run, length >= 1), sometimes
    runs = [(i, j) for i in range(n) for j in range(i + 1, n + 1) if all(x == 0 for x in g[i:j])]
    if runs and rng.random() < 0.7:
        i, j = rng.choice(runs)
        left, right = parts[:i], parts[j:] + tail
        return (":".join(left) + "::" + ":".join(right)).encode()
    return ":".join(parts + tail).encode()


def render_mnemonic(rng, s, caseless):
    if caseless and rng.random() < 0.3:
        s = "".join(c.lower() if rng.random() < 0.5 else c for c in s)
    return s.encode()


def render_type(rng, t, caseless):
    if t in TYPE_NAMES and rng.random() < 0.85:
        return render_mnemonic(rng, TYPE_NAMES[t], caseless)
    p = "TYPE"
    if rng.random() < 0.3:
        p = "".join(c.lower() if rng.random() < 0.5 else c for c in p)
    return (p + str(t)).encode()


def render_class(rng, c, caseless):
    if c in CLASS_NAMES and rng.random() < 0.85:
        return render_mnemonic(rng, CLASS_NAMES[c], caseless)
    p = "CLASS"
    if rng.random() < 0.3:
        p = "".join(ch.lower() if rng.random() < 0.5 else ch for ch in p)
    return (p + str(c)).encode()


# ------------------------------------------------------------------ records

def rand_rdata(rng, origin_ok, hard):
    """Returns (type, class or None for any, fields) where fields is a list of typed values."""
    kind = rng.choice(["A", "A", "NS", "CNAME", "SOA", "MX", "TXT", "TXT", "AAAA", "SRV", "PTR", "HINFO", "MINFO",
                       "WKS", "CHA", "MB", "MG", "MR", "MD", "MF", "UNK", "UNK", "GEN"])
    nm = lambda: ("name", rand_name(rng, hard))
    if kind == "A":
        return 1, 1, [("ip4", bytes(rng.randrange(256) for _ in range(4)))]
    if kind in NAME_TYPES:
        return TYPES[kind], None, [nm()]
    if kind == "SOA":
        return 6, None, [nm(), nm()] + [("u32", rand_u(rng, 32)) for _ in range(5)]
    if kind == "MX":
        return 15, None, [("u16", rand_u(rng, 16)), nm()]
    if kind == "TXT":
        return 16, None, [("txt", [rand_string(rng) for _ in range(rng.choice([1, 1, 2, 3, rng.randint(1, 8)]))])]
    if kind == "AAAA":
        o = bytes(rng.choice([0, 0, 0, rng.randrange(256)]) for _ in range(16))
        return 28, 1, [("ip6", o)]
    if kind == "SRV":
        return 33, 1, [("u16", rand_u(rng, 16)), ("u16", rand_u(rng, 16)), ("u16", rand_u(rng, 16)), nm()]
    if kind == "HINFO":
        return 13, None, [("str", rand_string(rng)), ("str", rand_string(rng))]
    if kind == "MINFO":
        return 14, None, [nm(), nm()]
    if kind == "WKS":
        ports = [rng.choice([0, 7, 8, 25, 53, 80, 255, 256, 1023, rng.randint(0, 2000)]) for _ in range(rng.choice([0, 1, 2, 3, 6]))]
        if rng.random() < 0.02:
            ports.append(65535)
        return 11, 1, [("ip4", bytes(rng.randrange(256) for _ in range(4))), ("proto", rng.choice([6, 17, 0, 1, 255, rng.randrange(256)])), ("ports", ports)]
    if kind == "CHA":
        return 1, 3, [nm(), ("oct", rand_u(rng, 16))]
    if kind == "UNK":
        t = rng.choice([17, 18, 29, 99, 255, 256, 65280, 65535, rng.randint(42, 65535)])
        while t in (10, 41, 250) or t in TYPE_NAMES:
            t = rng.randint(42, 65535)
        return t, None, [("gen", bytes(rng.randrange(256) for _ in range(rng.choice([0, 0, 1, 2, 4, 16, rng.randint(0, 80)]))))]
    # GEN: a known type written in the \# form with valid RDATA for it
    t, c, fields = rand_rdata(rng, origin_ok, hard)
    while fields and fields[0][0] == "gen":
        t, c, fields = rand_rdata(rng, origin_ok, hard)
    return t, c, [("gen", rdata_octets(fields))]


def rdata_octets(fields):
    out = b""
    for k, v in fields:
        if k == "name":
            out += wire(v)
        elif k in ("ip4", "ip6", "gen"):
            out += bytes(v)
        elif k == "u32":
            out += v.to_bytes(4, "big")
        elif k in ("u16", "oct"):
            out += v.to_bytes(2, "big")
        elif k == "proto":
            out += bytes([v])
        elif k == "str":
            out += bytes([len(v)]) + v
        elif k == "txt":
            for s in v:
                out += bytes([len(s)]) + s
        elif k == "ports":
            if v:
                bm = bytearray(max(v) // 8 + 1)
                for p in v:
                    bm[p // 8] |= WKS_BIT(p)
                out += bytes(bm)
    return out


def WKS_BIT(p):
    # RFC 1035 3.4.2 / 2.3.2: bits are numbered from the most significant one (port 25 = 0x40 of the fourth octet);
    # the implementation numbers them from the least significant one: known finding C23-1 (checks/c23.py finding_matches)
    return 0x80 >> (p % 8)


def render_field(rng, k, v, origin, first):
    if k == "name":
        return [render_name(rng, v, origin)]
    if k == "ip4":
        return [render_ipv4(v)]
    if k == "ip6":
        return [render_ipv6(rng, v)]
    if k in ("u32", "u16"):
        return [render_int(rng, v)]
    if k == "oct":
        t = b"%o" % v
        if rng.random() < 0.1:
            t = b"0" * rng.randint(1, 2) + t
        return [t]
    if k == "proto":
        if v == 6 and rng.random() < 0.7:
            return [rng.choice([b"TCP", b"tcp", b"Tcp"])]
        if v == 17 and rng.random() < 0.7:
            return [rng.choice([b"UDP", b"udp"])]
        return [render_int(rng, v)]
    if k == "ports":
        return [render_int(rng, p) for p in v]
    if k == "str":
        return [render_string(rng, v, first)]
    if k == "txt":
        return [render_string(rng, s, first and i == 0) for i, s in enumerate(v)]
    if k == "gen":
        h = v.hex()
        if rng.random() < 0.4:
            h = "".join(c.upper() if rng.random() < 0.5 else c for c in h)
        words = [h]
        if v and rng.random() < 0.3:
            # RFC 3597 section 5: the hexadecimal data may be split into words with an even number of digits
            cuts = sorted({2 * rng.randint(1, len(v)) for _ in range(rng.choice([1, 1, 2, 3]))} - {2 * len(v)})
            words = [h[a:b] for a, b in zip([0] + cuts, cuts + [len(h)])]
        return [b"\\#", b"%d" % len(v)] + ([w.encode() for w in words] if v else [])
    raise ValueError(k)


class Ctx:
    def __init__(self):
        self.origin = None
        self.owner = None
        self.ttl = None
        self.cls = None
        self.default_ttl = None


def ttl_norm(v):
    return 0 if v > 0x7FFFFFFF else v


def sep(rng, st, allow_paren=True):
    """Field separator: blanks/tabs, optionally opening/closing a parenthesis group, and inside a
    group possibly comments and line breaks.  st = {"paren": bool, "lines": int, "eol": bytes}."""
    out = b""
    ws = lambda lo=1: bytes(rng.choice(b" \t") if rng.random() < 0.3 else 32 for _ in range(rng.choice([lo, 1, 1, 2, 3])))
    out += ws()
    if allow_paren and rng.random() < 0.12:
        if st["paren"]:
            out += b")" + ws(0)
            st["paren"] = False
        else:
            out += b"(" + ws(0)
            st["paren"] = True
    if st["paren"] and rng.random() < 0.5:
        for _ in range(rng.choice([1, 1, 2])):
            if rng.random() < 0.4:
                out += b";" + rand_comment(rng)
            out += st["eol"]
            st["lines"] += 1
            out += ws(0)
    if not out.strip(b" \t") and not out:
        out = b" "
    if out[-1:] not in (b" ", b"\t", b"\n", b"(", b")"):
        out += b" "
    return out


def rand_comment(rng):
    return bytes(rng.choice(b"abc ;()\"\\$@.\t\r#0123") for _ in range(rng.randint(0, 12)))


def count_lines_in(tok):
    """Line feeds inside a token (escaped or inside a quoted string) advance the line counter."""
    return tok.count(b"\n")


def gen_file(rng, caseless=False, hard=None, nlines=None):
    """Returns (file bytes, expected items as runner strings incl. the trailing after=0)."""
    if hard is None:
        hard = rng.random() < 0.4
    eol = b"\r\n" if rng.random() < 0.25 else b"\n"
    ctx = Ctx()
    out = b""
    items = []
    line = 1
    n = nlines if nlines is not None else rng.choice([1, 2, 3, 5, 8, 12])
    _CUR_ORIGIN[0] = None
    for _ in range(n):
        _CUR_ORIGIN[0] = ctx.origin
        st = {"paren": False, "lines": 0, "eol": eol}
        r = rng.random()
        text = b""
        if r < 0.08:
            text = bytes(rng.choice(b" \t") for _ in range(rng.randint(0, 3)))
            if rng.random() < 0.5:
                text += b";" + rand_comment(rng)
        elif r < 0.2:
            o = rand_name(rng, hard)
            d = rng.choice([b"$ORIGIN", b"$ORIGIN", b"$origin", b"$Origin"])
            tok = render_name(rng, o, ctx.origin)
            text = d + sep(rng, st) + tok
            st["lines"] += count_lines_in(tok)
            ctx.origin = o
        elif r < 0.3:
            v = rand_u(rng, 32)
            text = rng.choice([b"$TTL", b"$TTL", b"$ttl"]) + sep(rng, st) + render_int(rng, v)
            ctx.default_ttl = ttl_norm(v)
        elif r < 0.34:
            path = rand_string(rng, 20)
            text = rng.choice([b"$INCLUDE", b"$include"]) + sep(rng, st, False)
            tok = render_string(rng, path) if path else b'""'
            text += tok
            st["lines"] += count_lines_in(tok)
            org = ctx.origin
            if rng.random() < 0.5:
                o = rand_name(rng, hard)
                tok = render_name(rng, o, ctx.origin)
                text += sep(rng, st) + tok
                st["lines"] += count_lines_in(tok)
                org = o
            items.append("I%d p=%s o=%s" % (line, hx(path), name_str(org) if org is not None else "none"))
        else:
            t, c, fields = rand_rdata(rng, ctx.origin is not None, hard)
            # owner
            if ctx.owner is not None and rng.random() < 0.3:
                owner = ctx.owner
                text = bytes(rng.choice(b" \t") for _ in range(rng.randint(1, 3)))
                first_sep = b""
            else:
                owner = rand_name(rng, hard)
                tok = render_name(rng, owner, ctx.origin, at_line_start=True)
                text = tok
                st["lines"] += count_lines_in(tok)
                first_sep = None
            # ttl / class: explicit or inherited
            want_ttl = rand_u(rng, 32)
            cls = c if c is not None else rng.choice([1, 1, 1, 3, 4, 2, 254, rng.randint(0, 65535)])
            have_default = ctx.default_ttl is not None or ctx.ttl is not None
            show_ttl = (not have_default) or rng.random() < 0.5
            show_cls = (ctx.cls is None) or (ctx.cls != cls) or rng.random() < 0.5
            if not show_ttl:
                ttl = ctx.default_ttl if ctx.default_ttl is not None else ctx.ttl
            else:
                ttl = ttl_norm(want_ttl)
            toks = []
            if show_ttl:
                toks.append(render_int(rng, want_ttl))
            if show_cls:
                toks.append(render_class(rng, cls, caseless))
            if len(toks) == 2 and rng.random() < 0.5:
                toks.reverse()
            toks.append(render_type(rng, t, caseless))
            first = True
            for k, v in fields:
                for tok in render_field(rng, k, v, ctx.origin, first):
                    toks.append(tok)
                    first = False
            for i, tok in enumerate(toks):
                if i == 0 and first_sep is not None:
                    # after leading whitespace the first field follows directly (parens allowed too)
                    if rng.random() < 0.1:
                        text += sep(rng, st)
                else:
                    s = sep(rng, st)
                    if text.endswith(b'"') and tok[:1] != b'"' and rng.random() < 0.0:
                        s = b""
                    text += s
                text += tok
                st["lines"] += count_lines_in(tok)
            items.append("R%d o=%s t=%d c=%d y=%d d=%s v=ok" % (line, name_str(owner), ttl, cls, t, hx(rdata_octets(fields))))
            ctx.owner, ctx.ttl, ctx.cls = owner, ttl, cls
        # close an open group, trailing blanks / comment, end of line
        if st["paren"]:
            text += sep(rng, st, False) + b")"
            st["paren"] = False
        if rng.random() < 0.3:
            text += bytes(rng.choice(b" \t") for _ in range(rng.randint(1, 3)))
        if rng.random() < 0.2:
            text += b";" + rand_comment(rng)
        out += text
        line += st["lines"]
        last = _ == n - 1
        if not (last and rng.random() < 0.3):
            out += eol
            line += 1
    return out, items


def name_str(labels):
    return "%s/%d" % (hx(wire(labels)), len(labels) + 1)


# ------------------------------------------------------------------ malformed inputs (C24)

VOCAB = [b"$ORIGIN", b"$TTL", b"$INCLUDE", b"$FOO", b"@", b".", b"..", b"a.", b"a", b"a.b", b"example.org.", b"IN", b"CH", b"HS", b"in",
         b"CLASS1", b"CLASS", b"CLASS65536", b"TYPE1", b"TYPE", b"TYPE65536", b"TYPE10", b"TYPE41", b"TYPE250", b"A", b"AAAA", b"NS",
         b"SOA", b"MX", b"TXT", b"SRV", b"WKS", b"HINFO", b"MINFO", b"NULL", b"OPT", b"TSIG", b"PTR", b"CNAME", b"MB", b"\\#", b"\\# 0",
         b"\\# 4 01020304", b"\\# 3 0102", b"\\# 1 zz", b"0", b"1", b"3600", b"4294967295", b"4294967296", b"65535", b"65536", b"+5", b"-1",
         b"1.2.3.4", b"1.2.3", b"256.1.1.1", b"01.2.3.4", b"::1", b"::", b"1::2::3", b"1:2:3:4:5:6:7:8", b"::ffff:1.2.3.4", b"(", b")",
         b";", b"; comment", b"\"", b"\"str\"", b"\"a b\"", b"\\", b"\\0", b"\\00", b"\\000", b"\\256", b"\\255", b"\\a", b"\\.", b"TCP",
         b"udp", b"6", b"0777", b"177777", b"200000", b"8", b"\xff", b"\xc3\xa9", b"\xc3", b"x" * 64, b"x" * 63, b"\r", b"\r\n", b"\n",
         b"\t", b" "]


def soup(rng):
    n = rng.choice([1, 2, 3, 5, 8, 13, 20])
    out = b""
    for _ in range(n):
        out += rng.choice(VOCAB)
        out += rng.choice([b" ", b" ", b" ", b"\t", b"\n", b"\n", b"", b"\r\n", b" ( ", b" ) "])
    return out


def junk(rng):
    n = rng.choice([0, 1, 2, 3, 5, 10, 30])
    alpha = b" \t\n\r();\"\\$@.#0123456789abcINA" + bytes([0, 255, 128, 195, 169])
    return bytes(rng.choice(alpha) if rng.random() < 0.8 else rng.randrange(256) for _ in range(n))


def mutate(rng, data):
    data = bytearray(data)
    for _ in range(rng.choice([1, 1, 1, 2, 3])):
        r = rng.random()
        if not data:
            data += rng.choice(VOCAB)
            continue
        i = rng.randrange(len(data) + 1)
        if r < 0.25:
            del data[i:]                                   # truncation
        elif r < 0.45:
            ins = rng.choice(VOCAB) if rng.random() < 0.5 else bytes([rng.choice(b" \t\n\r();\"\\$@.#0a") if rng.random() < 0.8 else rng.randrange(256)])
            data[i:i] = ins
        elif r < 0.65:
            j = min(len(data), i + rng.choice([1, 1, 2, 3, 8]))
            del data[i:j]
        elif r < 0.85 and i < len(data):
            data[i] = rng.choice(b" \t\n\r();\"\\$@.#0a") if rng.random() < 0.8 else rng.randrange(256)
        else:
            j = rng.randrange(len(data) + 1)
            a, b = min(i, j), max(i, j)
            data[a:a] = data[a:b]                          # duplicate a slice
    return bytes(data)
