"""Catalog / zone / query generators and response normalisation shared by C05, C04 and C02.

Catalog syntax is harness/src/srvcase.rs's: `class,apexwire,L[,owner/type/ttl/rdata+...];...`.
Zones are structured: SOA with small/large/top-bit MINIMUM and TTLs on either side of it, apex NS,
hosts with A/AAAA, delegations with name servers inside the child (glue), in a sibling delegation,
elsewhere in the parent, and outside the zone; wildcards (A/TXT/CNAME/MX), empty non-terminals,
CNAME chains of 1..10 links ending at a host, a missing name, an empty non-terminal, a wildcard,
below a delegation, outside the zone, above the apex, or looping; MX/SRV/NS/MB targets with and
without addresses; mixed-case spellings; classes IN / CH / 7; occasionally RDATA that is not a
domain name where query.rs parses one."""
from dnsgen import u16, u32, enc_name, hx

T_A, T_NS, T_MD, T_CNAME, T_SOA, T_MB, T_MX, T_TXT, T_AAAA, T_SRV = 1, 2, 3, 5, 6, 7, 15, 16, 28, 33
QTYPES = [1, 28, 2, 15, 33, 5, 16, 6, 255, 99]

APEXES = [[], [b"a"], [b"b", b"a"], [b"Ex"], [b"z" * 20, b"a"]]


def flip(rng, labels, p):
    out = []
    for l in labels:
        out.append(bytes((c ^ 0x20) if (65 <= (c & 0xDF) <= 90 and rng.random() < p) else c for c in l))
    return out


def wirehex(labels):
    return hx(enc_name(labels))


def soa_rdata(rng, apex, minimum):
    return enc_name([b"ns"] + apex) + enc_name([b"hostmaster"] + apex) + u32(rng.choice([1, 2020010101])) + \
        u32(7200) + u32(900) + u32(1209600) + u32(minimum)


class Zone:
    def __init__(self, rng, apex, cls, dirty):
        self.rng, self.apex, self.cls, self.dirty = rng, apex, cls, dirty
        self.recs = []          # (owner labels, type, ttl, rdata octets)
        self.owners = []

    def add(self, rel, ty, rd, ttl=None):
        rng = self.rng
        owner = flip(rng, rel + self.apex, 0.15)
        if ttl is None:
            ttl = rng.choice([60, 300, 3600, 3600, 86400])
        self.recs.append((owner, ty, ttl, list(rd)))
        self.owners.append(rel + self.apex)

    def a_rdata(self):
        rng = self.rng
        if self.cls == 3:
            return enc_name([b"ch", b"net"]) + u16(rng.choice([1, 2, 513]))     # CH A: <name><u16>
        return [rng.choice([10, 192, 127]), 0, rng.randrange(3), rng.randrange(1, 5)]

    def addrs(self, rel, p_a=0.8, p_aaaa=0.4):
        rng = self.rng
        if rng.random() < p_a:
            for _ in range(rng.choice([1, 1, 2])):
                self.add(rel, T_A, self.a_rdata(), ttl=60)
        if rng.random() < p_aaaa:
            self.add(rel, T_AAAA, [0x20, 0x01, 0x0d, 0xb8] + [0] * 11 + [rng.randrange(1, 4)], ttl=120)

    def name(self, rel, absolute=None):
        """wire form of a target name (mixed case sometimes)"""
        labels = absolute if absolute is not None else rel + self.apex
        return enc_name(flip(self.rng, labels, 0.2))

    def bad_name(self):
        rng = self.rng
        return rng.choice([[], [5], [1, 97], [0x40] + [97] * 64 + [0], [1, 97, 0, 0xff], [0xc0, 0x0c],
                           enc_name([b"x" * 63] * 4)])

    def render(self):
        parts = [f"{wirehex(o)}/{ty}/{ttl}/{hx(rd)}" for (o, ty, ttl, rd) in self.recs]
        e = f"{self.cls},{wirehex(self.apex)},L"
        return e + ("," + "+".join(parts) if parts else "")


def gen_zone(rng, apex=None, cls=None, child_cuts=()):
    apex = rng.choice(APEXES) if apex is None else apex
    cls = rng.choice([1, 1, 1, 1, 3, 7]) if cls is None else cls
    dirty = rng.random() < 0.12 and cls in (1, 3)
    z = Zone(rng, apex, cls, dirty)
    # SOA
    r = rng.random()
    if r < 0.93:
        soa_ttl = rng.choice([3, 60, 3600, 86400])
        minimum = rng.choice([5, 0, 60, 3600, 86400, 1 << 31, (1 << 32) - 1, 2147483647])
        rd = soa_rdata(rng, apex, minimum)
        if dirty and rng.random() < 0.3:
            rd = rng.choice([rd[:-1], rd + [0], rd[:len(rd) - 20], [], [5, 1]])
        z.add([], T_SOA, rd, ttl=soa_ttl)
        if rng.random() < 0.05:
            z.add([], T_SOA, soa_rdata(rng, apex, 7), ttl=soa_ttl)
    # apex NS / MX
    if rng.random() < 0.85:
        z.add([], T_NS, z.name([b"ns"]), ttl=3600)
        if rng.random() < 0.5:
            z.add([], T_NS, z.name(None, [b"ns", b"elsewhere"]), ttl=3600)
    hosts = [[b"w"], [b"ns"], [b"mx"], [b"x", b"y"], [b"srv"]]
    for h in hosts:
        if rng.random() < 0.75:
            z.addrs(h)
    if rng.random() < 0.6:
        z.add([b"w"], T_TXT, [3, 116, 120, 116], ttl=60)
    # wildcards
    if rng.random() < 0.45:
        wrel = rng.choice([[b"*"], [b"*", b"w"], [b"*", b"y"]])
        k = rng.random()
        if k < 0.4:
            z.addrs(wrel, 1.0, 0.3)
        elif k < 0.6:
            z.add(wrel, T_TXT, [1, 119], ttl=60)
        elif k < 0.8:
            z.add(wrel, T_CNAME, z.name(rng.choice([[b"w"], [b"nx"], [b"c1"], [b"q", b"k"]])), ttl=60)
        else:
            z.add(wrel, T_MX, u16(5) + z.name([b"mx"]), ttl=60)
    # delegations
    cuts = [list(c) for c in child_cuts]
    for _ in range(rng.choice([0, 1, 1, 2])):
        cuts.append(rng.choice([[b"d"], [b"e"], [b"d", b"w"], [b"e", b"d"]]))
    for c in cuts:
        targets = []
        for _ in range(rng.choice([1, 2, 3])):
            k = rng.random()
            if k < 0.4:
                t = [b"ns"] + c                                   # inside the delegated zone: glue required
            elif k < 0.55:
                t = [rng.choice([b"a", b"ns2"])] + c
            elif k < 0.7:
                t = [b"ns"]                                       # elsewhere in the parent
            elif k < 0.8:
                t = [b"ns"] + (cuts[0] if cuts[0] != c else [b"e"])     # inside a sibling delegation
            elif k < 0.9:
                t = None                                          # outside the zone
            else:
                t = [b"nx"]
            targets.append(t)
        for t in targets:
            rd = z.name(None, [b"ns", b"out"]) if t is None else z.name(t)
            if dirty and rng.random() < 0.25:
                rd = z.bad_name()
            z.add(c, T_NS, rd, ttl=600)
            if t is not None and rng.random() < 0.7 and (len(t) > len(c) or t[-len(c):] != c or True):
                z.addrs(t, 0.8, 0.5)
        if rng.random() < 0.3:
            z.addrs([b"www"] + c)                                 # occluded data below the cut
    # CNAME chains
    for ci in range(rng.choice([0, 1, 1, 2])):
        n = rng.choice([1, 2, 3, 7, 8, 9, 10, rng.randint(1, 10)])
        pre = b"c" if ci == 0 else b"k"
        names = [[pre + str(i + 1).encode()] for i in range(n)]
        end = rng.random()
        if end < 0.3:
            final = [b"w"]
        elif end < 0.4:
            final = [b"nx"]
        elif end < 0.48:
            final = [b"y"]                                        # empty non-terminal (if x.y exists)
        elif end < 0.56:
            final = [b"anything", b"w"]                           # may hit *.w
        elif end < 0.66 and cuts:
            final = [b"host"] + cuts[0]                           # below a delegation: referral
        elif end < 0.74:
            final = None                                          # outside the zone
        elif end < 0.80:
            final = "above"                                       # fewer labels than the apex
        elif end < 0.9:
            final = names[rng.randrange(n)]                       # loop
        else:
            final = [b"mx"]
        for i in range(n):
            if i + 1 < n:
                rd = z.name(names[i + 1])
            elif final is None:
                rd = z.name(None, [b"host", b"other"])
            elif final == "above":
                rd = z.name(None, apex[1:] if apex else [b"x"])
            else:
                rd = z.name(final)
            if dirty and rng.random() < 0.1:
                rd = z.bad_name()
            z.add(names[i], T_CNAME, rd, ttl=rng.choice([30, 300]))
        if rng.random() < 0.1:
            z.add(names[0], T_CNAME, z.name([b"w"]), ttl=30)     # a second CNAME record (ignored by the chase)
    # MX / SRV / NS-like records with targets
    for _ in range(rng.choice([1, 2, 3, 4])):
        owner = rng.choice([[], [b"w"], [b"mail"], [b"x", b"y"]])
        ty = rng.choice([T_MX, T_MX, T_SRV, T_MB, T_MD, T_NS if owner == [] else T_MX])
        tgt = rng.choice([[b"mx"], [b"mx"], [b"w"], [b"w"], [b"ns"], [b"nx"], [b"srv"], [b"anything", b"w"], None] + ([[b"ns"] + cuts[0]] if cuts else []))
        nm = z.name(None, [b"mail", b"out"]) if tgt is None else z.name(tgt)
        if dirty and rng.random() < 0.3 and ty in (T_MX, T_SRV):
            nm = z.bad_name()
        if ty == T_MX:
            rd = u16(len(z.recs)) + nm                            # distinct preferences: never equal RDATA
        elif ty == T_SRV:
            rd = u16(len(z.recs)) + u16(5) + u16(443) + nm
        else:
            rd = nm
        z.add(owner, ty, rd, ttl=300)
    if rng.random() < 0.35:
        # several records with NAMES IN THEIR RDATA in one RRset at `w` / `mx`, where CNAME chains end: the chase then
        # writes a multi-record MX / SRV RRset whose owner hint is "the name most recently written in RDATA"
        owner = rng.choice([[b"w"], [b"w"], [b"mx"]])
        ty = rng.choice([T_MX, T_MX, T_SRV])
        for j in range(rng.randint(2, 3)):
            nm = z.name(rng.choice([[b"mx"], [b"ns"], [b"w"], [b"srv"]]))
            z.add(owner, ty, (u16(1000 + j) + nm) if ty == T_MX else (u16(1000 + j) + u16(5) + u16(443) + nm), ttl=300)
    if rng.random() < 0.15:
        z.add([b"w"], 99, [1, 2, 3], ttl=60)
    if rng.random() < 0.05:
        z.recs.append((flip(rng, [b"w"] + apex, 0.1), T_A, 61, z.a_rdata()))       # TTL mismatch: rejected
    if rng.random() < 0.05:
        z.recs.append(([b"out", b"side"], T_A, 60, z.a_rdata()))                   # not in the zone: rejected
    rng.shuffle(z.recs)
    return z


def gen_catalog(rng):
    """1-3 zones, often nested (a child zone of a delegation of the parent), sometimes another class"""
    zones = []
    parent_apex = rng.choice(APEXES)
    r = rng.random()
    if r < 0.45:
        zones.append(gen_zone(rng, parent_apex))
    else:
        cut = rng.choice([[b"d"], [b"e"]])
        p = gen_zone(rng, parent_apex, None, child_cuts=[cut])
        zones.append(p)
        zones.append(gen_zone(rng, cut + parent_apex, p.cls if rng.random() < 0.85 else rng.choice([1, 3])))
        if rng.random() < 0.2:
            zones.append(gen_zone(rng, [b"q"] + cut + parent_apex, p.cls))
    rng.shuffle(zones)
    return zones


def query_names(rng, zones, exhaustive=True):
    """every owner, every ancestor, and every name within two labels of an owner (drawn from the labels in use)"""
    labels = set()
    owners = set()
    for z in zones:
        for o in z.owners + [z.apex]:
            owners.add(tuple(o))
            for l in o:
                labels.add(l)
    labels |= {b"nx", b"*", b"anything"}
    labels = sorted(labels)
    names = set()
    for o in owners:
        o = list(o)
        for k in range(len(o) + 1):
            names.add(tuple(o[k:]))
        for l1 in labels:
            names.add(tuple([l1] + o))
            if len(o) >= 1:
                names.add(tuple([l1] + o[1:]))
    names = sorted(names)
    extra = []
    for o in sorted(owners):
        for _ in range(2):
            extra.append(tuple([rng.choice(labels), rng.choice(labels)] + list(o)))
    return [list(n) for n in names + extra]


# ---------------------------------------------------------------- response normalisation

NAME_ONLY = {2, 3, 4, 5, 7, 8, 9, 12}


def _lower(bs):
    return bytes(c + 32 if 65 <= c <= 90 else c for c in bs)


def _name_end(rd, i):
    while i < len(rd):
        l = rd[i]
        if l == 0:
            return i + 1
        if l > 63:
            return None
        i += 1 + l
    return None


def norm_rdata(ty, rdhex):
    """names the Writer may compress (RFC 3597 §4 types) are compared modulo ASCII case: compression
    against an earlier, differently spelled occurrence changes the spelling the Reader reports"""
    if rdhex == "-":
        return rdhex
    try:
        rd = bytes.fromhex(rdhex)
    except ValueError:
        return rdhex                      # a symbolic rendering (TSIG(...)), not octets
    if ty in NAME_ONLY:
        return _lower(rd).hex()
    if ty == 15 and len(rd) >= 2:
        return (rd[:2] + _lower(rd[2:])).hex()
    if ty in (6, 14):
        e1 = _name_end(rd, 0)
        e2 = _name_end(rd, e1) if e1 is not None else None
        if e2 is not None:
            return (_lower(rd[:e2]) + rd[e2:]).hex()
    return rdhex


def norm_rr(e):
    p = e.split("/")
    if len(p) != 5:
        return e
    try:
        owner = _lower(bytes.fromhex(p[0])).hex() if p[0] != "-" else p[0]
        int(p[1])
    except ValueError:
        return e
    return "/".join([owner, p[1], p[2], p[3], norm_rdata(int(p[1]), p[4])])


def norm_section(l, sort):
    out = [norm_rr(x) for x in l]
    return sorted(out) if sort else out
