"""Suite `signed` (shared by C02, C04 and C01): CORRECTLY SIGNED queries against the real server, both transports.

There is no model of TSIG-bearing response octets (the Writer model has no signing mode; HMAC is a parameter of the
server model), so this suite is ORACLE-DECIDED: the extracted specification functions `wf_response` (C02) and
`pair_check_signed` (C04, Spec/RespSigS.v) are evaluated on the implementation's own output.  The model column only
names the oracle; `corr_eq` is constantly true; a `panic` / `timeout` / `crash` / `bad ...` implementation line is
always a violation.

Case line (harness/src/bin/impl_sig.rs):
  <edns> <their|-> <catalog> <keyname,alg,keyhex> <id> <rd> <qnamewire> <qtype> <qclass> <dt>
(dt: seconds added to the clock for the request's time signed; outside +-300 the server answers BADTIME, signed, with
6 octets of other data)
The responses carry the server's clock (TSIG time signed, MAC), so an implementation line cannot be recomputed:
the oracle runner is kept as a co-process and asked about exactly the line the framework obtained."""
import os, random, subprocess, atexit
import qv, qgen, srvgen
from dnsgen import enc_name, hx

ALGS = {"1": (b"hmac-sha1", 20), "256": (b"hmac-sha256", 32)}
RUNNER_NAME = "SIG"                     # .build/ocaml/sig/run  (ocaml/run_sig.ml over Extract/ExSig.v)
BAD = srvgen.BAD


# ---------------------------------------------------------------- names

def wire_len(labels):
    return 1 + sum(1 + len(l) for l in labels)


def labels_of_len(rng, n, ch):
    """labels whose wire form (with the root octet) is exactly n octets long (n >= 3)"""
    out, left = [], n - 1
    while left > 0:
        k = min(63, left - 1)
        if left - 1 - k == 1:
            k -= 1
        out.append(bytes([rng.choice(ch)]) * k)
        left -= k + 1
    return out


def pad_to(rng, suffix, n, ch):
    """a name of exactly n octets (when possible) ending in `suffix`"""
    room = n - wire_len(suffix)
    if room < 2:
        return list(suffix)
    return labels_of_len(rng, room + 1, ch) + list(suffix)


def parse_name(rd, i=0):
    labels = []
    while i < len(rd):
        l = rd[i]
        if l == 0:
            return labels, i + 1
        if l > 63 or i + 1 + l > len(rd):
            return None, None
        labels.append(bytes(rd[i + 1:i + 1 + l]))
        i += 1 + l
    return None, None


NAME_AT = {2: 0, 3: 0, 4: 0, 5: 0, 7: 0, 8: 0, 9: 0, 12: 0, 15: 2, 33: 6, 6: 0}


def rdata_names(recs):
    """the domain names in the RDATA of the zone's records (NS/CNAME/MX/SRV/... targets, SOA MNAME/RNAME), in zone order"""
    out = []
    for (_o, ty, _ttl, rd) in recs:
        if ty in NAME_AT and len(rd) > NAME_AT[ty]:
            nm, end = parse_name(rd, NAME_AT[ty])
            if nm and wire_len(nm) <= 255:
                out.append(nm)
                if ty == 6:
                    nm2, _ = parse_name(rd, end)
                    if nm2 and wire_len(nm2) <= 255:
                        out.append(nm2)
    return out


def clip_name(labels):
    """drop leading labels until the name is a valid one (<= 255 octets); at least 3 octets"""
    labels = [l for l in labels if 1 <= len(l) <= 63]
    while wire_len(labels) > 255:
        labels = labels[1:]
    return labels if wire_len(labels) >= 3 else [b"k"]


def pick_key_name(rng, apex, qname, targets):
    """3..255 octets: unrelated (short / up to 255 octets), sharing the apex, sharing labels with a name occurring in the
    zone's RDATA (the name itself, a child of it, a sibling), sharing labels with the QNAME"""
    r = rng.random()
    if r < 0.10:
        k = rng.choice([[b"k"], [b"key", b"tsig"], [b"K", b"e", b"y"], [b"x" * 63]])
    elif r < 0.22:
        k = labels_of_len(rng, rng.choice([200, 253, 254, 255, 255, rng.randint(3, 255)]), b"kK")
    elif r < 0.32:
        k = rng.choice([[b"k"] + apex, [b"key", b"tsig"] + apex,
                        pad_to(rng, apex, rng.choice([255, 254, 128, rng.randint(10, 255)]), b"k")])
    elif r < 0.86 and targets:
        # biased towards the names written last (the most recent name in RDATA when a response is cut short)
        j = len(targets) - 1 - min(len(targets) - 1, int(rng.expovariate(0.7)))
        t = targets[j] if rng.random() < 0.75 else rng.choice(targets)
        v = rng.random()
        if v < 0.3:
            k = list(t)
        elif v < 0.65:
            k = [rng.choice([b"k", b"key", b"K" * 20])] + list(t)
        elif v < 0.8:
            k = [b"k"] + list(t[1:])
        else:
            k = pad_to(rng, list(t), rng.choice([255, 200, rng.randint(min(255, wire_len(t)), 255)]), b"k")
    else:
        v = rng.random()
        if v < 0.3:
            k = list(qname)
        elif v < 0.6:
            k = [b"k"] + list(qname[1:])
        else:
            k = [b"k"] + list(qname)
    return qgen.flip(rng, clip_name(k), 0.1)


def tsig_len(key_labels, alg):
    """octets the Writer reserves for the response's TSIG RR (owner uncompressed): owner + 10 + algorithm + 16 + MAC"""
    name, mac = ALGS[alg]
    return wire_len(key_labels) + 10 + len(name) + 2 + 16 + mac


def key_field(rng, key_labels, alg):
    secret = [rng.randrange(256) for _ in range(rng.choice([1, 16, 20, 32, 64, 100]))]
    return f"{hx(enc_name(key_labels))},{alg},{hx(secret)}"


STALE = [-10000, -301, 301, 10000, -100000000]      # seconds off the clock: outside the fudge window of 300 -> BADTIME
FRESH = [0, 0, 0, 0, -299, 299]


def case_line(rng, server, their, catalog, key_labels, alg, qname, qtype, qclass, stale=None):
    """stale: None = 6% of the requests carry a time outside the fudge window"""
    if stale is None:
        stale = rng.random() < 0.06
    dt = rng.choice(STALE) if stale else rng.choice(FRESH)
    return (f"{server} {their if their is not None else '-'} {catalog} {key_field(rng, key_labels, alg)} "
            f"{rng.randrange(65536)} {rng.choice([0, 1])} {hx(enc_name(qname))} {qtype} {qclass} {dt}")


# ---------------------------------------------------------------- generator

def gen_tsig_edge(rng):
    """question + response TSIG RR within a few octets of the limit in effect (either side): the TSIG RR itself does
    not fit / only just fits; the QNAME owns records, is a wildcard match, or does not exist"""
    import c04
    server = rng.choice([512, 512, 600, 1232, rng.randint(512, 700)])
    their = rng.choice([None, None, 0, 512, rng.randint(512, 700), 4096])
    limit = 512 if their is None else max(512, min(their, server))
    opt = their is not None
    alg = rng.choice(["1", "256"])
    apex = rng.choice([[b"a"], [], [b"z" * 30, b"a"]])
    kind = rng.random()
    if kind < 0.5:
        key = labels_of_len(rng, rng.choice([255, 255, 253, rng.randint(180, 255)]), b"kK")
    elif kind < 0.8:
        key = pad_to(rng, apex, rng.choice([255, 254, rng.randint(180, 255)]), b"k")
    else:
        key = None
    z = c04.Z(apex)
    # a third of them with a time outside the fudge window: SIGNED BADTIME response, 6 octets of other data more
    stale = rng.random() < 0.35
    extra = 6 if stale else 0
    # QNAME length such that 12 + question + OPT + TSIG = limit + delta
    r = rng.random()
    delta = rng.randint(-2, 2) if r < 0.5 else rng.randint(-12, 12) if r < 0.85 else rng.randint(-60, 60)
    if key is None:
        # the key shares the QNAME (compressible in the request and in the response)
        ql = rng.choice([255, 254, rng.randint(150, 255)])
        qname = pad_to(rng, apex, ql, b"q")
        key = clip_name([b"k"] + qname[1:]) if rng.random() < 0.5 else list(qname)
    else:
        want = limit + delta - 12 - 4 - (11 if opt else 0) - tsig_len(key, alg) - extra
        ql = max(wire_len(apex) + 2, min(255, want))
        qname = pad_to(rng, apex, ql, b"q")
    what = rng.random()
    if what < 0.15 and not stale:
        # the QNAME is in no zone of the catalog: REFUSED, a complete signed response without any record
        z = c04.Z([b"elsewhere"])
    elif what < 0.45:
        z.add(qname[:len(qname) - len(apex)], 1, 60, c04.a_rd(1))
        if rng.random() < 0.3:
            z.add(qname[:len(qname) - len(apex)], 16, 60, [3, 116, 120, 116])
    elif what < 0.6 and len(qname) - len(apex) >= 2:
        z.add([b"*"] + qname[1:len(qname) - len(apex)], 1, 60, c04.a_rd(2))
    elif what < 0.75 and len(qname) - len(apex) >= 2:
        # a delegation above the QNAME: referral with glue
        cut = qname[1:len(qname) - len(apex)]
        ns = [b"ns"] + cut if wire_len([b"ns"] + cut + apex) <= 255 else [b"ns"]
        z.add(cut, 2, 600, enc_name(ns + apex))
        z.add(ns, 1, 60, c04.a_rd(3))
    qtype = rng.choice([1, 1, 16, 255, 28])
    return case_line(rng, server, their, z.render(), key, alg, qgen.flip(rng, qname, 0.05), qtype, 1, stale)


def gen_sweep(rng, d):
    """one TXT RRset tuned so that the complete SIGNED response is EXACTLY limit + d octets long; the key name shares no
    label with the QNAME or the zone (nothing of the TSIG RR is compressible: reserved size = written size)"""
    import c04
    r = rng.random()
    if r < 0.4:
        server, their, limit = rng.choice([512, 1232, 4096]), None, 512
    else:
        limit = rng.choice([512, 513, 700, 1232, rng.randint(512, 2000)])
        server = rng.choice([limit, limit, 4096, rng.randint(limit, 65535)])
        their = limit if server > limit or rng.random() < 0.5 else rng.choice([4096, 65535, rng.randint(limit, 65535)])
    opt = their is not None
    alg = rng.choice(["1", "256"])
    apex = rng.choice([[b"a"], [b"z" * 30, b"a"], []])
    key = labels_of_len(rng, rng.choice([3, 3, 9, 40, 120, rng.randint(3, 200)]), b"kK")
    qname = [b"big"] + apex
    base = 12 + wire_len(qname) + 4 + (11 if opt else 0) + tsig_len(key, alg)
    payload = limit + d - base
    z = c04.Z(apex)
    i = 0
    while payload >= 14:
        chunk = payload if payload <= 268 else min(268, payload - 14)
        z.add([b"big"], 16, 300, [chunk - 13] + [97 + (i % 26)] * (chunk - 13))
        payload -= chunk
        i += 1
    return case_line(rng, server, their, z.render(), key, alg, qgen.flip(rng, qname, 0.05), 16, 1, False)


def gen(rng, tier, n=None, m=None, e=None, x=None):
    import c04
    quick = tier == "quick"
    n = n if n is not None else (900 if quick else 30000)
    m = m if m is not None else (8 if quick else 200)
    e = e if e is not None else (300 if quick else 8000)
    x = x if x is not None else (20 if quick else 400)
    # (0) the exact sweep: complete signed response of limit-4 .. limit+4 octets, every offset x times
    for _ in range(x):
        for d in range(-4, 5):
            yield gen_sweep(rng, d)
    # (1) the size-tuned scenarios of C04, re-tuned so that the complete SIGNED response (TSIG owner uncompressed, as the
    # Writer reserves it) is within +-40 octets of the limit in effect.  The key name is chosen from the zone's names and
    # the zone's sizes depend on the key's length: the scenario is replayed from the same generator state until the two
    # agree (the structural choices - scenario kind, which RDATA name the key shares, how - are the same in every pass).
    for _ in range(n):
        server, their, limit = c04.pick_limits(rng)
        opt = their is not None
        alg = rng.choice(["1", "256"])
        kseed = rng.getrandbits(64)
        approx = tsig_len([b"k"] * rng.choice([1, 5, 15]), alg)
        st = rng.getstate()
        for _pass in range(4):
            r2 = random.Random()
            r2.setstate(st)
            z, qn, qt = next(iter(c04.scenarios(r2, max(100, limit - approx), opt)))
            key = pick_key_name(random.Random(kseed), z.apex, qn, rdata_names(z.recs))
            actual = tsig_len(key, alg)
            if actual == approx:
                break
            approx = actual
        rng.setstate(r2.getstate())
        yield case_line(rng, server, their, z.render(), key, alg, qgen.flip(rng, qn, 0.05), qt, z.cls)
    # (2) question + TSIG RR around the limit
    for _ in range(e):
        yield gen_tsig_edge(rng)
    # (3) the structured catalogs of C05 (nested zones, wildcards, CNAME chains and loops, ...) under random negotiation
    for _ in range(m):
        zones = qgen.gen_catalog(rng)
        cat = ";".join(zz.render() for zz in zones)
        names = qgen.query_names(rng, zones)
        owners = [list(o) for zz in zones for o in zz.owners + [zz.apex]]
        targets = [t for zz in zones for t in rdata_names(zz.recs)]
        dirty = any(zz.dirty for zz in zones)
        for nm in owners + rng.sample(names, min(len(names), 30)):
            server, their, limit = c04.pick_limits(rng)
            cl = rng.choice([zz.cls for zz in zones])
            qt = rng.choice(c04.DIRTY_QTYPES if dirty else qgen.QTYPES)
            if rng.random() < 0.1:
                nm = clip_name(pad_to(rng, nm, rng.choice([255, 254, rng.randint(100, 255)]), b"q"))
            key = pick_key_name(rng, rng.choice(zones).apex, nm, targets)
            yield case_line(rng, server, their, cat, key, rng.choice(["1", "256"]), qgen.flip(rng, nm, 0.1), qt, cl)


# ---------------------------------------------------------------- the oracle co-process

class CoProc:
    """`run <flag>` kept alive: one query line in, one verdict line out"""
    def __init__(self, flag):
        self.flag, self.p, self.cache = flag, None, {}
        self.runner = os.path.join(qv.BUILD, "ocaml", RUNNER_NAME.lower(), "run")

    def _start(self):
        if self.p is None or self.p.poll() is not None:
            self.p = subprocess.Popen([self.runner, self.flag], stdin=subprocess.PIPE, stdout=subprocess.PIPE,
                                      stderr=subprocess.DEVNULL, text=True, bufsize=1)
            atexit.register(self.close)

    def close(self):
        if self.p is not None and self.p.poll() is None:
            try:
                self.p.stdin.close()
                self.p.wait(timeout=5)
            except Exception:
                self.p.kill()
        self.p = None

    def ask(self, line):
        if line in self.cache:
            return self.cache[line]
        if not os.path.exists(self.runner):
            return "unavailable"
        try:
            self._start()
            self.p.stdin.write(line + "\n")
            self.p.stdin.flush()
            out = self.p.stdout.readline().rstrip("\n")
        except (OSError, ValueError):
            out = ""
        if out == "":
            self.close()
            out = "oracle-crashed"
        self.cache[line] = out
        return out


def split3(impl):
    """'U <resp> ## T <resp> ## Q req=..' -> (u, t, requesthex)"""
    parts = impl.split(" ## ")
    if len(parts) < 2 or not parts[0].startswith("U ") or not parts[1].startswith("T "):
        return None, None, None
    req = parts[2][6:] if len(parts) > 2 and parts[2].startswith("Q req=") else None
    return parts[0][2:], parts[1][2:], req


def raw_of(resp):
    for tok in resp.split():
        if tok.startswith("raw="):
            return tok[4:]
    return None


WF = CoProc("--oracle02")
PAIR = CoProc("--oracle04s")
AT = CoProc("--oracle04s-at")


def wf_verdicts(impl):
    u, t, _ = split3(impl)
    out = []
    for r in (u, t):
        if r is not None and r.startswith("resp"):
            raw = raw_of(r)
            out.append(WF.ask(raw) if raw else "bad:no-octets")
        else:
            out.append("no-response")
    return out


def pair_verdict(case, impl):
    u, t, _ = split3(impl)
    if u is None or not (u.startswith("resp") and t.startswith("resp")):
        return "bad:no-two-responses"
    ru, rt = raw_of(u), raw_of(t)
    if not ru or not rt:
        return "bad:no-two-responses"
    f = case.split()
    return PAIR.ask(f"{f[0]} {f[1]} {ru} {rt}")


def well_formed_line(impl):
    """never a panic/timeout/bad line; two responses"""
    if impl in BAD or impl.startswith("bad") or impl.startswith("panic"):
        return False
    u, t, _ = split3(impl)
    return u is not None and u.startswith("resp") and t.startswith("resp")


def oracle_c02(case, impl, oracle):
    return well_formed_line(impl) and all(v == "ok" for v in wf_verdicts(impl))


def oracle_c04(case, impl, oracle):
    return well_formed_line(impl) and pair_verdict(case, impl) == "ok"


def oracle_c01(case, impl, oracle):
    return well_formed_line(impl)


def corr_eq(case, impl, model):
    return True                       # no model of TSIG-bearing octets: oracle-decided (see module text)


def _tsig_of(d):
    ar = d.get("AR", [])
    return ar[-1].split("/") if isinstance(ar, list) and ar and ar[-1].split("/")[1:2] == ["250"] else None


def finding_c04_1(kf, case, impl, model, oracle):
    """C04-1 on signed requests: over TCP the answer ends in SERVFAIL only after more octets than the UDP limit allows
    were written; over UDP the same request runs into the limit first (TC)."""
    if kf.get("id") != "C04-1" or not well_formed_line(impl):
        return False
    u, t, _ = split3(impl)
    du, dt = srvgen.parse_resp(u), srvgen.parse_resp(t)
    return (pair_verdict(case, impl) == "bad:TCP-response-fits-but-UDP-response-differs" and dt.get("rc") == "2"
            and dt.get("an") == "0" and dt.get("ns") == "0" and du.get("tc") == "1" and du.get("an") == "0"
            and du.get("ns") == "0")


def finding_c04_2(kf, case, impl, model, oracle):
    """C04-2: the complete signed response fits the UDP limit only because finish() compresses the TSIG owner, while
    set_tsig reserved the uncompressed size: over UDP the response is cut short as if it did not fit.  Matches exactly:
    verdict `TCP-response-fits-but-UDP-response-differs`; the TCP response ends in a TSIG RR whose owner is compressed,
    saving s > 0 octets, and len(TCP) + s > limit in effect; and the UDP response is what the pair relation demands of a
    response whose complete form does NOT fit (same relation and size limit, the complete response counted as fitting only
    up to len(TCP) - 1 octets)."""
    if kf.get("id") != "C04-2" or not well_formed_line(impl):
        return False
    if pair_verdict(case, impl) != "bad:TCP-response-fits-but-UDP-response-differs":
        return False
    import tsig_py
    u, t, _ = split3(impl)
    ru, rt = raw_of(u), raw_of(t)
    tb = bytes.fromhex(rt)
    last = tsig_py.split_last_rr(tb)
    if last is None or last[2] != 250:
        return False
    start, labels = last[0], last[1]
    end = tsig_py.skip_name(tb, start)
    saved = wire_len(labels) - (end - start)
    du = srvgen.parse_resp(u)
    opt = any(x.split("/")[1:2] == ["41"] for x in du.get("AR", []))
    limit = limit_of(case) if opt else 512
    if not (saved > 0 and len(tb) + saved > limit):
        return False
    f = case.split()
    return AT.ask(f"{f[0]} {f[1]} {len(tb) - 1} {ru} {rt}") == "ok"


def findings_c04(kf, case, impl, model, oracle):
    return finding_c04_1(kf, case, impl, model, oracle) or finding_c04_2(kf, case, impl, model, oracle)


def limit_of(case):
    f = case.split()
    their = None if f[1] == "-" else int(f[1])
    return 512 if their is None else max(512, min(their, int(f[0])))


def classify(case, impl, model, oracle):
    if not well_formed_line(impl):
        return impl[:24]
    u, t, _ = split3(impl)
    du, dt = srvgen.parse_resp(u), srvgen.parse_resp(t)
    limit = limit_of(case)
    lt = int(dt["len"])
    signed_u, signed_t = _tsig_of(du) is not None, _tsig_of(dt) is not None
    if du.get("tc") == "1":
        k = "TC-signed" if signed_u else "TC-tsig-did-not-fit"
    elif du.get("raw") == dt.get("raw"):
        k = "identical"
    else:
        k = "optional-omitted"
    if not signed_t:
        k += " tcp-unsigned"
    return f"{k} tcp-{'fits' if lt <= limit else 'exceeds'} near={int(abs(lt - limit) <= 40)} rc={dt.get('rc')}"


def nontrivial(case, impl, model, oracle):
    c = classify(case, impl, model, oracle)
    return c.startswith("TC") or c.startswith("optional-omitted") or "near=1" in c


RULE = ("each request is a CORRECTLY SIGNED QUERY built with the crate's own Writer (TsigMode::Request, hmac-sha1 / hmac-sha256, one key "
        "installed in the server; RD random; no OPT or an OPT advertising 0/511/512/513/700/1232/4096/65535/random octets; 6% - a third "
        "in the TSIG-edge stream - signed with a time outside the fudge window: SIGNED BADTIME responses with 6 octets of other data) and "
        "the SAME octets are handed to the real server over UDP (response buffer = the server's EDNS size) and over TCP within one second; "
        "(0) an exact sweep: one TXT RRset tuned so that the complete signed response is EXACTLY limit-4..limit+4 octets, each offset "
        "equally often, key names sharing no label with QNAME or zone (nothing compressible); (1) the size-tuned scenarios of C04 (TXT, "
        "many A, MX with target addresses, referrals incl. NS target = delegation name, CNAME chains ending at a host / nowhere / outside "
        "/ in a loop, NXDOMAIN with a tuned SOA) re-tuned (replayed until zone sizes and key length agree) so that the complete SIGNED "
        "response is within +-40 octets of the limit in effect; (2) requests whose question + response TSIG RR alone end within +-2 / +-12 "
        "octets of the limit (QNAMEs and key names up to 255 octets; QNAME with records / wildcard / delegation / NXDOMAIN / REFUSED); (3) the nested catalogs of C05; key names of 3..255 octets: "
        "unrelated, sharing the apex, equal to / a child of / a sibling of a name in the zone's RDATA (CNAME/NS/MX/SOA targets, biased "
        "to the ones written last), sharing the QNAME. ORACLE-DECIDED (no model of TSIG-bearing octets exists): the extracted "
        "wf_response (C02) and pair_check_signed (C04) run on the implementation's responses, C01 requires two responses; a "
        "panic/timeout/bad line is a violation; non-trivial = TC, optional records omitted, or complete response within 40 octets of the limit")


def classify_c04(case, impl, model, oracle):
    """outcome class + the oracle's verdict when it is not `ok` (so the evidence histogram shows the verdicts)"""
    k = classify(case, impl, model, oracle)
    v = pair_verdict(case, impl) if well_formed_line(impl) else "ok"
    return k if v == "ok" else f"{k} !{v}"


def classify_c02(case, impl, model, oracle):
    k = classify(case, impl, model, oracle)
    v = wf_verdicts(impl) if well_formed_line(impl) else []
    return k if all(x == "ok" for x in v) else f"{k} !wf_response={','.join(v)}"


def suite(oracle_ok, finding_matches=None, classify=classify):
    s = {"name": "signed", "impl_bin": "impl_sig", "extract": "Extract/ExSig.v", "driver": "run_sig.ml",
         "runner_name": RUNNER_NAME, "gen": gen, "nontrivial": nontrivial, "classify": classify,
         "oracle_ok": oracle_ok, "corr_eq": corr_eq, "exhaustive": {"quick": False, "thorough": False},
         "rule": RULE, "n_samples": 2, "timeout": {"quick": 400, "thorough": 3000}}
    if finding_matches:
        s["finding_matches"] = finding_matches
    return s
