"""C31 — reloading keeps every zone on its own latest good data (src/bin/quandaryd/zones.rs, run.rs, config.rs).

The implementation side of the correspondence is the REAL quandaryd binary, built from the same
source tree ($QV_REPO) into .build/target-qd, started on 127.0.0.1 with scratch configuration and
zone files under .build/c31-scratch, sent SIGHUP after every step and probed over UDP."""
import os
import shutil
import qv

DAEMON_TARGET = os.path.join(qv.BUILD, "target-qd")
DAEMON = os.path.join(DAEMON_TARGET, "debug", "quandaryd")
SCRATCH = os.path.join(qv.BUILD, "c31-scratch")


STAMP = os.path.join(DAEMON_TARGET, ".qv-built-from")


def build_daemon():
    env = dict(os.environ, CARGO_NET_OFFLINE="true", CARGO_TARGET_DIR=DAEMON_TARGET)
    env.pop("RUSTFLAGS", None)
    # The target directory is shared by all source trees ($QV_REPO), and cargo's freshness test for the root package
    # is by modification time only: after a build from a scratch worktree, the (older) files of another tree count
    # as fresh and the binary of the OTHER tree would be driven.  So the tree the artefacts were built from is
    # recorded, and the crate's own artefacts (not its dependencies) are discarded whenever the tree changes.
    try:
        built_from = open(STAMP).read().strip()
    except OSError:
        built_from = None
    if built_from != qv.REPO and os.path.isdir(DAEMON_TARGET):
        qv.sh(["cargo", "clean", "--offline", "-p", "quandary", "--manifest-path", os.path.join(qv.REPO, "Cargo.toml")],
              timeout=300, env=env)
        try:
            os.remove(DAEMON)
        except OSError:
            pass
    rc, out = qv.sh(["cargo", "build", "--offline", "--bin", "quandaryd", "--manifest-path",
                     os.path.join(qv.REPO, "Cargo.toml")], timeout=1500, env=env)
    if rc != 0 or not os.path.exists(DAEMON):
        qv.log(out[-3000:])
        raise RuntimeError(f"cannot build quandaryd from {qv.REPO}")
    with open(STAMP, "w") as f:
        f.write(qv.REPO + "\n")
    shutil.rmtree(SCRATCH, ignore_errors=True)
    os.makedirs(SCRATCH, exist_ok=True)


def recase(rng, name):
    r = rng.random()
    if r < 0.7:
        return name
    if r < 0.85:
        return name.upper()
    return "".join(c.upper() if rng.random() < 0.5 else c.lower() for c in name)


def history(rng, maxsteps):
    base = rng.choice(["ex", "org", "test", "a"])
    pool = [f"{base}.", f"sub.{base}.", f"deep.sub.{base}.", f"www.{base}.", f"x.deep.sub.{base}.", "other.",
            f"b.other."]
    k = rng.randint(2, 5)
    names = [pool[0]] + rng.sample(pool[1:], k - 1) if rng.random() < 0.8 else rng.sample(pool, k)
    zones = [(n, 1) for n in names]
    if rng.random() < 0.25:
        zones.append((rng.choice(names), 3))            # the same name in class CH: a different key
    # per-zone file state
    st = {}
    for i, z in enumerate(zones):
        st[z] = {"ver": 0, "mt": rng.randint(1, 50), "alt": 0, "id": i, "file": "missing", "conf": False}
    probes = []
    for n, c in zones:
        probes.append(f"{n}/{c}")
        probes.append(f"q.{n}/{c}")
    probes.append("unrelated./1")
    probes.append(f"{base}./4")
    steps = []
    nsteps = rng.randint(2, maxsteps)
    for i in range(nsteps):
        first = i == 0
        # which zones are configured now
        for z in zones:
            s = st[z]
            if first:
                s["conf"] = rng.random() < (0.9 if len(z[0].split(".")) <= 2 else 0.5)
            elif rng.random() < 0.2:
                s["conf"] = not s["conf"]
        if not any(st[z]["conf"] for z in zones):
            st[zones[0]]["conf"] = True
        specs = [f"zz{i}./1/{900 + i}/ok.1.1"]
        for z in zones:
            s = st[z]
            if not s["conf"]:
                continue
            r = rng.random()
            if s["file"] == "missing" and s["ver"] == 0:
                # never written yet: mostly create it, sometimes start broken (the child-with-no-file pattern)
                r = 0.3 if rng.random() < 0.75 else rng.choice([0.8, 0.9])
            if r < 0.25:
                pass                                                        # file untouched
            elif r < 0.55:
                s["ver"] += 1; s["mt"] += rng.randint(1, 5); s["file"] = "ok"  # proper update
            elif r < 0.63:
                s["ver"] += 1; s["mt"] -= rng.choice([0, 0, 1]); s["file"] = "ok"  # new content, time not advanced
            elif r < 0.70:
                s["mt"] += 1; s["file"] = "ok" if s["ver"] else s["file"]     # touched only
            elif r < 0.82:
                s["mt"] += 1; s["file"] = "bad"
            elif r < 0.90:
                s["file"] = "missing"
            else:
                s["alt"] ^= 1; s["ver"] += 1; s["mt"] += rng.choice([-3, 0, 2]); s["file"] = "ok"  # other path
            s["mt"] = max(s["mt"], 0)
            if s["file"] == "ok" and s["ver"] == 0:
                s["ver"] = 1
            state = {"ok": f"ok.{s['ver']}.{s['mt']}", "bad": f"bad.{s['mt']}", "missing": "missing"}[s["file"]]
            specs.append(f"{recase(rng, z[0])}/{z[1]}/{s['id'] * 10 + s['alt']}/{state}")
        kind = "S"
        if not first and len(specs) > 1:
            r = rng.random()
            if r < 0.07:
                kind = "D"
                dup = specs[rng.randrange(1, len(specs))].split("/")
                dup[0] = dup[0].swapcase()
                specs.append("/".join(dup))
            elif r < 0.12:
                kind = "X"
        steps.append(f"{kind}:" + ";".join(specs))
        # R: a reload whose ONLY difference is that zones were removed - same sentinel, every file untouched (seed C31-H)
        if kind == "S" and len(specs) > 2 and rng.random() < 0.3:
            keep = [sp for sp in specs[1:] if rng.random() < 0.5]
            if len(keep) == len(specs) - 1:
                keep.pop(rng.randrange(len(keep)))
            kept = {sp.split("/")[0].lower() + "/" + sp.split("/")[1] for sp in keep}
            for z in zones:
                if st[z]["conf"] and f"{z[0].lower()}/{z[1]}" not in kept:
                    st[z]["conf"] = False
            steps.append("R:" + ";".join([specs[0]] + keep))
    return "P:" + ",".join(probes) + " " + " ".join(steps)


def fixed_cases():
    # the situation of the finding, both orders of parent and child in the configuration
    yield ("P:ex./1,sub.ex./1,q.sub.ex./1,q.ex./1 "
           "S:zz0./1/900/ok.1.1;ex./1/10/ok.1.100 "
           "S:zz1./1/901/ok.1.1;ex./1/10/ok.2.200;sub.ex./1/20/missing")
    yield ("P:ex./1,sub.ex./1,q.sub.ex./1,q.ex./1 "
           "S:zz0./1/900/ok.1.1;ex./1/10/ok.1.100 "
           "S:zz1./1/901/ok.1.1;sub.ex./1/20/bad.5;ex./1/10/ok.2.200 "
           "S:zz2./1/902/ok.1.1;sub.ex./1/20/ok.1.6;ex./1/10/ok.2.200")
    # a reload in which nothing but a removal happens (step kind R: same sentinel, barrier): a removed nested zone no
    # longer shadows its parent, a removed top-level zone is refused
    yield ("P:ex./1,sub.ex./1,q.sub.ex./1,other./1,q.other./1 "
           "S:zz0./1/900/ok.1.1;ex./1/10/ok.1.100;sub.ex./1/20/ok.1.5;other./1/30/ok.1.7 "
           "R:zz0./1/900/ok.1.1;ex./1/10/ok.1.100;other./1/30/ok.1.7 "
           "R:zz0./1/900/ok.1.1;ex./1/10/ok.1.100 "
           "S:zz1./1/901/ok.1.1;ex./1/10/ok.1.100;other./1/30/ok.1.7")
    yield ("P:ex./1,sub.ex./1,other./1 "
           "S:zz0./1/900/ok.1.1;ex./1/10/ok.1.100;sub.ex./1/20/ok.1.50;other./1/30/ok.1.7 "
           "D:zz1./1/901/ok.1.1;ex./1/10/ok.2.200;EX./1/10/ok.2.200 "
           "X:zz2./1/902/ok.1.1;ex./1/10/ok.3.300 "
           "S:zz3./1/903/ok.1.1;ex./1/10/ok.4.100;sub.ex./1/20/bad.60 "
           "S:zz4./1/904/ok.1.1;sub.ex./1/21/ok.2.10")


# ---- the key-reload scenario: K:<step>;<step>;...  (see harness/src/bin/impl_c31.rs)
KEY_NAMES = ["k1", "k2", "k3"]


def fixed_key_cases():
    yield "K:k1.a;-"                                        # the only key removed: the key set becomes EMPTY
    yield "K:k1.a,k2.b,k3.c;k1.a,k2.b;k1.a;-;k2.a"          # removed one by one, ALL removed, one re-added
    yield "K:-;k1.a;k1.a,k2.b;k1.a,k2.b,k3.c"               # none at start-up, added one by one
    yield "K:k1.a;k1.b;k1.c;k1.a"                           # re-added with another algorithm / another secret
    yield "K:k1.a,k2.c;k1.a,k2.c;k1.a,k2.c"                 # unchanged
    yield "K:k1.a;!k1.c,K1.a;k2.b;!k2.a,k2.a;-;!k3.a,k3.b"  # rejected configurations (a key twice) change nothing
    yield "K:-;-;k3.b;-;-"                                  # empty at start-up, empty again
    yield "K:K1.a,k2.b;k2.b,k1.a;K2.b;k3.c,k1.c"            # letter case, order, replaced by disjoint sets


def key_history(rng):
    cur = {}
    steps = []
    for i in range(rng.randint(2, 6)):
        r = rng.random()
        if i > 0 and r < 0.12:
            # a configuration the daemon must reject: some key name twice (possibly re-cased, other variant)
            ks = {n: rng.choice("abc") for n in rng.sample(KEY_NAMES, rng.randint(1, 3))}
            toks = [f"{n}.{v}" for n, v in ks.items()]
            n = rng.choice(list(ks))
            toks.insert(rng.randrange(len(toks) + 1), f"{rng.choice([n, n.upper()])}.{rng.choice('abc')}")
            steps.append("!" + ",".join(toks))
            continue
        if r < 0.30:
            cur = {}                                                    # ALL removed
        elif r < 0.42 and i > 0:
            pass                                                        # unchanged
        elif r < 0.60 and cur:
            cur = dict(cur); del cur[rng.choice(list(cur))]             # one removed
        elif r < 0.75 and cur:
            cur = dict(cur); n = rng.choice(list(cur))                  # one re-keyed (algorithm and/or secret)
            cur[n] = rng.choice([v for v in "abc" if v != cur[n]])
        elif r < 0.88 and len(cur) < 3:
            cur = dict(cur); cur[rng.choice([n for n in KEY_NAMES if n not in cur])] = rng.choice("abc")  # one added
        else:
            cur = {n: rng.choice("abc") for n in rng.sample(KEY_NAMES, rng.randint(1, 3))}  # replaced wholesale
        toks = [f"{n.upper() if rng.random() < 0.15 else n}.{v}" for n, v in cur.items()]
        rng.shuffle(toks)
        steps.append(",".join(toks) if toks else "-")
    return "K:" + ";".join(steps)


def gen(rng, tier):
    build_daemon()
    yield from fixed_cases()
    quick = tier == "quick"
    zone_cases = [history(rng, 6) for _ in range(150 if quick else 6000)]
    zone_cases += [history(rng, 14) for _ in range(25 if quick else 1000)]
    # drawn AFTER the zone histories (which therefore are what they were before this scenario existed)
    key_cases = list(fixed_key_cases()) + [key_history(rng) for _ in range(6 if quick else 400)]
    # spread over the run (the framework shards the case list in order)
    every = max(1, len(zone_cases) // len(key_cases))
    for i, c in enumerate(zone_cases):
        if i % every == 0 and key_cases:
            yield key_cases.pop(0)
        yield c
    yield from key_cases


def _key_sets(case):
    """The key set in force after every step of a K: case (names lower-cased -> variant)."""
    cur, out = {}, []
    for step in case[2:].split(";"):
        if not step.startswith("!"):
            cur = {} if step == "-" else {k.split(".")[0].lower(): k.split(".")[1] for k in step.split(",")}
        out.append(cur)
    return out


def _failing_reload(case):
    steps = case.split()[1:]
    return any(("/bad." in s or "/missing" in s) for s in steps[1:])


def nontrivial(case, impl, model, oracle):
    if case.startswith("K:"):
        # a reload removed a key (or re-keyed it) that was in force before
        ks = _key_sets(case)
        return impl.startswith("ok") and any(b.get(n) != v for a, b in zip(ks, ks[1:]) for n, v in a.items())
    # a reload (not the initial load) saw a configured zone whose file does not load
    return impl.startswith("ok") and _failing_reload(case)


def classify(case, impl, model, oracle):
    if not impl.startswith("ok"):
        return " ".join(impl.split()[:2])
    if case.startswith("K:"):
        ks = _key_sets(case)
        tags = []
        if any(a and not b for a, b in zip(ks, ks[1:])):
            tags.append("all-removed")
        if any(n in b and b[n] != v for a, b in zip(ks, ks[1:]) for n, v in a.items()):
            tags.append("re-keyed")
        if "!" in case:
            tags.append("rejected-config")
        return "keys:" + ("+".join(tags) if tags else "plain")
    tags = []
    if _failing_reload(case):
        tags.append("failing-file")
    if "servfail" in impl:
        tags.append("servfail")
    if " D:" in case or " X:" in case:
        tags.append("rejected-config")
    if " R:" in case:
        tags.append("removal-only")
    return "ok:" + ("+".join(tags) if tags else "plain")


CHECK = {
    "property": "C31",
    "props": "Props/C31.v",
    "theorems": ["c31_per_zone", "c31_independent", "c31_removed", "c31_skip_sound", "c31_config_dup",
                 "c31_history", "c31_per_zone_refuted_prefix"],
    "allowed_axioms": [],
    "suites": [{
        "name": "reload",
        "impl_bin": "impl_c31", "extract": "Extract/ExC31.v", "driver": "run_c31.ml",
        "args": ["--daemon", DAEMON, "--scratch", SCRATCH],
        "gen": gen,
        "nontrivial": nontrivial,
        "classify": classify,
        "exhaustive": {"quick": False, "thorough": False},
        "timeout": {"quick": 300, "thorough": 3000},
        "rule": ("seeded random histories (2-6 steps, some up to 14) of configuration and zone-file edits over 2-6 nested "
                 "zones (parent/child/grandchild, sibling, unrelated, the same name in class CH; names re-cased): per step each "
                 "zone is added/removed, left untouched, properly updated, given new content with a non-advanced mtime, touched, "
                 "made syntactically bad / failing validation, deleted, or moved to another path; some reloads carry a "
                 "configuration the daemon must reject (duplicate zone, broken TOML); the real quandaryd is started, SIGHUPed "
                 "after every step and every configured name, a name below it and two unrelated names are queried over UDP "
                 "(SOA): answering zone + serial / SERVFAIL / REFUSED; non-trivial = a reload saw a configured zone whose file "
                 "does not load; distinct = distinct case line.  KEY reload (case lines K:...; 8 fixed + 6 random histories quick, "
                 "2-6 steps): every step is the set of [[tsig_keys]] (names k1..k3, each as hmac-sha256/secret A, hmac-sha1/secret A "
                 "or hmac-sha256/secret B; possibly EMPTY; keys added, removed one by one, ALL removed, re-keyed, unchanged, "
                 "re-cased/re-ordered, or a rejected configuration naming a key twice); after each SIGHUP - and a second, rejected "
                 "SIGHUP whose error message proves the first reload has returned - one SOA query correctly signed (crate Writer, "
                 "time = now) per (name, algorithm, secret) of the universe and one unsigned query: ok / badkey (RCODE 9, TSIG error 17, "
                 "empty MAC, no answer/authority records) / badsig; expected: a key verifies iff it is in the CURRENT step's set "
                 "(stated expectation in ocaml/run_c31.ml, not a Coq model); non-trivial = a reload removed or re-keyed a key in force"),
    }],
    "trusted_base": [
        "Coq 8.16.1 kernel (vm_compute only in the concrete regression witness)",
        "axioms: none (every theorem: Closed under the global context)",
        "extraction: ExtrOcamlBasic only; OCaml 4.13.1 ocamlopt",
        "the catalog model and its refinement theorems of C22 (Model/CatTree.v), reused unchanged",
        "correspondence: checks/c31.py generator, harness/src/bin/impl_c31.rs (drives the real quandaryd: scratch files, "
        "explicit mtimes, SIGHUP via kill(1), a per-step sentinel zone to detect the atomic catalog swap - or, for removal-only steps (kind R, no new sentinel), a rejected second SIGHUP recognised in the daemon's log -, UDP SOA probes), ocaml/run_c31.ml",
        "file system as explicit input: fs_mtime/fs_load are arguments of the model; the harness realises only the combinations a "
        "real file system produces (time+loads, time+fails, missing); ErrorKind::Unsupported and 'metadata fails but the file loads' "
        "are covered by the theorems only",
        "TSIG key reload (run.rs reload_zones_and_keys / make_tsig_key_map, config.rs duplicate-key test) is NOT in the Coq model: the "
        "K: histories are decided against the stated expectation computed in ocaml/run_c31.ml (the key set in force is exactly the last "
        "accepted configuration's; C10's table says what a request signed with a key inside/outside that set gets)",
        "not exhibited by the model (trusted): signal delivery and coalescing (signal-hook), the RwLock/Arc catalog swap in the server "
        "(C32's subject), file-system timestamp granularity (a file rewritten within the timestamp resolution counts as unchanged), "
        "zone-file parsing/validation itself (C23-C25), TOML parsing",
    ],
    "assumptions": ["the previous catalog satisfies C22's representation invariant (true for every catalog produced by load_impl: "
                    "c31_per_zone/c31_history re-establish it)",
                    "no (class, name) is configured twice: enforced by config.rs, modelled and proved equivalent to NoDup (c31_config_dup)"],
}

MANIFEST = {
    "level_text": ("Coq theorems (no axioms) about the model of the daemon's reload function (zones.rs load_impl/check_mtime/"
                   "make_error_catalog_entry as repaired, config.rs duplicate test, run.rs rejected-reload branch) with the file system as an "
                   "explicit input, on top of the proved catalog model of C22: after any reload, for every key (class, name) what is held is "
                   "exactly the per-zone specification (new data if the file loads; what was held for exactly that key if that was loaded "
                   "data; else unserved; unchanged files keep their data; unconfigured keys are gone), hence independent of every other "
                   "zone's file and previous state; the mtime skip is sound; the same for every history of SIGHUPs including rejected "
                   "configurations. Proof of the reload function, partial w.r.t. the daemon shell: signal handling, the concurrent catalog "
                   "swap and timestamp granularity are outside the model; the tie to the code is a differential run of ~180 (quick) histories "
                   "against the real quandaryd process over UDP. The same suite drives the daemon's TSIG KEY reload (14 quick "
                   "histories of key sets incl. all keys removed / re-keyed / rejected configurations; signed probes per key, algorithm and "
                   "secret after every SIGHUP) against a stated expectation - the key set in force is exactly the last accepted "
                   "configuration's (C10/C32 at the daemon level) - differential test only, no theorem."),
    "level_note": ("Trusted: Coq kernel, extraction, the hand-written model's correspondence to the Rust code (differentially tested against "
                   "the running daemon, not proved), zone-file parsing/validation, signal delivery. The pinned code violated the property "
                   "(previous entry found by longest-match lookup: a failing child zone reinstated its parent's stale entry and never gave "
                   "SERVFAIL); the model follows the one-word fix: commit, c31_per_zone_refuted_prefix keeps the old behaviour as a witness."),
    "technique": "machine-checked proof in Coq (reload function refines a per-key specification) + correspondence check against the running daemon",
    "design_ref": "DESIGN.md §C31",
}
