"""C23 — zone files parse to exactly the records they describe (src/zone_file)."""
import os, sys
sys.path.insert(0, os.path.dirname(os.path.abspath(__file__)))
import zfgen
import zfcoq
from zfgen import hx
import c24


def gen(rng, tier):
    """Files rendered from abstract record lists with random presentation choices; the case line
    carries the expected items (computed from the abstract records, not from the text)."""
    quick = tier == "quick"
    caseless = c24.caseless_in_tree()
    n = 12000 if quick else 300000
    for i in range(n):
        nl = rng.choice([1, 2, 3, 5, 8, 12]) if rng.random() < 0.97 else rng.randint(20, 60)
        data, items = zfgen.gen_file(rng, caseless=caseless, nlines=nl)
        expected = " ; ".join(items + ["after=0"])
        yield f"zfx {c24.modes(rng)} {hx(data)} {hx(expected.encode())}"


def gen_render(rng, tier):
    """Abstract lines + legal `choices` in the shape of Spec/ZfRenderS.v (checks/zfcoq.py), rendered by the Python mirror; the
    runners re-render them with the extracted Coq renderer."""
    n = 4000 if tier == "quick" else 100000
    for i in range(n):
        nl = rng.choice([1, 2, 3, 5, 8, 12]) if rng.random() < 0.97 else rng.randint(20, 40)
        lines, data, expected = zfcoq.gen_file(rng, nlines=nl)
        yield f"zrc {c24.modes(rng)} {hx(data)} {hx(expected.encode())} {zfcoq.ser_lines(lines)}"


def nontrivial(case, impl, model, oracle):
    return impl.count("R") >= 1 and impl == oracle


def classify(case, impl, model, oracle):
    if impl != oracle:
        return "differs:" + c24.classify_zf(case, impl, model, oracle)
    n = len(impl.split(" ; ")) - 1
    return "match:%s" % ("0" if n == 0 else "1" if n == 1 else "2-4" if n < 5 else "5+")


def _rev8(x):
    return int("{:08b}".format(x)[::-1], 2)


def finding_matches(entry, case, impl, model, oracle):
    """C23-1: the ONLY difference between what the parser yields and what the file denotes is the bit map of WKS
    records (type 11, class IN) that list ports: same length, address and protocol equal, every octet of the bit map
    the bit-reversal of the expected one.  (A WKS record in the \\# form is returned as written, so it never differs.)
    The model must agree with the implementation octet for octet."""
    if entry.get("id") != "C23-1" or impl != model:
        return False
    a, b = impl.split(" ; "), oracle.split(" ; ")
    if len(a) != len(b):
        return False
    hit = False
    for x, y in zip(a, b):
        if x == y:
            continue
        fx, fy = x.split(), y.split()
        if len(fx) != len(fy) or not x.startswith("R") or fx[0] != fy[0]:
            return False
        dx = dy = None
        for u, v in zip(fx[1:], fy[1:]):
            if u == v:
                continue
            if not (u.startswith("d=") and v.startswith("d=")):
                return False
            dx, dy = u[2:], v[2:]
        if dx is None or "y=11" not in fx or "c=1" not in fx or dx == "-" or dy == "-" or len(dx) != len(dy):
            return False
        bx, by = bytes.fromhex(dx), bytes.fromhex(dy)
        if len(bx) <= 5 or bx[:5] != by[:5] or any(_rev8(p) != q for p, q in zip(bx[5:], by[5:])):
            return False
        hit = True
    return hit


CHECK = {
    "property": "C23",
    "props": "Props/C23.v",
    "theorems": ["c23_fields_disjoint", "c23_escape", "c23_character_string", "c23_name", "c23_uint", "c23_class", "c23_type",
                 "c23_ipv4", "c23_ipv6", "c23_navigation", "c23_line_end", "c23_rdata", "c23_record_line", "c23_line", "c23_file_roundtrip", "c23_file_roundtrip_records_only",
                 "c23_file_roundtrip_impl_order", "c23_wks_bit_order_refuted"],
    "allowed_axioms": [],
    "suites": [
        {"name": "zonefile", "runner_name": "C24_run", "impl_bin": "impl_c24", "extract": "Extract/ExC24.v", "driver": "run_c24.ml",
         "gen": gen, "nontrivial": nontrivial, "classify": classify, "finding_matches": finding_matches,
         "exhaustive": {"quick": False, "thorough": False},
         "rule": ("seeded abstract files (records of every supported type incl. CH A, WKS, unknown TYPEnnn and known types in \\# form; $ORIGIN, $TTL, $INCLUDE; [names below the current origin, at 255/254/253 octets, and the origin in another letter case] "
                  "blank and comment lines) rendered by checks/zfgen.py with independent random presentation choices per field: owner absolute / relative / @ / "
                  "omitted, TTL and class presence and order, mnemonics or TYPEnnn/CLASSnnn (mixed case where the tree parses them case-insensitively), blanks/tabs, "
                  "comments, parentheses spanning lines, quoted/unquoted strings, \\c and \\DDD escapes (incl. escaped and quoted line feeds), IPv6 text forms, "
                  "leading zeros/plus signs, LF/CRLF, final line with or without line ending; expected = the generating records with their line numbers; "
                  "implementation and model are each compared with it and with each other; non-trivial = at least one record and the expected parse was produced")},
        {"name": "render", "runner_name": "C24_run", "impl_bin": "impl_c24", "extract": "Extract/ExC24.v", "driver": "run_c24.ml",
         "gen": gen_render, "nontrivial": nontrivial, "classify": classify, "finding_matches": finding_matches,
         "exhaustive": {"quick": False, "thorough": False},
         "rule": ("seeded abstract files WITH explicit `choices` values in the shape of the Coq specification Spec/ZfRenderS.v (every constructor: owner forms, "
                  "TcNone/T/C/TC/CT, mnemonic case flags and TYPEnnn/CLASSnnn, separators built from blank runs and ( ) line-break comment items, per-octet "
                  "ERaw/EChar/EDec, quoted/unquoted strings, '+'/leading zeros, IPv6 dropped zeros and case, \\# with word breaks and digit case, all four line "
                  "terminators, $ORIGIN/$TTL in any case), rendered by the Python mirror checks/zfcoq.py; the model-side runner decodes the choices, renders them "
                  "with the EXTRACTED Coq renderer and requires: same octets, Coq file_ok = true, Coq number_lines = the Python expectation; then the real "
                  "parser and the model must both return exactly what Coq's number_lines denotes (the hypothesis space of c23_file_roundtrip exercised on the "
                  "real code); non-trivial = at least one record and the expected parse was produced")},
    ],
    "trusted_base": [
        "Coq 8.16.1 kernel; axioms: none",
        "Spec/ZfRenderS.v (the Coq renderer: choices, legality file_ok, render, number_lines) is the specification of the theorems; it covers every "
        "RR type the parser has a syntax for (incl. WKS), $ORIGIN/$TTL/$INCLUDE lines, IPv6 text with or without '::' "
        "(no embedded IPv4), no raw CR in unquoted tokens; the WKS bit map is numbered as RFC 1035 3.4.2/2.3.2 say (rfc_order; the theorems exclude the class of known finding C23-1 and "
        "c23_file_roundtrip_impl_order covers it with the implementation's numbering); the set of mnemonics follows the implementation (docs/C23.md)",
        "the Python renderer checks/zfgen.py is the independent specification of the differential run (it never reads the parser) and covers "
        "the presentations the Coq renderer leaves out (the embedded-IPv4 form of IPv6 text)",
        "the model of the parser (Model/Zf*.v, shared with C24) and its correspondence to the code (tested, not proved)",
        "extraction: ExtrOcamlBasic only; OCaml 4.13.1 ocamlopt",
    ],
    "assumptions": ["the stream returns no I/O error"],
}

MANIFEST = {
    "level_text": ("Coq theorems (no axioms) about the executable model of the whole zone-file parser (shared with C24): Spec/ZfRenderS.v is an independent "
                   "renderer of RFC 1035 section 5 files (abstract records / $ORIGIN / $TTL / blank lines + a `choices` value fixing owner form, TTL and class "
                   "presence and order, mnemonic case or TYPEnnn/CLASSnnn, separators with blanks, tabs, parentheses, comments and LF/CRLF line breaks, quoted or "
                   "unquoted strings, raw / \\c / \\DDD per octet, '+' and leading zeros, RFC 3597 \\# form with word breaks, comments, end of file); "
                   "c23_file_roundtrip proves parse_all (render lines) = the denoted records in order with their line numbers, for EVERY legal choice; it rests on "
                   "token-level (escapes, strings, names, integers, class/type, IPv4, IPv6), field-navigation, RDATA, record-line theorems. The model is tied to "
                   "the code by a differential run in which an independent Python renderer makes random presentation choices and the real parser and the "
                   "extracted model must both return exactly the generating records with their line numbers."),
    "level_note": ("KNOWN FINDING C23-1 (WKS bit order): WKS records written in the WKS syntax with a port list are excluded from the RFC-order theorems "
                   "(c23_wks_bit_order_refuted is the witness, c23_file_roundtrip_impl_order covers them with the implementation's order); the check matches exactly "
                   "that difference and nothing else. The Coq renderer does not cover: the embedded-IPv4 form of IPv6 text, raw CR in unquoted "
                   "tokens (the Python renderer of the differential run does). Trusted: the model/code correspondence (tested), Coq kernel, extraction."),
    "technique": "machine-checked proof in Coq (parse-of-render, all stages) + model/implementation/specification correspondence check on rendered files",
    "design_ref": "DESIGN.md §4 C23",
}
