"""C23 — zone files parse to exactly the records they describe (src/zone_file)."""
import os, sys
sys.path.insert(0, os.path.dirname(os.path.abspath(__file__)))
import zfgen
from zfgen import hx
import c24


def gen(rng, tier):
    """Files rendered from abstract record lists with random presentation choices; the case line
    carries the expected items (computed from the abstract records, not from the text)."""
    quick = tier == "quick"
    caseless = c24.caseless_in_tree()
    n = 12000 if quick else 300000
    for i in range(n):
        nl = rng.choice([1, 2, 3, 5, 8, 12]) if rng.random() < 0.97 else rng.randint(20, 60)
        data, items = zfgen.gen_file(rng, caseless=caseless, nlines=nl)
        expected = " ; ".join(items + ["after=0"])
        yield f"zfx {c24.modes(rng)} {hx(data)} {hx(expected.encode())}"


def nontrivial(case, impl, model, oracle):
    return impl.count("R") >= 1 and impl == oracle


def classify(case, impl, model, oracle):
    if impl != oracle:
        return "differs:" + c24.classify_zf(case, impl, model, oracle)
    n = len(impl.split(" ; ")) - 1
    return "match:%s" % ("0" if n == 0 else "1" if n == 1 else "2-4" if n < 5 else "5+")


def finding_matches(entry, case, impl, model, oracle):
    return False


CHECK = {
    "property": "C23",
    "props": "Props/C23.v",
    "theorems": ["c23_fields_partial"],
    "allowed_axioms": [],
    "suites": [
        {"name": "zonefile", "runner_name": "C24_run", "impl_bin": "impl_c24", "extract": "Extract/ExC24.v", "driver": "run_c24.ml",
         "gen": gen, "nontrivial": nontrivial, "classify": classify, "finding_matches": finding_matches,
         "exhaustive": {"quick": False, "thorough": False},
         "rule": ("seeded abstract files (records of every supported type incl. CH A, WKS, unknown TYPEnnn and known types in \\# form; $ORIGIN, $TTL, $INCLUDE; "
                  "blank and comment lines) rendered by checks/zfgen.py with independent random presentation choices per field: owner absolute / relative / @ / "
                  "omitted, TTL and class presence and order, mnemonics or TYPEnnn/CLASSnnn (mixed case where the tree parses them case-insensitively), blanks/tabs, "
                  "comments, parentheses spanning lines, quoted/unquoted strings, \\c and \\DDD escapes (incl. escaped and quoted line feeds), IPv6 text forms, "
                  "leading zeros/plus signs, LF/CRLF, final line with or without line ending; expected = the generating records with their line numbers; "
                  "implementation and model are each compared with it and with each other; non-trivial = at least one record and the expected parse was produced")},
    ],
    "trusted_base": [
        "Coq 8.16.1 kernel; axioms: none",
        "the Python renderer checks/zfgen.py is the independent specification of what a rendered file denotes (it never reads the parser); "
        "a Coq renderer with a parse-of-render theorem is NOT part of this check (see docs/C23.md): the proved part is c23_fields_partial",
        "the model of the parser (Model/Zf*.v, shared with C24) and its correspondence to the code (tested, not proved)",
        "extraction: ExtrOcamlBasic only; OCaml 4.13.1 ocamlopt",
    ],
    "assumptions": ["the stream returns no I/O error"],
}

MANIFEST = {
    "level_text": ("Partial proof + differential check: Coq theorem c23_fields_partial (a token accepted as a TTL is never accepted as a CLASS or a TYPE, and a token accepted "
                   "as a CLASS is never accepted as a TYPE, so the try-in-order of parse_ttl_and_class is the unique reading; decimal \\DDD escapes decode to the octet they "
                   "name) about the model shared with C24 (which is proved total); the whole-file statement parse(render choices records) = records is checked, not "
                   "proved: an independent Python renderer makes random presentation choices for every field and the real parser and the extracted model must both return "
                   "exactly the generating records with their line numbers."),
    "level_note": ("The whole-line / whole-file render-parse theorem of DESIGN.md is not proved (named gap). Trusted: the Python renderer as specification, the model/code "
                   "correspondence, Coq kernel, extraction."),
    "technique": "machine-checked proof in Coq (field-level, partial) + model/implementation/specification correspondence check on rendered files",
    "design_ref": "DESIGN.md §4 C23",
}
