"""C08 — malformed requests are answered with FORMERR (src/server/mod.rs pre-scan)."""
import srvgen


def gen(rng, tier):
    n = 10000 if tier == "quick" else 300000
    for _ in range(n):
        yield srvgen.gen_case(rng, loaded=True, mutate_p=0.4, clean_p=0.15)


def nontrivial(case, impl, model, oracle):
    # FORMERR responses, and well-formed requests that were answered with something else
    return impl.startswith("resp") and (" rc=1 " in impl or " an=0 " not in impl)


CHECK, MANIFEST = srvgen.make_check(
    "C08", "Props/C08.v",
    ["c08_early_is_final", "c08_undelimitable_additional", "c08_second_opt", "c08_tsig_not_last", "c08_an_ns",
     "c08_query_without_question", "c08_data_only_if_clean",
     "c08_first_problem", "c08_formerr_iff_first_problem", "c08_formerr_response", "c08_badvers_response",
     "c08_clean_reaches_dispatch", "c08_silent_iff_first_problem"],
    srvgen.oracle_c08, gen, nontrivial, srvgen.std_classify,
    ("Coq theorems (no axioms) on the model of the server's request pre-processing: whatever it decides (FORMERR for an "
     "unparseable question, an undelimitable record, OPT/TSIG outside the additional section, a second OPT, a TSIG that is not "
     "last, trailing octets; or an EDNS/TSIG outcome found earlier) is final — nothing later replaces the RCODE — and carries no "
     "data; a QUERY without question is FORMERR; data only ever accompanies a request that passed every check. Two defects of the "
     "pinned tree (FORMERR overwritten by query processing; ordinary additional records never skipped) were repaired by fix: "
     "commits. SPEC-LEVEL CLASSIFIER: first_problem (Spec/MsgWalkS.v) reads the request in message order with the spec decoders "
     "only (spec_decode_name, big-endian fields, 'delimit a record' = first label sequence + 10 fixed octets + RDLENGTH in bounds, "
     "RFC 6891 option tiling, RFC 8945 TSIG RDATA layout) and names the first problem (question unparseable, record i "
     "undelimitable, OPT/TSIG outside the additional section, second OPT, malformed OPT, TSIG not last / malformed incl. class and "
     "TTL, QUERY without question, trailing octets) or an earlier EDNS version error / reached TSIG; c08_first_problem proves the "
     "model's pre-processing decides EXACTLY that verdict for every request, c08_formerr_iff_first_problem the iff (FORMERR exactly "
     "when the first problem is FORMERR-class, unless a well-formed last TSIG was reached first: then key lookup / HMAC decide), "
     "c08_formerr_response / c08_badvers_response what is sent (FORMERR resp. BADVERS, no data, no TSIG). The extracted classifier "
     "is evaluated on every implementation response in addition to the model-as-oracle."),
    "machine-checked proof in Coq (invariant of the pre-scan for all requests) + correspondence check with the model as oracle")
