"""C08 — malformed requests are answered with FORMERR (src/server/mod.rs pre-scan)."""
import srvgen


def gen(rng, tier):
    n = 10000 if tier == "quick" else 300000
    for _ in range(n):
        yield srvgen.gen_case(rng, loaded=True, mutate_p=0.4, clean_p=0.15)


def nontrivial(case, impl, model, oracle):
    # FORMERR responses, and well-formed requests that were answered with something else
    return impl.startswith("resp") and (" rc=1 " in impl or " an=0 " not in impl)


CHECK, MANIFEST = srvgen.make_check(
    "C08", "Props/C08.v",
    ["c08_early_is_final", "c08_undelimitable_additional", "c08_second_opt", "c08_tsig_not_last", "c08_an_ns",
     "c08_query_without_question", "c08_data_only_if_clean"],
    srvgen.oracle_c08, gen, nontrivial, srvgen.std_classify,
    ("Coq theorems (no axioms) on the model of the server's request pre-processing: whatever it decides (FORMERR for an "
     "unparseable question, an undelimitable record, OPT/TSIG outside the additional section, a second OPT, a TSIG that is not "
     "last, trailing octets; or an EDNS/TSIG outcome found earlier) is final — nothing later replaces the RCODE — and carries no "
     "data; a QUERY without question is FORMERR; data only ever accompanies a request that passed every check. Two defects of the "
     "pinned tree (FORMERR overwritten by query processing; ordinary additional records never skipped) were repaired by fix: "
     "commits. Tied to the code by a differential run of mutated requests; the model's verdict is the oracle on every response."),
    "machine-checked proof in Coq (invariant of the pre-scan for all requests) + correspondence check with the model as oracle")
