"""C22 — catalog updates never disturb unrelated entries (src/db/hash_map_tree/catalog.rs)."""
import itertools

CLASSES = [1, 3, 4]
LABELS = [b"a", b"b", b"c", b"A", b"example", b"Example", b"EXAMPLE", b"www", b"sub", b"*", b"\x00", b"test", b"TEST",
          b"x" * 63, b"z", b"Z", b"zebra", b"Zebra",
          # octets that differ only in bit 5 without being a letter pair (a fold written as `| 0x20` confuses them)
          b"_sip", b"\x7fsip", b"x[1]", b"x{1}", b"\n", b"@", b"`"]


def nm(labels):
    return ".".join(l.hex() for l in labels) if labels else "@"


def fits(labels):
    return sum(len(l) + 1 for l in labels) + 1 <= 255


def recase(rng, labels):
    # case lines carry valid Names only (<= 255 octets on the wire): drop leading labels if needed
    while not fits(labels):
        labels = labels[1:]
    out = []
    for l in labels:
        r = rng.random()
        if r < 0.6:
            out.append(l)
        elif r < 0.8:
            out.append(l.upper())
        else:
            out.append(bytes(c ^ 0x20 if (65 <= c <= 90 or 97 <= c <= 122) and rng.random() < 0.5 else c for c in l))
    return out


def universe(rng):
    """A set of nested names: a few apexes, chains below them, siblings; the root sometimes."""
    names = []
    if rng.random() < 0.4:
        names.append([])
    for _ in range(rng.randint(1, 3)):
        apex = [rng.choice(LABELS) for _ in range(rng.choice([1, 1, 2]))]
        names.append(apex)
        frontier = [apex]
        for _ in range(rng.randint(1, 6)):
            parent = rng.choice(frontier)
            child = [rng.choice(LABELS)] + parent
            if rng.random() < 0.3:                      # skip a level: empty non-terminal in between
                child = [rng.choice(LABELS)] + child
            if len(child) < 10 and sum(len(l) + 1 for l in child) <= 150:
                names.append(child)
                frontier.append(child)
    return names


def history(rng, maxlen):
    names = universe(rng)
    classes = rng.choice([[1], [1, 3], CLASSES, CLASSES])
    steps, tag = [], 0
    n = rng.randint(3, maxlen)
    while len(steps) < n:
        r = rng.random()
        c = rng.choice(classes)
        if r < 0.34:
            name = rng.choice(names)
            tag += 1
            steps.append(f"i:{c}:{nm(recase(rng, name))}:{tag}")
            if rng.random() < 0.3:                      # parent then child then remove child: the pruning pattern
                kids = [k for k in names if len(k) > len(name) and k[len(k) - len(name):] == name]
                if kids:
                    kid = rng.choice(kids)
                    tag += 1
                    steps.append(f"i:{c}:{nm(recase(rng, kid))}:{tag}")
                    if rng.random() < 0.7:
                        steps.append(f"r:{c}:{nm(recase(rng, kid))}")
        elif r < 0.58:
            name = rng.choice(names)
            if rng.random() < 0.1:
                name = [rng.choice(LABELS)] + name       # a name never inserted
            steps.append(f"r:{c}:{nm(recase(rng, name))}")
        elif r < 0.80:
            name = rng.choice(names)
            k = rng.random()
            if k < 0.5:
                name = [rng.choice(LABELS) for _ in range(rng.randint(1, 3))] + name
            elif k < 0.6 and name:
                name = name[1:]
            if not fits(name):
                name = name[-3:]
            steps.append(f"l:{c}:{nm(recase(rng, name))}")
        elif r < 0.90:
            name = rng.choice(names)
            if rng.random() < 0.3:
                name = [rng.choice(LABELS)] + name
            steps.append(f"g:{c}:{nm(recase(rng, name))}")
        elif r < 0.95:
            steps.append("it")
        else:
            e, q = rng.choice(names), rng.choice(names)
            if rng.random() < 0.5:
                q = [rng.choice(LABELS) for _ in range(rng.randint(0, 2))] + e
            tag += 1
            steps.append(f"{rng.choice(['sl', 'sg'])}:{c}:{nm(recase(rng, e))}:{tag}:{rng.choice(classes)}:{nm(recase(rng, q))}")
    return " ".join(steps[:maxlen])


SMALL = [[], [b"a"], [b"b", b"a"], [b"c", b"b", b"a"], [b"d", b"a"]]


def exhaustive(maxlen):
    """Every insert/remove history up to maxlen over 5 nested names in one class (case varied
    deterministically), followed by a probe of every name (lookup + get) and of a deeper name."""
    ops = [("i", n) for n in SMALL] + [("r", n) for n in SMALL]
    probes = " ".join(f"l:1:{nm(n)} g:1:{nm(n)}" for n in SMALL) + f" l:1:{nm([b'q', b'C', b'B', b'A'])} it"
    for L in range(1, maxlen + 1):
        for h in itertools.product(ops, repeat=L):
            steps = []
            for j, (o, n) in enumerate(h):
                n2 = [l.upper() if j % 2 else l for l in n]
                steps.append(f"i:1:{nm(n2)}:{j + 1}" if o == "i" else f"r:1:{nm(n2)}")
            yield " ".join(steps) + " " + probes


def gen(rng, tier):
    quick = tier == "quick"
    yield from exhaustive(3 if quick else 4)
    for _ in range(4000 if quick else 150000):
        yield history(rng, 60)
    for _ in range(1000 if quick else 20000):
        yield history(rng, 12)


def _removals(impl):
    """(number of removals that removed an entry while another entry remained)"""
    k = 0
    for f in impl.split()[1:]:
        if "=" in f:
            old, rest = f.split("=", 1)
            if old != "none" and rest != "[]":
                k += 1
    return k


def nontrivial(case, impl, model, oracle):
    if not impl.startswith("ok"):
        return False
    # an existing entry was removed while others stayed (the situation the property is about)
    return any(s.startswith("r:") for s in case.split()) and _removals(impl) > 0


def classify(case, impl, model, oracle):
    if not impl.startswith("ok"):
        return impl.split()[0]
    return "ok:effective-removal" if nontrivial(case, impl, model, oracle) else "ok:other"


CHECK = {
    "property": "C22",
    "props": "Props/C22.v",
    "theorems": ["c22_insert_refine", "c22_remove_refine", "c22_remove_local", "c22_lookup_refine",
                 "c22_lookup_unique", "c22_get_refine", "c22_iter_refine", "c22_abs_consistent", "c22_history",
                 "c22_reachable_wf", "c22_oracle_insert", "c22_oracle_remove", "c22_oracle_lookup",
                 "c22_oracle_iter", "c22_single_get", "c22_single_lookup", "c22_remove_local_refuted_prefix"],
    "allowed_axioms": [],
    "correspondence": {"impl_bin": "impl_c22", "extract": "Extract/ExC22.v", "driver": "run_c22.ml"},
    "gen": gen,
    "nontrivial": nontrivial,
    "classify": classify,
    "exhaustive": {"quick": False, "thorough": False},
    "rule": ("every insert/remove history of length <=3 (thorough: 4) over 5 nested names (root, a, b.a, c.b.a, d.a) [random universes also use labels that differ only in bit 5 without being letter pairs, z/Z] "
             "followed by lookup+get probes of every name, plus seeded random histories (<=60 steps, 3 classes, nested "
             "names with empty non-terminals, mixed case, SingleZoneCatalog probes); after EVERY insert/remove the whole "
             "sorted iteration is compared; non-trivial = a removal returned an entry while other entries remained; "
             "distinct = distinct case line"),
    "trusted_base": [
        "Coq 8.16.1 kernel (vm_compute only in the concrete regression witness and the Example)",
        "axioms: none (every theorem: Closed under the global context)",
        "extraction: ExtrOcamlBasic only, no Extract Constant/Inductive of ours; OCaml 4.13.1 ocamlopt",
        "correspondence: checks/c22.py generators, harness/src/bin/impl_c22.rs (catch_unwind), ocaml/run_c22.ml, line diff in tools/qv.py",
        "modelling: Name = list of non-root labels, Entry = (name, class, opaque payload), HashMap = association list keyed by "
        "the lower-cased label / the class (std HashMap, Label's case-insensitive Hash/Eq and Arc are trusted), &mut descent = functional path rebuild",
        "not modelled: the order in which Node::iter's DFS state machine yields entries (unspecified hash order; compared as sorted lists)",
    ],
    "assumptions": ["per-operation theorems assume the representation invariant wf_cat, which c22_reachable_wf/c22_history "
                    "establish for every catalog built from new() by insert/remove"],
}

MANIFEST = {
    "level_text": ("Coq theorems (no axioms) that the model of HashMapTreeCatalog (insert, remove as repaired, lookup, the default get, iter) "
                   "and of SingleZoneCatalog refines a flat reference map (class x lower-cased name) -> entry for EVERY history from the "
                   "empty catalog: no operation panics, insert/remove change exactly their own key (so removing one entry never alters "
                   "another), lookup returns the unique entry whose name is the longest suffix of the query, get is exact, iter yields "
                   "exactly the current entries once each; the executable reference used as oracle is proved to implement the "
                   "specification. The model is tied to the code by a differential run on ~6k histories (quick; every insert/remove "
                   "history of length <=3 over 5 nested names plus random histories of up to 60 steps) comparing the whole iteration after every update."),
    "level_note": ("Trusted: Coq kernel, ExtrOcamlBasic extraction, the hand-written model's correspondence to the Rust code "
                   "(differentially tested, not proved), std HashMap/Arc, Label's Hash/Eq agreeing with lower-casing. The pinned code "
                   "violated the property (child removal pruned a parent that still had its own entry); the model follows the fix: commit, "
                   "c22_remove_local_refuted_prefix keeps the old behaviour as a regression witness."),
    "technique": "machine-checked proof in Coq (tree refines a flat reference map for every history) + model/implementation correspondence check",
    "design_ref": "DESIGN.md §C22",
}
