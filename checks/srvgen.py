"""Generators and line parsing shared by the server-level checks (C01, C03, C07, C08, C09)."""
import random
import dnsgen, qgen
from dnsgen import u16, u32, enc_name, hx

ZONE_NAMES = [[], [b"a"], [b"b", b"a"], [b"c", b"b", b"a"], [b"example"], [b"sub", b"example"], [b"Example"]]
QTYPES = [1, 2, 5, 6, 15, 16, 28, 33, 255, 251, 252, 253, 254, 99, 41, 250]
QCLASSES = [1, 1, 1, 3, 255, 254, 7]


def soa_rdata():
    return enc_name([b"ns"]) + enc_name([b"admin"]) + u32(1) + u32(2) + u32(3) + u32(4) + u32(5)


def gen_catalog(rng, loaded=True):
    if rng.random() < 0.15:
        return "-", []
    entries, names = [], []
    for _ in range(rng.randint(1, 4)):
        nm = rng.choice(ZONE_NAMES)
        cl = rng.choice([1, 1, 1, 3, 7])
        if rng.random() < 0.04:
            cl = rng.choice([255, 254])          # `Class` is a bare u16: an entry of class 255 / 254 can be configured; QCLASS * is NOTIMP all the same
        st = rng.choice(["L", "N", "F"] if loaded else ["N", "F"])
        e = f"{cl},{hx(enc_name(nm))},{st}"
        if st == "L":
            recs = [f"{hx(enc_name(nm))}/6/{rng.choice([3600, 3])}/{hx(soa_rdata())}"]
            if rng.random() < 0.7:
                recs.append(f"{hx(enc_name([b'www'] + nm))}/1/60/01020304")
            if rng.random() < 0.5:
                # CNAMEs: in-zone target, chain, loop, out-of-zone targets incl. ones with FEWER labels than the apex
                tgt = rng.choice([[b"www"] + nm, [b"c2"] + nm, [b"c"] + nm, [b"example", b"com"], [b"x"], [], [b"nx"] + nm])
                recs.append(f"{hx(enc_name([b'c'] + nm))}/5/60/{hx(enc_name(tgt))}")
                if rng.random() < 0.5:
                    recs.append(f"{hx(enc_name([b'c2'] + nm))}/5/60/{hx(enc_name(rng.choice([[b'c'] + nm, [b'www'] + nm, []])))}")
            if rng.random() < 0.4:
                # a delegation with in-bailiwick glue and an out-of-bailiwick name server
                recs.append(f"{hx(enc_name([b'sub'] + nm))}/2/60/{hx(enc_name([b'ns', b'sub'] + nm))}")
                recs.append(f"{hx(enc_name([b'sub'] + nm))}/2/60/{hx(enc_name([b'ns', b'other']))}")
                recs.append(f"{hx(enc_name([b'ns', b'sub'] + nm))}/1/60/05060708")
            if rng.random() < 0.3:
                recs.append(f"{hx(enc_name([b'*'] + nm))}/1/60/090a0b0c")
            if rng.random() < 0.3:
                recs.append(f"{hx(enc_name(nm))}/15/60/{hx(u16(10) + enc_name([b'www'] + nm))}")
                recs.append(f"{hx(enc_name(nm))}/2/60/{hx(enc_name([b'www'] + nm))}")
            e += "," + "+".join(recs)
        entries.append(e)
        names.append((nm, cl))
        if rng.random() < 0.12:
            # a configuration change: Catalog::remove of an entry inserted so far (often the parent or the child of a
            # nested pair: the removal must not disturb the other), or of a name that was never inserted
            rn, rc = rng.choice(names) if rng.random() < 0.8 else (rng.choice(ZONE_NAMES), rng.choice([1, 3, 7]))
            if rng.random() < 0.2:
                rn = [l.swapcase() for l in rn]
            entries.append(f"{rc},{hx(enc_name(rn))},R")
    return ";".join(entries), names


def gen_keys(rng):
    if rng.random() < 0.5:
        return "-"
    ks = []
    for _ in range(rng.randint(1, 2)):
        nm = rng.choice([[b"k"], [b"key", b"example"], [b"K"]])
        ks.append(f"{hx(enc_name(nm))},{rng.choice(['1', '256'])},{hx([rng.randrange(256) for _ in range(8)])}")
    return ";".join(ks)


def rr(name, ty, cl, ttl, rd):
    return name + u16(ty) + u16(cl) + u32(ttl) + u16(len(rd)) + rd


def boundary_owner(rng):
    """owners at the limits of 'the first label sequence': 253..256 octets with the terminator, ended by the root
    label or by a pointer, a bare pointer, a pointer whose second octet is the last one available, reserved
    label types 0x40 / 0x80, a 63 / 64-octet label"""
    def seq(total):                      # labels filling `total` octets (without the terminator)
        out, left = [], total
        while left > 0:
            l = min(63, left - 1)
            if l <= 0:
                out += [1, 0x61]; left -= 2
                continue
            out += [l] + [0x61] * l
            left -= l + 1
        return out
    r = rng.randrange(9)
    if r == 0:
        return seq(rng.choice([252, 253, 254, 255])) + [0]
    if r == 1:
        return seq(rng.choice([252, 253, 254, 255])) + [0xC0, 12]
    if r == 2:
        return [0xC0, rng.choice([0, 12, 0xFF])]
    if r == 3:
        return [rng.choice([0x40, 0x80, 0xBF]), 1, 2]
    if r == 4:
        return [63] + [0x62] * 63 + [0]
    if r == 5:
        return [64] + [0x62] * 64 + [0]
    if r == 6:
        return [1, 0x61, rng.choice([0xC0, 0xFF])]          # pointer cut in the middle (if last in the message)
    if r == 7:
        return enc_name([b"A" * 10, b"b"])
    return [0]


def bad_opt_rdata(rng):
    """OPT RDATA whose options do not tile it (or just do): overrunning length, 1..3 stray octets, zero-length options"""
    r = rng.randrange(5)
    if r == 0:
        return u16(10) + u16(5) + [1, 2, 3, 4]               # length overruns by one
    if r == 1:
        return u16(10) + u16(4) + [1, 2, 3, 4] + [9] * rng.randint(1, 3)
    if r == 2:
        return u16(8) + u16(0) + u16(9) + u16(0)             # two empty options: fine
    if r == 3:
        return u16(8) + u16(0xFFFF) + [0] * 8
    return u16(3) + u16(2) + [7, 7]                          # fine


def bad_tsig_rdata(rng):
    """TSIG RDATA with exactly one layout defect (or none): algorithm name compressed / too long / cut, MAC size or
    other-len off by one, missing tail fields, trailing octet"""
    alg = enc_name([b"hmac-sha256"])
    mac = [rng.randrange(256) for _ in range(rng.choice([0, 16, 32]))]
    t = [0, 0, 0x65, 0x53, 0xF1, 0]
    other = rng.choice([[], [1, 2, 3, 4, 5, 6]])
    def build(alg=alg, macsz=len(mac), mac=mac, otherlen=len(other), other=other):
        return alg + t + u16(300) + u16(macsz) + mac + u16(0x1234) + u16(0) + u16(otherlen) + other
    r = rng.randrange(10)
    if r == 0:
        return build(macsz=len(mac) + 1)
    if r == 1:
        return build(otherlen=len(other) + 1)
    if r == 2:
        return build(otherlen=max(0, len(other) - 1)) if other else build() + [0]
    if r == 3:
        return build(alg=[0xC0, 12])
    if r == 4:
        return build(alg=[64] + [0x61] * 64 + [0])
    if r == 5:
        return build(alg=[4, 0x68, 0x6D, 0x61, 0x63])       # name without terminator
    if r == 6:
        return build()[:len(alg) + rng.choice([0, 5, 9, 10])]
    if r == 7:
        return build(alg=[0])                                # root algorithm name: layout fine
    if r == 8:
        return build(alg=[63] + [0x61] * 63 + [63] + [0x62] * 63 + [63] + [0x63] * 63 + [rng.choice([61, 62])] + [0x64] * 62 + [0])
    return build()


def gen_opt(rng):
    if rng.random() < 0.08:
        return rr(boundary_owner(rng), 41, 1232, 0, [])
    if rng.random() < 0.08:
        return rr(enc_name([]), 41, 1232, rng.choice([0, 0x00010000]), bad_opt_rdata(rng))
    owner = enc_name([]) if rng.random() < 0.85 else gen_owner(rng, [b"x"])
    ver = rng.choice([0, 0, 0, 0, 1, 2, 255, rng.randrange(256)])
    top = rng.choice([0, 0, 0, 0x80, rng.randrange(256)])
    flags = rng.choice([0, 0x8000, rng.randrange(65536)])
    ttl = (top << 24) | (ver << 16) | flags
    size = rng.choice([0, 100, 511, 512, 513, 1232, 1233, 4096, 65535, rng.randrange(65536)])
    return rr(owner, 41, size, ttl, dnsgen.opt_rdata(rng) if rng.random() < 0.3 else [])


def gen_tsig(rng):
    if rng.random() < 0.12:
        owner = enc_name([b"k"]) if rng.random() < 0.7 else boundary_owner(rng)
        return rr(owner, 250, 255, 0, bad_tsig_rdata(rng))
    long = [b"x" * 63, b"y" * 63, b"z" * 63, b"w" * 61]
    key = rng.choice([[b"k"], [b"k"], [b"key", b"example"], [b"unknown"], long, [b"K"]])
    alg = rng.choice([[b"hmac-sha256"], [b"hmac-sha1"], [b"HMAC-SHA256"], [b"hmac-md5", b"sig-alg", b"reg", b"int"],
                      [b"nope"], long])
    mac = [rng.randrange(256) for _ in range(rng.choice([0, 0, 5, 9, 10, 16, 20, 32, 33]))]
    rd = dnsgen.tsig_rdata(rng, alg=enc_name(alg), mac=mac, time=rng.choice([0, 1700000000, (1 << 48) - 1]),
                           orig_id=rng.randrange(65536), error=rng.choice([0, 0, 16, 17, 18]),
                           other=[] if rng.random() < 0.8 else [1, 2, 3, 4, 5, 6])
    if rng.random() < 0.1:
        rd = rd[:rng.randrange(len(rd) + 1)]
    cl = 255 if rng.random() < 0.9 else rng.choice([1, 254])
    ttl = 0 if rng.random() < 0.9 else rng.choice([1, 0x80000000])
    return rr(enc_name(key), 250, cl, ttl, rd)


def gen_owner(rng, labels):
    """Owner octets of a counted record: mostly the plain name; sometimes a compression pointer (whole name or
    suffix, backwards into the header/question or forwards), sometimes a length octet of a reserved label type
    (0x40..0xbf: neither a label nor a pointer - the record cannot be delimited), sometimes an over-long label."""
    r = rng.random()
    if r < 0.80:
        return enc_name(labels)
    pre = []
    for l in labels[:rng.randint(0, len(labels))]:
        pre += [len(l)] + list(l)
    if r < 0.90:
        return pre + [0xC0 | rng.choice([0, 0, 0, 0x3F]), rng.choice([0x0C, 0x0C, 0x0D, 0x00, 0x04, 0xFF, rng.randrange(256)])]
    first = rng.choice([0x80, 0xA5, 0xBF, 0x40, 0x7F, 0x41, rng.randrange(0x40, 0xC0)])
    tail = rng.choice([[0x0C], [0x0C, 0x00], [0x00], [], [rng.randrange(256), 0x00]])
    return pre + [first] + tail


def gen_plain_rr(rng):
    if rng.random() < 0.06:
        return rr(boundary_owner(rng), rng.choice([1, 99]), 1, 60, [1, 2, 3, 4])
    ty = rng.choice([1, 28, 10, 99, 65280])
    cl = rng.choice([1, 1, 3, 255])
    return rr(gen_owner(rng, dnsgen.rand_labels(rng, 2)), ty, cl, rng.choice([0, 60, 0x80000001]), dnsgen.lite_rdata(rng, ty, cl))


def gen_request(rng, zone_names):
    flags = rng.choice([0x0000, 0x0100, 0x0120, rng.randrange(65536) & 0x7FFF, rng.randrange(65536)])
    if rng.random() < 0.85:
        flags &= 0x87FF           # opcode QUERY most of the time
    if rng.random() < 0.95:
        flags &= 0x7FFF           # QR clear most of the time
    qd = rng.choice([1, 1, 1, 1, 1, 1, 0, 2])
    body = []
    for _ in range(qd):
        if rng.random() < 0.03:
            # boundary QNAMEs: exactly 255 / 254 octets on the wire, 127 one-octet labels
            labels = rng.choice([[b"q" * 63, b"r" * 63, b"s" * 63, b"t" * 61], [b"q" * 63, b"r" * 63, b"s" * 63, b"t" * 60],
                                 [b"z"] * 127, [b"Q" * 63, b"r" * 63, b"s" * 62, b"t" * 61]])
        elif zone_names and rng.random() < 0.8:
            base, _ = rng.choice(zone_names)
            extra = [rng.choice([b"www", b"nx", b"WWW", b"a", b"c", b"c2", b"sub", b"C", b"anything"])] if rng.random() < 0.7 else []
            if extra and rng.random() < 0.15:
                extra = [rng.choice([b"x", b"ns", b"deep"])] + extra
            labels = extra + [l.swapcase() if rng.random() < 0.2 else l for l in base]
        else:
            labels = dnsgen.rand_labels(rng, 3)
        r_q = rng.random()
        if r_q < 0.03:
            body += [0xC0, rng.choice([0, 4, 12])]          # QNAME that is a pointer
        elif r_q < 0.05:
            # a length octet of a reserved label type (0x40..0xbf) FOLLOWED BY THAT MANY OCTETS, so that a parser which
            # takes it for an ordinary label finds a well-formed name behind it
            first = rng.choice([0x80, 0x80, 0x81, 0xBF, 0x40, 0x41, 0x7F, rng.randrange(0x40, 0xC0)])
            at = rng.randint(0, len(labels))
            pre = []
            for l in labels[:at]:
                pre += [len(l)] + list(l)
            body += pre + [first] + [rng.choice([0x61, 0x00, 0xFF]) for _ in range(first)] + enc_name(labels[at:])
        elif r_q < 0.10 and labels:
            # a sibling of the name whose LABEL CONTENT imitates a label boundary: `x<len><label>` instead of `<label>`,
            # mostly at the first label of the zone name (wire-suffix comparisons that ignore label boundaries take it
            # for a subdomain of the zone)
            i = rng.randrange(len(labels))
            if zone_names and rng.random() < 0.7:
                zl = len(rng.choice(zone_names)[0])
                if 0 < zl <= len(labels):
                    i = len(labels) - zl
            fake = bytes([rng.choice([0x78, 0x58])]) + bytes([len(labels[i])]) + labels[i]
            if len(fake) <= 63:
                labels = labels[:i] + [fake] + labels[i + 1:]
            body += enc_name(labels)
        else:
            body += enc_name(labels)
        body += u16(rng.choice(QTYPES)) + u16(rng.choice(QCLASSES))
    an = [gen_plain_rr(rng) if rng.random() < 0.85 else rng.choice([gen_opt, gen_tsig])(rng)
          for _ in range(rng.choice([0, 0, 0, 0, 1, 2]))]
    ns = [gen_plain_rr(rng) if rng.random() < 0.85 else rng.choice([gen_opt, gen_tsig])(rng)
          for _ in range(rng.choice([0, 0, 0, 0, 1]))]
    ar = []
    r = rng.random()
    if r < 0.25:
        pass
    elif r < 0.55:
        ar = [gen_opt(rng)]
    elif r < 0.7:
        ar = [gen_tsig(rng)]
    elif r < 0.8:
        ar = [gen_opt(rng), gen_tsig(rng)]
    else:
        for _ in range(rng.randint(1, 4)):
            ar.append(rng.choice([gen_plain_rr, gen_plain_rr, gen_opt, gen_tsig])(rng))
    counts = [len(an), len(ns), len(ar)]
    if rng.random() < 0.03:
        # counts far beyond what the message holds (incl. sums that overflow 16 bits)
        k = rng.randrange(3)
        counts[k] = rng.choice([0xFFFF, 0x8000, 0xFFFE, 0x7FFF, 256])
        if rng.random() < 0.5:
            counts[(k + 1) % 3] = rng.choice([0xFFFF, 0x8000, 1])
    msg = u16(rng.randrange(65536)) + u16(flags) + u16(qd) + u16(counts[0]) + u16(counts[1]) + u16(counts[2]) + body
    for x in an + ns + ar:
        msg += x
    return msg


def gen_clean_case(rng):
    """A well-formed QUERY (optionally with a valid OPT) for a name at or near an owner of a Loaded zone of the
    right class: exercises query answering (CNAME chains, referrals, wildcards, additional processing)."""
    while True:
        cat, names = gen_catalog(rng, True)
        loaded = [e for e in cat.split(";") if e != "-" and e.split(",")[2] == "L"] if cat != "-" else []
        removed = {(e.split(",")[0], e.split(",")[1].lower()) for e in cat.split(";") if e != "-" and e.split(",")[2] == "R"}
        loaded = [e for e in loaded if (e.split(",")[0], e.split(",")[1].lower()) not in removed]
        if loaded:
            break
    e = rng.choice(loaded).split(",")
    cl = int(e[0])
    owners = []
    for r in e[3].split("+"):
        o = bytes.fromhex(r.split("/")[0])
        labels, i = [], 0
        while o[i] != 0:
            labels.append(o[i + 1:i + 1 + o[i]]); i += 1 + o[i]
        owners.append(labels)
    labels = list(rng.choice(owners))
    r = rng.random()
    if r < 0.25:
        labels = [rng.choice([b"nx", b"x", b"deep", b"*"])] + labels
    elif r < 0.35 and labels:
        labels = labels[1:]
    if rng.random() < 0.2:
        labels = [l.swapcase() for l in labels]
    qtype = rng.choice([1, 1, 1, 2, 5, 6, 15, 16, 28, 33, 255, 99])
    ar = [rr(enc_name([]), 41, rng.choice([512, 1232, 4096]), 0, [])] if rng.random() < 0.4 else []
    msg = u16(rng.randrange(65536)) + u16(rng.choice([0, 0x0100])) + u16(1) + u16(0) + u16(0) + u16(len(ar)) + \
        enc_name(labels) + u16(qtype) + u16(cl)
    for x in ar:
        msg += x
    return single_zone_variant(rng, f"{rng.choice(['u', 't', 't'])} {rng.choice([512, 1232, 4096])} {cat} - {hx(msg)}")


def _labels_of_len(rng, n, ch):
    """labels whose wire form (with the root octet) is exactly n octets long (n >= 3)"""
    out, left = [], n - 1
    while left > 0:
        k = min(63, left - 1)
        if left - 1 - k == 1:        # never leave room for an empty label
            k -= 1
        out.append(bytes([rng.choice(ch)]) * k)
        left -= k + 1
    return out


def gen_limit_edge_case(rng):
    """Requests carrying a TSIG record (and mostly an OPT record) whose RESPONSE - header, question, OPT and the
    response TSIG record - ends within a few octets of the size limit on either side: the reserved-space arithmetic
    of the writer (OPT reserves 11 octets; the TSIG record must fit in what is left) decides between a complete
    response, a truncated one, and an error."""
    cat, names = gen_catalog(rng, rng.random() < 0.7)
    keys = gen_keys(rng)
    with_opt = rng.random() < 0.8
    known = [k.split(",") for k in keys.split(";")] if keys != "-" and rng.random() < 0.4 else []
    if known:
        kn = list(bytes.fromhex(rng.choice(known)[0]))
    else:
        kn = enc_name(_labels_of_len(rng, rng.randint(3, 255), b"kK"))
    alg = rng.choice([enc_name([b"hmac-sha256"]), enc_name([b"hmac-sha1"]),
                      enc_name(_labels_of_len(rng, rng.randint(3, 200), b"aA"))])
    qn = enc_name(_labels_of_len(rng, rng.randint(3, 255), b"qQ"))
    mac = [rng.randrange(256) for _ in range(rng.choice([0, 10, 16, 20, 32]))]
    # response TSIG: owner + 10 + algorithm + 16 (+ MAC of a verified request, + 6 octets of other data for BADTIME)
    base = 12 + len(qn) + 4 + (11 if with_opt else 0) + len(kn) + 10 + len(alg) + 16
    limit = base + (rng.choice([0, 20, 32, 6, 26, 38]) if known else 0) + rng.randint(-13, 13)
    limit = max(512, min(limit, 65535))
    rd = dnsgen.tsig_rdata(rng, alg=alg, mac=mac, time=rng.choice([0, 1700000000]), orig_id=rng.randrange(65536),
                           error=0, other=[])
    ar = ([rr(enc_name([]), 41, limit, 0, [])] if with_opt else []) + [rr(kn, 250, 255, 0, rd)]
    msg = u16(rng.randrange(65536)) + u16(rng.choice([0, 0x0100])) + u16(1) + u16(0) + u16(0) + u16(len(ar)) + \
        qn + u16(rng.choice([1, 2, 255])) + u16(rng.choice([1, 1, 3, 255]))
    for x in ar:
        msg += x
    tr = rng.choice(["u", "u", "u", "t"])
    edns = rng.choice([limit, limit, 65535, max(512, limit - rng.randint(0, 12)), min(65535, limit + rng.randint(0, 12))])
    return f"{tr} {edns} {cat} {keys} {hx(msg)}"


def gen_single_zone_sibling_case(rng):
    """One catalog entry, served through SingleZoneCatalog or the tree catalog; the QNAME is a SIBLING of the zone whose
    label content imitates the zone name's label boundary (`x<len><first label>` + rest), or a name below such a sibling:
    the entry is not a suffix of the QNAME (REFUSED), although its wire form ends in the zone name's wire form."""
    while True:
        cat, names = gen_catalog(rng, rng.random() < 0.7)
        if cat != "-" and ";" not in cat and cat.split(",")[2] != "R" and names and names[0][0]:
            break
    zone, cl = names[0]
    fake = bytes([rng.choice([0x78, 0x58, 0x2A])]) + bytes([len(zone[0])]) + (zone[0].swapcase() if rng.random() < 0.3 else zone[0])
    qn = rng.choice([[], [b"www"], [b"a", b"b"]]) + [fake] + zone[1:]
    if rng.random() < 0.15:
        qn = rng.choice([[], [b"www"]]) + zone          # control: really inside the zone
    msg = u16(rng.randrange(65536)) + u16(rng.choice([0, 0x0100])) + u16(1) + u16(0) + u16(0) + u16(0) + \
        enc_name(qn) + u16(rng.choice([1, 2, 6, 255])) + u16(cl if rng.random() < 0.9 else 1)
    tr = rng.choice(["U", "T", "U", "T", "u", "t"])
    return f"{tr} {rng.choice([512, 1232])} {cat} - {hx(msg)}"


def gen_case(rng, loaded=True, mutate_p=0.3, clean_p=0.0):
    if rng.random() < 0.06:
        return gen_limit_edge_case(rng)
    if rng.random() < 0.03:
        return gen_single_zone_sibling_case(rng)
    if clean_p and rng.random() < clean_p:
        return gen_clean_case(rng)
    cat, names = gen_catalog(rng, loaded)
    keys = gen_keys(rng)
    tr = rng.choice(["u", "u", "t"])
    edns = rng.choice([512, 512, 1232, 1232, 4096, 65535, rng.randint(512, 65535)])
    r = rng.random()
    if r < 0.03:
        req = [rng.randrange(256) for _ in range(rng.randint(0, 40))]
    else:
        req = gen_request(rng, names)
        if rng.random() < mutate_p:
            req = dnsgen.mutate(rng, req)
    return single_zone_variant(rng, f"{tr} {edns} {cat} {keys} {hx(req)}")


def single_zone_variant(rng, line):
    """a catalog description with exactly one entry is served, half of the time, through the crate's OTHER Catalog
    implementation, SingleZoneCatalog (upper-case transport letter; same model: a flat catalog with one entry)"""
    f = line.split(" ")
    if f[2] != "-" and ";" not in f[2] and f[2].split(",")[2] != "R" and rng.random() < 0.5:
        f[0] = f[0].upper()
    return " ".join(f)


# ---------------------------------------------------------------- parsing result lines

def parse_resp(line):
    """'resp k=v ... Q=[..] AN=[..] NS=[..] AR=[..] [flags...] [raw=..]' -> dict"""
    d = {"flags": []}
    for tok in line.split()[1:]:
        if "=" in tok:
            k, v = tok.split("=", 1)
            if v.startswith("[") and v.endswith("]"):
                v = [x for x in v[1:-1].split(",") if x != ""] if v != "[?]" else "?"
            d[k] = v
        else:
            d["flags"].append(tok)
    return d


def canon_tsig_entry(e):
    """owner/250/255/ttl/rdatahex -> owner/250/255/ttl/TSIG(alg=..,err=..,origid=..,signed=..)"""
    p = e.split("/")
    if len(p) != 5 or p[1] != "250" or p[4].startswith("TSIG("):
        return e
    rd = bytes.fromhex(p[4]) if p[4] != "-" else b""
    i = 0
    while i < len(rd) and rd[i] != 0:
        i += 1 + rd[i]
    al = i + 1
    try:
        macsz = (rd[al + 8] << 8) | rd[al + 9]
        origid = (rd[al + 10 + macsz] << 8) | rd[al + 11 + macsz]
        err = (rd[al + 12 + macsz] << 8) | rd[al + 13 + macsz]
    except IndexError:
        return e
    return f"{p[0]}/250/255/{p[3]}/TSIG(alg={rd[:al].hex()};err={err};origid={origid};signed={1 if macsz else 0})"


def lower_owner(e):
    p = e.split("/", 1)
    if len(p) != 2 or p[0] == "-":
        return e
    try:
        return bytes.fromhex(p[0]).lower().hex() + "/" + p[1]
    except ValueError:
        return e


def resp_equal(impl, model):
    if not impl.startswith("resp") or not model.startswith("resp"):
        return impl == model
    a, b = parse_resp(impl), parse_resp(model)
    if "hmac" in b["flags"]:
        return True                 # HMAC verification is a parameter of the model (C10/C11)
    for k in ("id", "qr", "aa", "tc", "rd", "ra", "z", "op", "rc", "qd", "an", "ns", "ar", "len", "Q", "AN", "NS", "AR"):
        if b.get(k) == "?":
            continue
        va, vb = a.get(k), b.get(k)
        if k == "AR":
            va = [canon_tsig_entry(x) for x in va]
        if k in ("AN", "NS", "AR"):
            # owner names (and, since the sections of answered queries are modelled: the compressible names inside
            # RDATA) may have been compressed against an earlier name that differs in case
            va, vb = [qgen.norm_rr(lower_owner(x)) for x in va], [qgen.norm_rr(lower_owner(x)) for x in vb]
        if va != vb:
            return False
    return not ("undecodable" in a["flags"] or "trailing" in a["flags"])


# ---------------------------------------------------------------- property oracles
# The model line doubles as the oracle: Props/C01,C03,C07,C08,C09 prove that the model's
# decisions are the ones the properties prescribe, so a difference in the projected fields on a
# concrete request is a concrete failing input of the property.

BAD = ("panic", "timeout", "crash")


def spec_cols(oracle):
    """verdicts of the extracted spec-level classifier carried by the oracle column:
    fp=<first_problem verdict> sopt=<s_opt_reached> qoct=<request question octets | ->"""
    d = {}
    for tok in oracle.split():
        for k in ("fp=", "sopt=", "qoct="):
            if tok.startswith(k):
                d[k[:-1]] = tok[len(k):]
    return d


def first_problem_ok(impl, oracle):
    """Props/C08.v c08_first_problem / c08_formerr_response / c08_badvers_response / c08_silent_iff_first_problem,
    evaluated on the implementation's response with the extracted classifier's verdict"""
    fp = spec_cols(oracle).get("fp")
    if fp is None:
        return True
    if fp == "silent":
        return impl == "none"
    if not impl.startswith("resp"):
        return False
    a = parse_resp(impl)
    ar = a.get("AR", [])
    opt = [x for x in ar if x.split("/")[1] == "41"]
    tsig = [x for x in ar if x.split("/")[1] == "250"]
    upper = (int(opt[0].split("/")[3]) >> 24) if opt else 0
    nodata = a.get("an") == "0" and a.get("ns") == "0" and a.get("aa") == "0" and _only_pseudo(ar)
    if fp.startswith("formerr:"):
        return a.get("rc") == "1" and upper == 0 and not tsig and nodata
    if fp.startswith("badvers:"):
        return a.get("rc") == "0" and upper == 1 and len(opt) == 1 and not tsig and nodata
    if fp.startswith("tsig:"):
        return bool(tsig) or a.get("tc") == "1"
    if fp == "clean":
        # reaches the opcode dispatch with RCODE 0 and no TSIG: never FORMERR (extended RCODE 1), never a TSIG record
        return not (a.get("rc") == "1" and upper == 0) and not tsig
    return False


def _both_resp(impl, oracle):
    return impl.startswith("resp") and oracle.startswith("resp")


def oracle_c01(case, impl, oracle):
    return impl not in BAD


def request_question_octets(case):
    """(octets of the single question as they stand in the request, contains_pointer) or None"""
    req = bytes.fromhex(case.split()[4]) if case.split()[4] != "-" else b""
    i = 12
    while True:
        if i >= len(req):
            return None
        l = req[i]
        if l & 0xC0 == 0xC0:
            end, ptr = i + 2, True
            break
        if l == 0:
            end, ptr = i + 1, False
            break
        i += 1 + l
    if end + 4 > len(req):
        return None
    return req[12:end + 4], ptr


def question_echo_octets_ok(case, impl):
    """the response repeats the request's question octet for octet"""
    d = parse_resp(impl)
    raw = bytes.fromhex(d.get("raw", "")) if d.get("raw", "-") != "-" else b""
    rq = request_question_octets(case)
    if rq is None or d.get("qd") != "1":
        return True
    return raw[12:12 + len(rq[0])] == rq[0]


def oracle_c03(case, impl, oracle):
    if impl in BAD:
        return False
    if not _both_resp(impl, oracle):
        return impl.split()[0] == oracle.split()[0]
    a, b = parse_resp(impl), parse_resp(oracle)
    return all(a.get(k) == b.get(k) for k in ("id", "op", "rd", "qd", "Q")) and a.get("qr") == "1" \
        and a.get("ra") == "0" and a.get("z") == "0" and question_echo_octets_ok(case, impl) \
        and spec_question_echo_ok(impl, oracle)


def spec_question_echo_ok(impl, oracle):
    """Props/C03.v c03_question_echo_octets: a response with a question to a request whose QNAME is uncompressed
    (octets delimited by the extracted spec walker) carries exactly those octets at offset 12"""
    q = spec_cols(oracle).get("qoct", "-")
    d = parse_resp(impl)
    if q == "-" or d.get("qd") != "1":
        return True
    raw = d.get("raw", "")
    return raw[24:24 + len(q)] == q


def finding_c03_pointer_qname(kf, case, impl, model, oracle):
    """known finding C03-1: a QNAME that contains a compression pointer is echoed decompressed
    (everything else about the response must still agree with the model)."""
    if kf.get("id") != "C03-1" or not _both_resp(impl, oracle):
        return False
    rq = request_question_octets(case)
    if rq is None or not rq[1]:
        return False
    a, b = parse_resp(impl), parse_resp(oracle)
    return all(a.get(k) == b.get(k) for k in ("id", "op", "rd", "qd", "Q")) and a.get("qr") == "1" \
        and a.get("ra") == "0" and a.get("z") == "0" and resp_equal(impl, model)


def _only_pseudo(ar):
    return all(x.split("/")[1] in ("41", "250") for x in ar)


def oracle_c07(case, impl, oracle):
    if impl in BAD:
        return False
    if not _both_resp(impl, oracle):
        return True
    a, b = parse_resp(impl), parse_resp(oracle)
    if b.get("rc") in ("4", "5", "2") and "hmac" not in b["flags"]:
        return a.get("rc") == b["rc"] and a.get("an") == "0" and a.get("ns") == "0" and a.get("aa") == "0" \
            and _only_pseudo(a.get("AR", []))
    if b.get("rc") == "?":          # the model says: answered from a loaded zone
        return a.get("rc") not in ("4", "5") and not (a.get("rc") == "2" and a.get("aa") == "1")
    return True


def oracle_c08(case, impl, oracle):
    if impl in BAD:
        return False
    if not first_problem_ok(impl, oracle):
        return False
    if not _both_resp(impl, oracle):
        return True
    a, b = parse_resp(impl), parse_resp(oracle)
    if "hmac" in b["flags"]:
        return True
    if b.get("rc") == "1":
        return a.get("rc") == "1" and a.get("an") == "0" and a.get("ns") == "0" and _only_pseudo(a.get("AR", []))
    if b.get("rc") not in ("?",):
        return a.get("rc") != "1" or b.get("rc") == "1"
    return a.get("rc") != "1"


def opt_of(d):
    return [x for x in d.get("AR", []) if x.split("/")[1] == "41"] if d.get("AR") != "?" else None


def oracle_c09(case, impl, oracle):
    if impl in BAD:
        return False
    if not _both_resp(impl, oracle):
        return True
    a, b = parse_resp(impl), parse_resp(oracle)
    oa = opt_of(a)
    edns_size = case.split()[1]
    for o in oa:
        owner, ty, cl, ttl, rd = o.split("/")
        if owner != "00" or cl != edns_size or ((int(ttl) >> 16) & 0xFF) != 0 or rd != "-":
            return False
    if len(oa) > 1:
        return False
    sopt = spec_cols(oracle).get("sopt")
    if sopt is not None and (len(oa) == 1) != (sopt == "1"):      # Props/C09.v c09_opt_iff_spec
        return False
    ob = opt_of(b)
    if ob is None:                 # answered from a loaded zone: the model still knows the OPT... via ar? no: skip
        return True
    if len(oa) != len(ob):
        return False
    if oa and "hmac" not in b["flags"]:
        xa = ((int(oa[0].split("/")[3]) >> 24) << 4) | int(a["rc"])
        xb = ((int(ob[0].split("/")[3]) >> 24) << 4) | int(b["rc"]) if b["rc"] != "?" else None
        return xb is None or xa == xb
    return True


RULE = ("[+ streams: TSIG(+OPT) requests whose response ends within 13 octets of the size limit; record owners with pointers / reserved label types; QNAMEs with a reserved-type length octet followed by that many octets; siblings whose label content imitates a label boundary; single-entry catalogs also served through SingleZoneCatalog] seeded requests from an independent Python builder against seeded catalogs (0-4 nested entries over {., a., b.a., c.b.a., "
        "example., sub.example., Example.} in classes IN/CH/7, Loaded/NotYetLoaded/FailedToLoad, with interleaved Catalog::remove "
        "operations on parents/children/absent names) and TSIG key sets; header flags incl. "
        "all opcodes and QR; 0/1/2 questions (QNAMEs around the zone names with case variants, occasionally a bare pointer); "
        "answer/authority records incl. misplaced OPT/TSIG; additional sections with ordinary records, OPT (versions, top-bit TTLs, "
        "non-root owners, payload sizes around 512/1232/65535) and TSIG (known/unknown keys and algorithms, 255-octet names, wrong "
        "class/TTL, not last); then truncation / trailing octets / count edits / byte corruption of a fraction; both transports; "
        "EDNS sizes 512..65535. Implementation responses are decoded by the crate's Reader and compared field by field with the "
        "model's abstract response (sections `?` where the model defers to query answering / HMAC)")

TRUSTED = [
    "Coq 8.16.1 kernel (vm_compute only in the 256-value sweeps and the Examples); axioms: none",
    "the model of Server::handle_message is hand-written (coq/Model/Server.v) and tied to the code by the srv correspondence suite; "
    "query answering for Loaded zones and HMAC verification are PARAMETERS of the theorems (universally quantified), stubbed in the runner",
    "the Writer is abstracted to header fields + question + EDNS/TSIG reservations with exact size arithmetic (only the question has been "
    "written when these happen); byte-level serialisation is C12/C13's subject",
    "extraction: ExtrOcamlBasic only; OCaml 4.13.1; harness/src/srvcase.rs decodes responses with the crate's own Reader",
    "tools/gen/consts.py re-extracts header layout, OPT_RECORD_SIZE, name limits from the Rust source",
]


def make_check(prop, props_file, theorems, oracle, gen, nontrivial, classify, level_text, technique):
    suite = {"name": "srv", "impl_bin": "impl_srv", "extract": "Extract/ExSrv.v", "driver": "run_srv.ml",
             "runner_name": "SRV", "gen": gen, "nontrivial": nontrivial, "classify": classify,
             "oracle_ok": oracle, "corr_eq": lambda case, impl, model: resp_equal(impl, model),
             "exhaustive": {"quick": False, "thorough": False}, "rule": RULE, "n_samples": 4}
    check = {"property": prop, "props": props_file, "theorems": theorems, "allowed_axioms": [],
             "suites": [suite], "trusted_base": TRUSTED,
             "assumptions": ["request octets < 256; response buffer as large as handle_message requires; "
                             "edns_udp_payload_size >= 512 (enforced by set_edns_udp_payload_size)"]}
    manifest = {"level_text": level_text,
                "level_note": ("Trusted: Coq kernel; extraction; fidelity of the hand-written server model (differentially tested on "
                               "every run); query answering and HMAC verification are parameters of these theorems; the Writer is "
                               "abstracted (sizes exact before query processing)."),
                "technique": technique}
    return check, manifest


def std_classify(case, impl, model, oracle):
    if not impl.startswith("resp"):
        return impl
    d = parse_resp(impl)
    ar = d.get("AR", [])
    return f"rc={d.get('rc')} opt={int(any(x.split('/')[1] == '41' for x in ar))} tsig={int(any(x.split('/')[1] == '250' for x in ar))} " \
           f"tc={d.get('tc')} answered={int(d.get('an') != '0' or d.get('ns') != '0')}"
