"""C30 — I/O providers answer each request once with correct framing
(src/io/blocking.rs, src/io/tokio.rs; real loopback sockets against both providers)."""
import os, struct, subprocess, sys

import qv

PROVS = ["b1", "b4", "tk", "tk1"]
NAMES = ["www.example", "example", "ns1.example", "big.example", "huge.example", "nx.example",
         "a.wild.example", "alias.example", "other.test", "x.y.z.example"]
TYPES = [1, 1, 1, 2, 6, 16, 16, 28, 255, 5]


def wire_name(n):
    out = b""
    for l in n.strip(".").split("."):
        if l:
            out += bytes([len(l)]) + l.encode()
    return out + b"\0"


def query(rng, name=None, qtype=None, flags=0x0100, qd=1, edns=None, junk=0):
    name = name or rng.choice(NAMES)
    qtype = qtype or rng.choice(TYPES)
    ar = 1 if edns else 0
    m = struct.pack(">HHHHHH", rng.randrange(65536), flags, qd, 0, 0, ar) + wire_name(name) + struct.pack(">HH", qtype, 1)
    if edns:
        m += b"\0" + struct.pack(">HHIH", 41, edns, 0, 0)
    if junk:
        m += bytes(rng.randrange(256) for _ in range(junk))
    return m


def answered(rng):
    """A message that gets a response (valid, or malformed enough for FORMERR/NOTIMP/REFUSED)."""
    r = rng.random()
    if r < 0.55:
        return query(rng)
    if r < 0.70:
        return query(rng, edns=rng.choice([512, 1232, 4096, 100]))
    if r < 0.78:
        return query(rng, flags=rng.choice([0x2800, 0x1000, 0x7800]))          # other opcodes: NOTIMP
    if r < 0.86:
        return query(rng, junk=rng.randint(1, 40))                               # trailing octets: FORMERR
    if r < 0.93:
        m = query(rng)
        return m[:12] + bytes(rng.randrange(256) for _ in range(rng.randint(0, 12)))  # broken question
    return query(rng, qd=0)[:12]                                                 # header only


def response_less(rng):
    r = rng.random()
    if r < 0.35:
        return bytes(rng.randrange(256) for _ in range(rng.randint(0, 11)))      # no full header
    if r < 0.45:
        return b""                                                               # zero-length message
    if r < 0.75:
        return query(rng, flags=0x8000 | rng.choice([0x0100, 0x0000, 0x0400]))   # QR = 1
    return query(rng, qd=rng.choice([2, 3, 65535]))                              # QDCOUNT > 1


def frame(m):
    return struct.pack(">H", len(m)) + m


def deframe(s):
    out, i = [], 0
    while len(s) - i >= 2:
        n = (s[i] << 8) | s[i + 1]
        if len(s) - i - 2 < n:
            break
        out.append(s[i + 2:i + 2 + n])
        i += 2 + n
    return out


def cut(rng, stream, how):
    """Cut the stream into non-empty segments."""
    n = len(stream)
    if n == 0:
        return []
    if how == "whole":
        pts = []
    elif how == "bytes":
        pts = list(range(1, n))
    elif how == "prefix":       # inside and right after every length prefix
        pts, i = [], 0
        while i + 2 <= n:
            l = (stream[i] << 8) | stream[i + 1]
            pts += [i + 1, i + 2] if rng.random() < 0.7 else [i + 1]
            i += 2 + l
    elif how == "frames":
        pts, i = [], 0
        while i + 2 <= n:
            i += 2 + ((stream[i] << 8) | stream[i + 1])
            pts.append(i)
    else:                        # random cuts
        pts = [rng.randrange(1, n) for _ in range(rng.randint(1, 10))] if n > 1 else []
    pts = sorted({p for p in pts if 0 < p < n})
    segs, last = [], 0
    for p in pts + [n]:
        segs.append(stream[last:p])
        last = p
    return segs


def tcp_conn(rng, tier):
    """(stream, segments-with-delays) of one connection."""
    r = rng.random()
    msgs = []
    k = rng.choice([1, 2, 2, 3, 4, 6, 8])
    for _ in range(k):
        msgs.append(answered(rng))
    if r < 0.40:
        msgs.insert(rng.randrange(len(msgs) + 1), response_less(rng))            # pipelined past a response-less request
    if r > 0.94:
        big = 65535 - rng.choice([0, 0, 1, 2, 100])
        m = query(rng)
        msgs.insert(rng.randrange(len(msgs) + 1), m + bytes(rng.randrange(256) for _ in range(big - len(m))))  # fills the buffer
    stream = b"".join(frame(m) for m in msgs)
    if 0.40 <= r < 0.52:
        stream = stream[:rng.randrange(len(stream) + 1)]                        # ends inside a frame / a prefix
    hows = ["whole", "prefix", "frames", "random", "random", "random"]
    if len(stream) <= 160:
        hows.append("bytes")
    how = rng.choice(hows)
    segs = cut(rng, stream, how)
    out = []
    slow = rng.random() < 0.5
    for s in segs:
        d = 0
        if slow and how != "bytes" and rng.random() < 0.6:
            d = rng.randint(1, 4)
        elif how == "bytes" and rng.random() < 0.05:
            d = 1
        out.append(s.hex() + (f"@{d}" if d else ""))
    return stream, out


def tcp_conn_backlog(rng):
    """Several large responses, then a response-less request, a pause, and more pipelined requests, sent by a
    client that reads nothing until it has sent everything: when the server closes, responses it has written
    are still queued on its side, and the client's later octets arrive unread."""
    msgs = [query(rng, "huge.example", 16) for _ in range(rng.randint(4, 5))]
    msgs += [answered(rng) for _ in range(rng.randint(0, 2))]
    msgs.append(response_less(rng))
    head = b"".join(frame(m) for m in msgs)
    tail = b"".join(frame(answered(rng)) for _ in range(rng.randint(1, 3)))
    segs = [s.hex() for s in cut(rng, head, rng.choice(["whole", "frames", "random"]))]
    segs[-1] += "@60"
    return head + tail, segs + [tail.hex()]


def tcp_conn_slowsplit(rng):
    """A request that arrives in two segments SECONDS apart (but inside READ_MESSAGE_TIMEOUT), then an idle pause of
    seconds (again below the timeout), then a second request: each message has the full timeout to itself - time used
    up by an earlier message must not be carried over."""
    m1, m2 = answered(rng), answered(rng)
    f1 = frame(m1)
    cut_at = rng.choice([1, 2, 3, 10, len(f1) - 1])
    d1 = rng.choice([2800, 3000, 3300])
    d2 = rng.choice([3000, 3200, 3400])
    segs = [f1[:cut_at].hex() + f"@{d1}", f1[cut_at:].hex() + f"@{d2}", frame(m2).hex()]
    return f1 + frame(m2), segs


def tcp_conn_flood(rng):
    """The SAME large query pipelined 100-120 times (5-6 megabytes of responses: more than the largest send queue Linux grows to) by a client that reads nothing until it
    has sent everything and offers a tiny receive window: the server's send queue fills, so its writes come back
    short or block; every response must still arrive complete and in order."""
    q = query(rng, "huge.example", 16)
    n = rng.randint(100, 120)
    stream = frame(q) * n
    segs = [s.hex() for s in cut(rng, stream, rng.choice(["whole", "frames"]))]
    return stream, segs


def table_lookup(keys, transport):
    """Responses of Server::handle_message to each message alone (impl_c30 --table, in-process)."""
    exe = os.path.join(qv.BUILD, "target", "debug", "impl_c30")
    keys = list(keys)
    inp = "".join(f"{transport} {k.hex() if k else '_'}\n" for k in keys)
    p = subprocess.run([exe, "--table"], input=inp, stdout=subprocess.PIPE, stderr=subprocess.DEVNULL, text=True, timeout=300)
    lines = p.stdout.split()
    if len(lines) != len(keys):
        raise RuntimeError("impl_c30 --table did not answer every message")
    return dict(zip(keys, lines))


def table_field(keys, tab):
    if not keys:
        return "-"
    return ";".join(f"{k.hex() if k else '_'}={tab[k]}" for k in keys)


def gen(rng, tier):
    quick = tier == "quick"
    plans = []
    n_tcp = 44 if quick else 700
    for prov in PROVS:
        for i in range(n_tcp):
            nconn = 1 if rng.random() < 0.75 else rng.randint(2, 5)
            conns = [tcp_conn(rng, tier) for _ in range(nconn)]
            conns = [c for c in conns if c[1]] or [(frame(b""), [frame(b"").hex()])]
            plans.append(("tcp", prov, "eof", conns))
    # idle connections: the client stops (possibly inside a frame) and the server must close after
    # READ_MESSAGE_TIMEOUT without answering the incomplete message; spread so that shards run them in parallel
    n_idle = 1 if quick else 8
    idle = []
    for prov in PROVS:
        for _ in range(n_idle):
            idle.append(("tcp", prov, "idle", [tcp_conn(rng, tier) for _ in range(rng.randint(3, 5))]))
    idle = [(a, b, c, [x for x in conns if x[1]] or [(b"\0", ["00"])]) for a, b, c, conns in idle]
    # a client that reads late (responses pile up in the server's send queue)
    for prov in PROVS:
        for i in range(4 if quick else 30):
            conns = [tcp_conn_flood(rng)] if i % 4 == 3 else [tcp_conn_backlog(rng)] if i % 3 != 2 else [tcp_conn(rng, tier) for _ in range(2)]
            conns = [c for c in conns if c[1]] or [(frame(b""), [frame(b"").hex()])]
            plans.append(("tcp", prov, "eofslow", conns))
    # slow clients: seconds between the segments of a request and between requests (below READ_MESSAGE_TIMEOUT each time)
    for prov in PROVS:
        for i in range(1 if quick else 6):
            plans.append(("tcp", prov, "eof", [tcp_conn_slowsplit(rng)]))
    n_udp = 18 if quick else 300
    # the wildcard-bound providers (b1w, tkw: clients talk to 127.0.0.2; replies must come FROM that address): UDP mostly
    for prov in ["b1w", "tkw"]:
        for i in range(3 if quick else 40):
            conns = [tcp_conn(rng, tier) for _ in range(rng.randint(1, 2))]
            conns = [c for c in conns if c[1]] or [(frame(b""), [frame(b"").hex()])]
            plans.append(("tcp", prov, "eof", conns))
    for prov in PROVS + ["b1w", "tkw", "b1w", "tkw"]:
        for i in range(n_udp):
            socks = []
            for _ in range(rng.choice([1, 1, 2, 3])):
                ds = []
                for _ in range(rng.randint(1, 6)):
                    r = rng.random()
                    if r < 0.6:
                        ds.append(answered(rng))
                    elif r < 0.85:
                        ds.append(response_less(rng))
                    else:   # longer than the server's receive buffer (1232): handled truncated
                        ds.append(query(rng, junk=rng.choice([1180, 1232, 1300, 2000, 4000])))
                socks.append(ds)
            plans.append(("udp", prov, None, socks))
    rng.shuffle(plans)
    step = max(1, len(plans) // (len(idle) + 1))
    for j, p in enumerate(idle):
        plans.insert(min(len(plans), (j + 1) * step + j), p)
    # the handler tables
    tcp_keys, udp_keys = set(), set()
    for op, prov, end, body in plans:
        if op == "tcp":
            for stream, _ in body:
                tcp_keys.update(deframe(stream))
        else:
            for ds in body:
                udp_keys.update(d[:1232] for d in ds)
    ttab = table_lookup(sorted(tcp_keys), "tcp")
    utab = table_lookup(sorted(udp_keys), "udp")
    npanic = 0
    for op, prov, end, body in plans:
        if op == "tcp":
            keys = sorted({m for stream, _ in body for m in deframe(stream)})
            if any(ttab[k] == "panic" for k in keys):
                npanic += 1
                continue
            yield f"tcp {prov} {end} {table_field(keys, ttab)} " + " ".join(",".join(segs) for _, segs in body)
        else:
            keys = sorted({d[:1232] for ds in body for d in ds})
            if any(utab[k] == "panic" for k in keys):
                npanic += 1
                continue
            yield f"udp {prov} {table_field(keys, utab)} " + " ".join(",".join(d.hex() if d else "_" for d in ds) for ds in body)
    if npanic:
        print(f"[C30] note: {npanic} generated case(s) dropped because Server::handle_message panics in-process "
              f"on one of their messages (a C01 matter, not an I/O property)", file=sys.stderr)


def _conns(case):
    f = case.split()
    return f[4:] if f[0] == "tcp" else f[3:]


def nontrivial(case, impl, model, oracle):
    """TCP: some connection delivers >= 2 segments and gets >= 1 response frame, or is closed after a
    response-less / incomplete request with octets still unanswered; UDP: >= 2 datagrams."""
    f = case.split()
    if impl in ("panic", "timeout", "crash", "table-mismatch"):
        return False
    if f[0] == "udp":
        return sum(len(s.split(",")) for s in f[3:]) >= 2
    for conn, res in zip(f[4:], impl.split()):
        if len(conn.split(",")) >= 2 and res.split("/")[0] != "-":
            return True
    return False


def classify(case, impl, model, oracle):
    f = case.split()
    if f[0] == "udp":
        got = sum(0 if s.startswith("-") else len(s.split(",")) for s in impl.split())
        sent = sum(len(s.split(",")) for s in f[3:])
        return f"udp:{f[1]}:" + ("all-answered" if got == sent else "some-unanswered" if got else "none-answered")
    st = sorted({r.split("/")[-1] for r in impl.split()})
    return f"tcp:{f[1]}:{f[2]}:{len(f) - 4}conn:" + "+".join(st)


CHECK = {
    "property": "C30",
    "props": "Props/C30.v",
    "theorems": ["c30_segmentation_blocking", "c30_segmentation_tokio", "c30_stream", "c30_close_after_none",
                 "c30_one_response_each", "c30_tcp_total", "c30_udp_one", "c30_udp_blocking", "c30_udp_total",
                 "c30_udp_tokio", "c30_oracle_is_spec"],
    "allowed_axioms": [],
    "suites": [{
        "name": "io",
        "impl_bin": "impl_c30", "extract": "Extract/ExC30.v", "driver": "run_c30.ml",
        "gen": gen, "nontrivial": nontrivial, "classify": classify,
        "exhaustive": {"quick": False, "thorough": False},
        "timeout": {"quick": 110, "thorough": 1500},
        "rule": ("real loopback sockets against BlockingIoProvider[+ the same providers bound to 0.0.0.0 with clients talking to 127.0.0.2 (replies must come from that address); + floods of 5-6 MB of pipelined responses to a late reader with a 64 KiB receive buffer (short writes)]  (1 and 4 base TCP workers, 1 and 3 UDP workers) and "
                 "TokioIoProvider (multi-thread and current-thread runtime): TCP batches of 1..9 pipelined requests (valid, "
                 "EDNS, NOTIMP, FORMERR, 65535-octet buffer-filling, response-less: <12 octets / empty / QR=1 / QDCOUNT>1), "
                 "streams cut whole / per octet / inside every length prefix / at frame borders / at random, pauses 0..4 ms, "
                 "streams ending inside a frame, 1..5 concurrent connections, client half-close (also with a client that reads nothing until it has sent "
                 "everything: large responses queued at the server when it closes after a response-less request) or idle "
                 "(server must close after READ_MESSAGE_TIMEOUT); UDP: 1..3 client sockets x 1..6 datagrams incl. response-less and >1232-octet "
                 "ones; received octets compared with the model run on the nominal segmentation, with the RFC framing oracle, "
                 "and (inside the runner) with Server::handle_message in-process on each message alone; non-trivial = a "
                 "connection with >= 2 segments that received a response, or a UDP case with >= 2 datagrams"),
    }],
    "trusted_base": [
        "Coq 8.16.1 kernel (vm_compute only in the two Examples)",
        "axioms: none (every theorem: Closed under the global context)",
        "extraction: ExtrOcamlBasic only; OCaml 4.13.1 ocamlopt",
        "the hand-written model Model/Framing.v of the two copies of the TCP loop and the UDP loops (tied by the socket-level "
        "differential run and by tools/gen/ioconsts.py: buffer sizes and 12 line-anchored sentinels per provider file)",
        "handler = Server::handle_message on the message alone, as a table computed in-process by the harness and re-verified per case",
        "not modelled: kernel socket behaviour, READ_MESSAGE_TIMEOUT timing (only: an idle connection is closed between 2.5 s and 9 s), "
        "partial/failed writes, local-address selection of unix_udp_localaddr.rs beyond 'reply comes from the address queried', "
        "thread-pool scheduling (C29), the order in which Tokio's per-datagram tasks send",
    ],
    "assumptions": ["octets < 256 (wf_bytes); requests < 2^16 octets; handler responses < 2^16 octets (TCP) / <= payload size (UDP); "
                    "reads return at least one octet unless the peer closed; no shutdown in progress (segmentation theorems)"],
}

MANIFEST = {
    "level_text": ("Coq theorems (no axioms): the model of the TCP connection loop shared by the blocking and the Tokio provider, run "
                   "on ANY segmentation of the framed requests (cuts inside the length prefix, pipelining, reads limited by the "
                   "buffer), writes exactly the framed responses in request order up to and excluding the first response-less "
                   "request and then closes; arbitrary streams are served per RFC 1035 framing; the loop never panics and its fuel "
                   "suffices for every event list incl. timeouts/interrupts/errors; the UDP loops send at most one datagram per "
                   "received datagram, to its source, within the payload size. Tied to the code by real-socket runs against both "
                   "providers."),
    "level_note": ("Proof of the framing automaton; partial w.r.t. the OS: kernel behaviour, timeout timing, partial writes and task "
                   "scheduling are outside the model. handle_message is a parameter (its properties are C01..C11)."),
    "technique": "machine-checked proof in Coq (all segmentations, invariant + fuel measure) + socket-level model/implementation correspondence",
    "design_ref": "DESIGN.md §4 C30",
}
