"""C24 — the zone-file parser is total and only yields valid records (src/zone_file)."""
import os, re, sys
sys.path.insert(0, os.path.dirname(os.path.abspath(__file__)))
import zfgen
from zfgen import hx

REFUSED_TYPES = {10, 41, 250}


def caseless_in_tree():
    """Whether Class/Type::from_str compare mnemonics case-insensitively in the tree under test
    (tools/gen/zftables.py makes the same decision for the model)."""
    repo = os.environ.get("QV_REPO", "/repo")
    try:
        src = open(os.path.join(repo, "src/class.rs")).read()
    except OSError:
        return False
    return re.search(r'^\s*Caseless\("IN"\)\s*=>', src, re.M) is None


def modes(rng):
    return rng.choice(["w", "w", "b1", "b1", "b2", "b3", "b7", "b4096"])


def gen_zf(rng, tier):
    quick = tier == "quick"
    caseless = caseless_in_tree()
    fixed = [b"", b"\n", b"\r\n", b"\r", b" ", b";", b"(", b")", b"()", b"(\n)", b"$", b"$TTL", b"$TTL 1", b"@", b".", b"a",
             b"a.", b". 1 IN A 1.2.3.4", b". IN 1 A 1.2.3.4\n . A 1.2.3.5", b"a. 1 IN TXT \"", b"a. 1 IN TXT \"\\", b"a. 1 IN TXT \\",
             b"a. 1 IN TXT \\1", b"a. 1 IN TXT \\12", b"a. 1 IN TXT \\256", b"a. 1 IN TYPE99 \\# 2 00", b"a. 1 IN TYPE99 \\# 1 000",
             b"a. 1 IN A \\# 4 01020304", b"a. 1 IN A \\# 3 010203", b"a. 1 IN NS \\# 1 00", b"a. 1 IN NS \\# 2 0100",
             b"a. 1 IN SOA \\# 1 00", b"a. 1 IN HINFO \\# 1 05", b"a. 1 IN MINFO \\# 1 00", b"a. 1 IN TXT \\# 0", b"a. 1 IN TXT \\# 2 0161 ",
             b"a. 1 in a 1.2.3.4", b"a. 1 IN NULL \\# 0", b"a. 1 IN OPT \\# 0", b"a. 1 IN TSIG \\# 0", b"a. 1 IN TYPE10 \\# 0",
             b"$ORIGIN a.\n@ 1 IN NS b\n  MX 5 @\n", b"$INCLUDE f\n$INCLUDE \"g h\" a.\n", b"a. 1 CH A b. 177777", b"a. 1 CH A b. 200000",
             b"a. 1 IN WKS 1.2.3.4 TCP 25 80", b"a. 1 IN WKS 1.2.3.4 300", b"a. 1 IN AAAA ::ffff:1.2.3.4", b"a. (1 IN\n A 1.2.3.4 ) ; c\n",
             b"a. 1 IN A ( 1.2.3.4", b"a. 1 IN A 1.2.3.4 )", b"a. 1 IN A (( 1.2.3.4", b"\xff. 1 IN A 1.2.3.4", b"a. \xff IN A 1.2.3.4",
             b"a. 1 IN SRV 1 2 3 .", b"a. 1 IN MX 65536 .", b"x" * 64 + b". 1 IN A 1.2.3.4", (b"x" * 63 + b".") * 4 + b" 1 IN A 1.2.3.4",
             (b"x" * 63 + b".") * 3 + b"y" * 61 + b". 1 IN A 1.2.3.4", (b"x" * 63 + b".") * 3 + b"y" * 62 + b". 1 IN A 1.2.3.4",
             b"$ORIGIN " + (b"x" * 63 + b".") * 3 + b"y" * 59 + b".\na 1 IN A 1.2.3.4\nab 1 IN A 1.2.3.4\n",
             b"a. 1 IN TXT " + b"x" * 255, b"a. 1 IN TXT " + b"x" * 256, b"a. 1 IN TXT \"" + b"x" * 256 + b"\"",
             b"a. 1 IN TXT" + b" x" * 1, b"a. 1 IN HINFO a", b"a. 1 IN HINFO a b c", b"a. 1 IN HINFO \"a\"\"b\""]
    for f in fixed:
        for m in ("w", "b1"):
            yield f"zf {m} {hx(f)}"
    # a field / include path / TXT / WKS record beyond the size limits (one of each: they are big)
    big = [b"x" * 65536 + b" 1 IN A 1.2.3.4", b"a. " + b"1" * 65537, b"$INCLUDE " + b"p" * 65536 + b"\n", b"$INCLUDE \"" + b"p" * 65537 + b"\"",
           b"a. 1 IN TXT" + (b" " + b"y" * 255) * 255 + b" zz", b"a. 1 IN TXT" + (b" " + b"y" * 255) * 256,
           b"; " + b"c" * 70000 + b"\na. 1 IN A 1.2.3.4"]
    if not quick:
        big += [b"a. 1 IN WKS 1.2.3.4 6" + b" 1" * 65535, b"a. 1 IN WKS 1.2.3.4 6" + b" 1" * 65536, b"a. 1 IN WKS 1.2.3.4 6 65535"]
    else:
        big += [b"a. 1 IN WKS 1.2.3.4 6 65535"]
    for f in big:
        yield f"zf {rng.choice(['w', 'b4096', 'b1'])} {hx(f)}"
    # types with a syntax of their own written in the RFC 3597 form with RDATA that is NOT valid for the type
    # (valid RDATA with octets appended, removed or altered): the parser must refuse them, never yield them
    fixed_bad = [b". 0 IN NS \\# 2 0000", b"x. 5 CH PTR \\# 6 016100 ( 01 \n 6200 )", b"a. 60 IN NS \\# 4 00c0ffee", b"a. 1 IN A \\# 5 0102030405",
                 b"a. 1 IN AAAA \\# 15 " + b"00" * 15, b"a. 1 IN MX \\# 4 00010000", b"a. 1 IN SOA \\# 23 0000" + b"00" * 21, b"a. 1 IN SRV \\# 8 0001000200030000",
                 b"a. 1 IN HINFO \\# 3 016100", b"a. 1 IN HINFO \\# 5 0161016200", b"a. 1 IN TXT \\# 3 026161 00", b"a. 1 IN MINFO \\# 3 000000", b"a. 1 CH A \\# 4 00000100",
                 b"a. 1 IN WKS \\# 4 01020304"]
    for f in fixed_bad:
        yield f"zf w {hx(f)}"
    for i in range(400 if quick else 10000):
        t, c, fields = zfgen.rand_rdata(rng, False, rng.random() < 0.3)
        while t not in zfgen.TYPE_NAMES or (fields and fields[0][0] == "gen"):
            t, c, fields = zfgen.rand_rdata(rng, False, rng.random() < 0.3)
        d = bytearray(zfgen.rdata_octets(fields))
        r = rng.random()
        if r < 0.5 or not d:
            d += bytes(rng.randrange(256) for _ in range(rng.choice([1, 1, 2, 3])))
        elif r < 0.8:
            del d[rng.randrange(len(d)):]
        else:
            d[rng.randrange(len(d))] = rng.randrange(256)
        h = bytes(d).hex()
        words = [h]
        if d and rng.random() < 0.3:
            cut = 2 * rng.randint(1, len(d))
            words = [w for w in (h[:cut], h[cut:]) if w]
        cls = c if c is not None else rng.choice([1, 1, 3, 4])
        line = b"a. 1 " + zfgen.render_class(rng, cls, caseless) + b" " + zfgen.render_type(rng, t, caseless) + b" \\# %d " % len(d) + " ".join(words).encode()
        tail = rng.choice([b"\n", b"\nb. 1 IN A 1.2.3.4\n", b""])
        yield f"zf {modes(rng)} {hx(line + tail)}"
    n = 6000 if quick else 150000
    for i in range(n):
        base, _ = zfgen.gen_file(rng, caseless=caseless)
        r = rng.random()
        if r < 0.25:
            data = base
        elif r < 0.75:
            data = zfgen.mutate(rng, base)
        elif r < 0.9:
            data = zfgen.soup(rng)
        else:
            data = zfgen.junk(rng)
        yield f"zf {modes(rng)} {hx(data)}"


def gen_ro(rng, tier):
    """The records-only iterator (Parser::records_only()): files in which a well-formed `$INCLUDE path [origin]`
    line is followed by more records, plain files, and mutants."""
    quick = tier == "quick"
    caseless = caseless_in_tree()
    fixed = [b"", b"$INCLUDE f\n", b"$INCLUDE f\na. 1 IN A 1.2.3.4\n", b"a. 1 IN A 1.2.3.4\n$INCLUDE f\nb. 1 IN A 1.2.3.5\nc. 1 IN A 1.2.3.6\n",
             b"a. 1 IN A 1.2.3.4\n$INCLUDE \"g h\" o.\n  A 1.2.3.5\n", b"$INCLUDE f\n$INCLUDE g\n", b"$INCLUDE f\n)\n", b"$INCLUDE\na. 1 IN A 1.2.3.4\n",
             b"$ORIGIN e.\n$TTL 5\n@ IN NS a\n$include sub.zone sub\nwww IN A 192.0.2.1\nmail IN MX 5 www\n", b"a. 1 IN A 1.2.3\nb. 1 IN A 1.2.3.4\n",
             b"a. 1 IN A 1.2.3.4\n$INCLUDE f ; c\n( b. 1\n IN A 1.2.3.5 )"]
    for f in fixed:
        for m in ("w", "b1"):
            yield f"zro {m} {hx(f)}"
    n = 2500 if quick else 60000
    for i in range(n):
        r = rng.random()
        if r < 0.6:
            a, _ = zfgen.gen_file(rng, caseless=caseless, nlines=rng.choice([0, 1, 2, 3, 5]))
            b, _ = zfgen.gen_file(rng, caseless=caseless, nlines=rng.choice([1, 2, 3, 5, 8]))
            if a and not a.endswith(b"\n"):
                a += b"\n"
            path = zfgen.rand_string(rng, 12) or b"f"
            inc = rng.choice([b"$INCLUDE", b"$include", b"$Include"]) + rng.choice([b" ", b"\t", b"  "]) + zfgen.render_string(rng, path)
            if rng.random() < 0.5:
                inc += b" " + zfgen.render_name(rng, zfgen.rand_name(rng), None)
            if rng.random() < 0.2:
                inc += b" ; " + zfgen.rand_comment(rng)
            data = a + inc + rng.choice([b"\n", b"\r\n"]) + b
            if rng.random() < 0.15:
                data = zfgen.mutate(rng, data)
        elif r < 0.8:
            data, _ = zfgen.gen_file(rng, caseless=caseless)
        else:
            base, _ = zfgen.gen_file(rng, caseless=caseless)
            data = zfgen.mutate(rng, base)
        yield f"zro {modes(rng)} {hx(data)}"


def nontrivial_ro(case, impl, model, oracle):
    # an "include not supported" error was produced after at least one record, or records were yielded
    return "IncludeNotSupported" in impl or impl.startswith("R")


def classify_ro(case, impl, model, oracle):
    if impl in ("panic", "timeout", "crash"):
        return impl
    items = impl.split(" ; ")[:-1]
    if not items:
        return "empty"
    last = items[-1]
    if last.startswith("E"):
        return "err:" + last.split(" ", 1)[1].split(":")[0] + (":after-records" if len(items) > 1 else "")
    return "ok:%s" % ("1" if len(items) == 1 else "2-4" if len(items) < 5 else "5+")


def oracle_zf(case, impl, oracle):
    """The property itself, evaluated on the implementation's answer: no panic / hang; at most one
    error item and it is the last one; nothing after the iterator ended; every record has an
    absolute owner (a wire-format name ending in the root label whose label count matches), a type
    other than NULL/OPT/TSIG and RDATA accepted by the real Rdata::validate."""
    if impl in ("panic", "timeout", "crash") or not impl:
        return False
    items = impl.split(" ; ")
    if not items[-1].startswith("after=") or items[-1] != "after=0":
        return False
    items = items[:-1]
    for i, it in enumerate(items):
        if it.startswith("E"):
            if i != len(items) - 1:
                return False
        elif it.startswith("R"):
            f = dict(x.split("=", 1) for x in it.split()[1:])
            if f.get("v") != "ok" or int(f["y"]) in REFUSED_TYPES:
                return False
            w, nl = f["o"].split("/")
            if not absolute(w, int(nl)):
                return False
        elif not it.startswith("I"):
            return False
    return True


def absolute(whex, nlabels):
    b = bytes.fromhex(whex) if whex != "-" else b""
    i, n = 0, 0
    while i < len(b):
        l = b[i]
        n += 1
        if l == 0:
            return i == len(b) - 1 and len(b) <= 255 and n == nlabels
        if l > 63:
            return False
        i += 1 + l
    return False


def nontrivial_zf(case, impl, model, oracle):
    # at least one record was yielded, or the parse ended in an error beyond line 1 / column 1
    if " ; " not in impl:
        return False
    first = impl.split(" ; ")[0]
    return first[0] in "RI" or not first.startswith("E1:1 ")


def classify_zf(case, impl, model, oracle):
    if impl in ("panic", "timeout", "crash"):
        return impl
    items = impl.split(" ; ")[:-1]
    if not items:
        return "empty"
    last = items[-1]
    if last.startswith("E"):
        return "err:" + last.split(" ", 1)[1].split(":")[0]
    return "ok:%s" % ("1" if len(items) == 1 else "2-4" if len(items) < 5 else "5+")


# ------------------------------------------------------------------ std parsers

def gen_std(rng, tier):
    quick = tier == "quick"
    ints = [b"", b"+", b"-", b"0", b"00", b"+0", b"-0", b"+1", b"++1", b"1+", b"255", b"256", b"0255", b"65535", b"65536", b"4294967295",
            b"4294967296", b"42949672950", b"4294967295x", b"99999999999999999999", b"12a", b"a", b" 1", b"1 ", b"\xc3\xa9", b"\xff", b"1\xc3\xa91",
            b"\xd9\xa1", b"0x10", b"1_0", b"1e3"]
    for s in ints:
        for op in ("u8", "u16", "u32"):
            yield f"{op} {hx(s)}"
    for _ in range(1500 if quick else 40000):
        n = rng.choice([1, 2, 3, 4, 5, 6, 9, 10, 11, 12])
        s = bytes(rng.choice(b"0123456789") if rng.random() < 0.93 else rng.choice(b"+-a \xff") for _ in range(n))
        if rng.random() < 0.1:
            s = b"+" + s
        if rng.random() < 0.3:
            s = rng.choice([b"25", b"6553", b"429496729"]) + bytes([rng.choice(b"0123456789")])
        yield f"{rng.choice(['u8', 'u16', 'u32'])} {hx(s)}"
    ip4 = [b"", b".", b"1.2.3.4", b"1.2.3", b"1.2.3.4.5", b"1.2.3.4.", b".1.2.3.4", b"255.255.255.255", b"256.1.1.1", b"1.1.1.256", b"01.2.3.4",
           b"1.2.3.04", b"0.0.0.0", b"00.0.0.0", b"1..2.3", b"1.2.3.4 ", b"1.2.3.a", b"0001.2.3.4", b"1.2.3.4444", b"123.123.123.123",
           b"1234.1.1.1", b"+1.2.3.4", b"1.2.3.+4", b"999.9.9.9", b"1.2.3.4\xc3\xa9", b"1.2.3.0x4"]
    for s in ip4:
        yield f"ip4 {hx(s)}"
        yield f"ip6 {hx(s)}"
        yield f"ip6 {hx(b'::' + s)}"
        yield f"ip6 {hx(b'1:2:3:4:5:6:' + s)}"
    ip6 = [b"::", b":::", b"::1", b"1::", b"1::1", b"1:2:3:4:5:6:7:8", b"1:2:3:4:5:6:7", b"1:2:3:4:5:6:7:8:9", b"1:2:3:4:5:6:7::", b"::2:3:4:5:6:7:8",
           b"1::3:4:5:6:7:8", b"1:2:3:4::5:6:7:8", b"1:2:3:4:5:6:7:8::", b"::1:2:3:4:5:6:7:8", b"1::2::3", b":1", b"1:", b":1::", b"12345::", b"0000::", b"00000::",
           b"g::", b"ffff:FFFF::", b"::ffff:1.2.3.4", b"::1.2.3.4", b"1.2.3.4::", b"1:2:3:4:5:6:1.2.3.4", b"1:2:3:4:5:1.2.3.4", b"1:2:3:4:5:6:7:1.2.3.4",
           b"::1.2.3.4:5", b"1:2:3:4:5:6::1.2.3.4", b"1:2:3:4:5::1.2.3.4", b"::1.2.3", b"::1.2.3.256", b"::01.2.3.4", b"1::1.2.3.4", b"::0:1.2.3.4", b"::.1.2.3", b"::1.",
           b"fe80::1%1", b"[::1]", b"::1 ", b" ::1", b"1:2:3:4:5:6:7:8 ", b"a:b:c:d:e:f:0:1", b"A:B:C:D:E:F:0:1", b"::abcd:12345", b"1:2:3:4:5:6:7:"]
    for s in ip6:
        yield f"ip6 {hx(s)}"
    for _ in range(1500 if quick else 40000):
        r = rng.random()
        if r < 0.4:
            s = zfgen.render_ipv6(rng, bytes(rng.choice([0, 0, rng.randrange(256)]) for _ in range(16)))
        elif r < 0.5:
            s = zfgen.render_ipv4(bytes(rng.randrange(256) for _ in range(4)))
        else:
            s = bytes(rng.choice(b"0123456789abcdefABCDEF::::....") if rng.random() < 0.97 else rng.choice(b"g +\xff%") for _ in range(rng.randint(0, 24)))
        if rng.random() < 0.3 and s:
            i = rng.randrange(len(s))
            s = s[:i] + bytes([rng.choice(b"0123456789abcdef:.")]) + s[i + rng.choice([0, 1]):]
        yield f"{'ip4' if rng.random() < 0.3 else 'ip6'} {hx(s)}"
    syms = [b"", b"IN", b"in", b"In", b"CH", b"HS", b"hs", b"CS", b"ANY", b"NONE", b"*", b"CLASS", b"CLASS0", b"class1", b"ClAsS255", b"CLASS65535", b"CLASS65536",
            b"CLASS+1", b"CLASS-1", b"CLASS01", b"CLASS1 ", b"CLAS1", b"CLASSS1", b"CLASS\xc3\xa9", b"CLAS\xc3\xa9", b"\xc3\xa9LASS1", b"TYPE", b"TYPE0", b"type1",
            b"TyPe65535", b"TYPE65536", b"TYPE+28", b"TYPE10", b"TYP\xc3\xa9", b"A", b"a", b"AAAA", b"aaaa", b"Aaaa", b"SOA", b"soa", b"NULL", b"null", b"OPT", b"TSIG",
            b"AXFR", b"IXFR", b"MAILB", b"ANY", b"SRV", b"srv", b"WKS", b"HINFO", b"MINFO", b"MX", b"mx", b"TXT", b"txt", b"NS", b"ns", b"MD", b"MF", b"CNAME", b"cname",
            b"MB", b"MG", b"MR", b"PTR", b"ptr", b"NSEC", b"A ", b" A", b"AA", b"\xff"]
    for s in syms:
        yield f"class {hx(s)}"
        yield f"type {hx(s)}"
    for _ in range(300 if quick else 5000):
        s = bytes(rng.randrange(256) if rng.random() < 0.3 else rng.choice([0x41, 0xC3, 0xA9, 0xE2, 0x82, 0xAC, 0xF0, 0x9F, 0x98, 0x80, 0xED, 0xA0, 0x80, 0xF4, 0x90, 0xC0, 0xC1, 0xE0, 0x9F, 0xBF])
                  for _ in range(rng.randint(0, 6)))
        yield f"utf8 {hx(s)}"
    for a in range(256):
        yield f"utf8 {hx(bytes([a]))}"
    for a in (0xC2, 0xDF, 0xE0, 0xE1, 0xEC, 0xED, 0xEE, 0xEF, 0xF0, 0xF1, 0xF3, 0xF4, 0xC1, 0xF5):
        for b in (0x7F, 0x80, 0x8F, 0x90, 0x9F, 0xA0, 0xBF, 0xC0):
            yield f"utf8 {hx(bytes([a, b]))}"
            yield f"utf8 {hx(bytes([a, b, 0x80]))}"
            yield f"utf8 {hx(bytes([a, b, 0x80, 0xBF]))}"
            yield f"utf8 {hx(bytes([a, b, 0xC0, 0x80]))}"


CHECK = {
    "property": "C24",
    "props": "Props/C24.v",
    "theorems": ["c24_total", "c24_stops", "c24_stops_run", "c24_valid", "c24_owner_absolute", "c24_include_origin",
                 "c24_records_only_total", "c24_records_only_stops", "c24_records_only_stops_run", "c24_records_only_include"],
    "allowed_axioms": [],
    "suites": [
        {"name": "zonefuzz", "runner_name": "C24_run", "impl_bin": "impl_c24", "extract": "Extract/ExC24.v", "driver": "run_c24.ml",
         "gen": gen_zf, "nontrivial": nontrivial_zf, "classify": classify_zf, "oracle_ok": oracle_zf,
         "exhaustive": {"quick": False, "thorough": False},
         "rule": ("hand-written boundary files (both whole and 1-octet-at-a-time streams), oversize field / include path / TXT / WKS inputs, types with a syntax of "
                  "their own written in the RFC 3597 form with RDATA that is invalid for the type (valid RDATA with octets appended / removed / altered), and seeded inputs: "
                  "25% well-formed files from the structured generator (all RR types, $ORIGIN/$TTL/$INCLUDE, parentheses, comments, escapes, \\# RDATA, LF/CRLF), "
                  "50% truncation/insertion/deletion/replacement/duplication mutants of such files, 15% token soups from a zone-file vocabulary, 10% random octets; "
                  "each fed through Read impls returning everything / 1 / 2 / 3 / 7 / 4096 octets per call; "
                  "non-trivial = at least one record or $INCLUDE was yielded, or the first error lies beyond line 1 column 1; distinct = distinct case line")},
        {"name": "recordsonly", "runner_name": "C24_run", "impl_bin": "impl_c24", "extract": "Extract/ExC24.v", "driver": "run_c24.ml",
         "gen": gen_ro, "nontrivial": nontrivial_ro, "classify": classify_ro, "oracle_ok": oracle_zf,
         "exhaustive": {"quick": False, "thorough": False},
         "rule": ("the iterator returned by Parser::records_only() (what the zone loader consumes), against the model of RecordsOnly (Model/ZfRecOnly.v): "
                  "hand-written files, 60% generated files in which a well-formed `$INCLUDE path [origin]` line (any case, quoted/unquoted path, optional comment) "
                  "is followed by further generated records, 20% plain generated files, 20% mutants; same property predicate as zonefuzz (an error item, "
                  "including the iterator's own IncludeNotSupported, must be the last item and three further next() calls must yield nothing); "
                  "non-trivial = records were yielded or the include error was produced")},
        {"name": "std", "runner_name": "C24_run", "impl_bin": "impl_c24", "extract": "Extract/ExC24.v", "driver": "run_c24.ml",
         "gen": gen_std, "nontrivial": lambda case, impl, model, oracle: impl.startswith("ok") or impl.startswith("err"),
         "classify": lambda case, impl, model, oracle: case.split()[0] + ":" + impl.split()[0] + (":" + impl.split()[1] if impl.startswith("err ") else ""),
         "exhaustive": {"quick": False, "thorough": False},
         "rule": ("u8/u16/u32::from_str, Ipv4Addr/Ipv6Addr::from_str, str::from_utf8, Class/Type::from_str of the toolchain and crate under test against their "
                  "Coq models on boundary strings and seeded digit / address / mnemonic / UTF-8 strings; non-trivial = the string was valid UTF-8")},
    ],
    "trusted_base": [
        "Coq 8.16.1 kernel; axioms: none (every theorem: Closed under the global context)",
        "extraction: ExtrOcamlBasic only; OCaml 4.13.1 ocamlopt",
        "model/code correspondence (tested, not proved): Model/ZfReader.v, Model/ZfParser.v, Model/ZfStd.v against src/zone_file, src/name/builder.rs, "
        "src/rr/rdata and the std parsers of the installed toolchain",
        "the buffer-free stream model: try_fill/shift of the real Reader are exercised through Read impls with 1/2/3/7/4096-octet reads, not verified",
        "tools/gen/zftables.py re-extracts TYPE/CLASS constants, mnemonic tables (and whether they are matched case-insensitively), "
        "the refused types and the parse_rdata / Rdata::validate dispatch keys; tools/gen/consts.py MAX_READ_FIELD_SIZE, INCLUDE_PATH_MAX, name limits",
        "C14's model of validate_uncompressed_name (Model/NameWire.v) is reused for the name validators",
    ],
    "assumptions": ["the stream returns no I/O error", "line/column counters do not overflow usize (needs > 2^64 octets)",
                    "octets of the input are < 256 (wf_bytes)"],
}

MANIFEST = {
    "level_text": ("Coq theorems (no axioms) about an executable, panic-faithful model of the whole zone-file parser: for every input the iterator "
                   "terminates without panic, yields nothing after its first error, and every yielded record has a valid absolute owner name, a type "
                   "other than NULL/OPT/TSIG and RDATA accepted by the model of Rdata::validate for its class and type (incl. the \\# form); the model "
                   "is tied to the code by a differential run (records, line numbers, error kind and position) on generated well-formed, mutated and "
                   "random inputs fed through several chunked Read impls, and every record yielded by the real parser is re-validated by the real Rdata::validate."),
    "level_note": ("Trusted: Coq kernel, extraction, the hand-written model's correspondence to the Rust code and to the std parsers (differentially "
                   "tested), the buffer-free stream abstraction, regenerated tables."),
    "technique": "machine-checked proof in Coq (totality, invariants) + model/implementation correspondence check",
    "design_ref": "DESIGN.md §4 C24",
}
