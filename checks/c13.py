"""C13 — name compression only emits valid, permitted pointers (src/message/writer.rs)."""
import writer_check

ORACLE = writer_check.Oracle("--oracle13")


def gen(rng, tier):
    yield from ORACLE.gen(rng, tier, similar=True)


def nontrivial(case, impl, model, oracle):
    # a finished message that actually contains a compression pointer
    return impl.startswith("ops=") and writer_check.n_pointers(impl) > 0


CHECK = {
    "property": "C13",
    "props": "Props/C13.v",
    "theorems": ["c13_owner_pointer_valid", "c13_unhinted_pointer_valid", "c13_anchor_valid", "c13_scan_sound",
                 "c13_disabled_owner", "c13_disabled_unhinted", "c13_no_compressible_component",
                 "c13_srv_ch_a_components", "c13_uncompressible_plain",
                 "c13_owner_pointer_into_label_starts", "c13_unhinted_pointer_into_label_starts",
                 "c13_anchor_invariant_all_ops", "c13_message_pointers_valid_partial",
                 "c13_message_pointers_valid", "c13_spec_pointer_rules_hold"],
    "allowed_axioms": [],
    "suites": [{
        "name": "writer",
        "runner_name": "C12_writer",
        "impl_bin": "impl_c12",
        "extract": "Extract/ExC12.v",
        "driver": "run_c12.ml",
        "gen": gen,
        "nontrivial": nontrivial,
        "classify": writer_check.classify,
        "oracle_ok": ORACLE.oracle_ok,
        "exhaustive": {"quick": False, "thorough": False},
        "timeout": {"quick": 600, "thorough": 3000},
        "rule": ("the C12 operation-sequence generator biased to many similar names (one base domain, 6-14 pool names "
                 "sharing suffixes, case variants, names longer and shorter than their neighbours), larger buffers, mostly "
                 "standard / case-preserving mode with disabled phases, RDATA of SRV, Chaosnet A and unknown types holding "
                 "the same names; implementation compared octet for octet with the extracted model and judged by the "
                 "extracted specification judge13 (every pointer met while decoding the finished message leads strictly "
                 "before its name to a label start of an earlier name; none in names written with compression disabled, in "
                 "SRV / CH A names; RDATA of types without compressible names equals the caller's octets; issued hint "
                 "pointers lead to their names); non-trivial = finished message containing a pointer; distinct = case line"),
    }],
    "trusted_base": [
        "Coq 8.16.1 kernel (vm_compute in the Example only)",
        "axioms: none",
        "extraction: ExtrOcamlBasic only; OCaml 4.13.1 ocamlopt",
        "correspondence: checks/writer_gen.py, checks/writer_check.py, harness/src/bin/impl_c12.rs, ocaml/run_c12.ml, line diff in tools/qv.py",
        "tools/gen/writertab.py re-extracts the Rdata::components match and the components_as_* tables (c13_no_compressible_component is re-proved against them on every run)",
        "the ghost set L of label starts and the ghost layout are existentially quantified in the theorems; L is characterised exactly (p_tight: the label starts of the layout's chunks)",
    ],
    "assumptions": ["names are valid Names (labels 1..63 octets, at most 127 labels)",
                    "hints obey the API contract (hint_contract; checked per case by the specification replay)",
                    "octets < 256; TSIG times are 6 octets"],
}

MANIFEST = {
    "level_text": ("Coq theorems (no axioms) about the model of src/message/writer.rs, for ALL operation sequences obeying the hint "
                   "contract: the anchor invariant (the ghost set L of label starts is closed under the decoding step; decoding "
                   "from a member reads only message-body octets outside the RDLENGTH field being written, so header writes, "
                   "RDLENGTH back-patching and appends never change it; every pointer met leads strictly backwards to another "
                   "member; the three compression anchors and every live hint-vector slot are members standing for their names) "
                   "is preserved by EVERY operation incl. rollbacks, clear_rrs and finish; every name write emits the plain wire "
                   "form or k < |name| labels plus ONE pointer whose target is a member of the set as it was BEFORE this name "
                   "(a label start of a name written earlier), strictly before the name, and the new set is the old one plus "
                   "exactly this name's own label starts; MESSAGE LEVEL: the finished message has a layout of name chunks tied, "
                   "in order, to the names of the abstract message of the succeeded operations, every chunk plain or labels + one "
                   "such pointer, L being exactly the label starts of the chunks, AND the decoded finished message passes the "
                   "specification's own pointer-rule checker (check_qs/check_rrs: every pointer leads strictly before its name to "
                   "a label start of a name decoded before it; no pointer at all in items written with compression disabled); uncompressible RDATA names (SRV, Chaosnet A) are "
                   "plain, RDATA without name components is raw octets, the regenerated component table has no compressible name "
                   "outside RFC 1035's eleven types (and equals the RFC layout of the specification); with compression disabled a "
                   "name write emits the plain form whatever the hint. The two-name heuristic scan only reports real suffix "
                   "matches and never panics."),
    "level_note": ("Trusted: Coq kernel, extraction, the model's correspondence to the Rust code (differentially tested), the "
                   "regenerated component tables. The extracted pointer-rule checker judge13 still runs on the implementation's output."),
    "technique": "machine-checked proof in Coq (closure invariant of the label-start set, lock-step scan invariant, layout refinement) + model/implementation correspondence check + extracted pointer-rule oracle",
}
