"""C13 — name compression only emits valid, permitted pointers (src/message/writer.rs)."""
import writer_check

ORACLE = writer_check.Oracle("--oracle13")


def gen(rng, tier):
    yield from ORACLE.gen(rng, tier, similar=True)


def nontrivial(case, impl, model, oracle):
    # a finished message that actually contains a compression pointer
    return impl.startswith("ops=") and writer_check.n_pointers(impl) > 0


CHECK = {
    "property": "C13",
    "props": "Props/C13.v",
    "theorems": ["c13_owner_pointer_valid", "c13_unhinted_pointer_valid", "c13_anchor_valid", "c13_scan_sound",
                 "c13_disabled_owner", "c13_disabled_unhinted", "c13_no_compressible_component",
                 "c13_srv_ch_a_components", "c13_uncompressible_plain",
                 "c13_owner_pointer_into_label_starts", "c13_unhinted_pointer_into_label_starts",
                 "c13_anchor_invariant_all_ops", "c13_message_pointers_valid_partial"],
    "allowed_axioms": [],
    "suites": [{
        "name": "writer",
        "runner_name": "C12_writer",
        "impl_bin": "impl_c12",
        "extract": "Extract/ExC12.v",
        "driver": "run_c12.ml",
        "gen": gen,
        "nontrivial": nontrivial,
        "classify": writer_check.classify,
        "oracle_ok": ORACLE.oracle_ok,
        "exhaustive": {"quick": False, "thorough": False},
        "timeout": {"quick": 600, "thorough": 3000},
        "rule": ("the C12 operation-sequence generator biased to many similar names (one base domain, 6-14 pool names "
                 "sharing suffixes, case variants, names longer and shorter than their neighbours), larger buffers, mostly "
                 "standard / case-preserving mode with disabled phases, RDATA of SRV, Chaosnet A and unknown types holding "
                 "the same names; implementation compared octet for octet with the extracted model and judged by the "
                 "extracted specification judge13 (every pointer met while decoding the finished message leads strictly "
                 "before its name to a label start of an earlier name; none in names written with compression disabled, in "
                 "SRV / CH A names; RDATA of types without compressible names equals the caller's octets; issued hint "
                 "pointers lead to their names); non-trivial = finished message containing a pointer; distinct = case line"),
    }],
    "trusted_base": [
        "Coq 8.16.1 kernel (vm_compute in the Example only)",
        "axioms: none",
        "extraction: ExtrOcamlBasic only; OCaml 4.13.1 ocamlopt",
        "correspondence: checks/writer_gen.py, checks/writer_check.py, harness/src/bin/impl_c12.rs, ocaml/run_c12.ml, line diff in tools/qv.py",
        "tools/gen/writertab.py re-extracts the Rdata::components match and the components_as_* tables (c13_no_compressible_component is re-proved against them on every run)",
        "not proved: preservation of the anchor invariant across whole RR operations (RDLENGTH back-patching), see docs/C13.md",
    ],
    "assumptions": ["names are valid Names (labels 1..63 octets, at most 127 labels)",
                    "hints obey the API contract (hint_contract; checked per case by the specification replay)",
                    "the writer state satisfies nb and priors_ok (shown to be established by every name write; preservation across RR operations is tested, not proved)"],
}

MANIFEST = {
    "level_text": ("Coq theorems (no axioms) about the model of src/message/writer.rs: for every writer state satisfying the "
                   "anchor invariant and every hint obeying the API contract, a name write never panics and emits either the "
                   "plain wire form or leading labels plus ONE pointer that leads strictly before the name to a label (never a "
                   "pointer) from which the rest of the name decodes using only earlier octets; the two-name heuristic scan "
                   "only reports real suffix matches; with compression disabled, and for uncompressible name components, the "
                   "plain wire form is written; the regenerated component table has no compressible name outside RFC 1035's "
                   "eleven types (so none in SRV, Chaosnet A, unknown types). PARTIAL: preservation of the anchor invariant "
                   "across whole RR operations is not proved; the message-level statement is decided on every run by the "
                   "extracted pointer-rule checker on the implementation's output, after an octet-for-octet differential run."),
    "level_note": ("Trusted: Coq kernel, extraction, the model's correspondence to the Rust code (differentially tested), the "
                   "regenerated component tables."),
    "technique": "machine-checked proof in Coq (lock-step scan invariant, per-name emission theorem) + model/implementation correspondence check + extracted pointer-rule oracle",
}
