"""C29 — worker pools run every accepted task and shut down cleanly (src/thread.rs).

Proof side: Props/C29.v (invariant over all interleavings of the LTS of Model/Pool.v).
Implementation side: trace validation.  harness/src/bin/impl_c29.rs runs randomized
scenarios on the real ThreadGroup/ThreadPool with the `quandary_verif` hooks armed
(one logged event per critical section + random delays at the scheduling points) and
prints end-to-end counters and the linearised trace; ocaml/run_c29.ml replays the trace
on the extracted LTS (Model/PoolTrace.v: validate).  A run is fine iff the model accepts
the whole trace, ends quiescent with the same number of accepted/finished tasks, and
the end-to-end counters show: every accepted task ran exactly once and had run when
await_shutdown returned, no rejected task ran, nothing accepted after shutdown returned.
"""
import json, os, re, sys

sys.path.insert(0, os.path.join(os.path.dirname(os.path.abspath(__file__)), "..", "tools"))
import qv

IMPL_BIN = "impl_c29"
EXTRACT = "Extract/ExC29.v"
DRIVER = "run_c29.ml"


# ----------------------------------------------------------------------------- generator

def prog(rng, maxops, kinds):
    n = rng.randint(1, maxops)
    s = ""
    for _ in range(n):
        s += rng.choice(kinds)
        r = rng.random()
        if r < 0.4:
            s += str(rng.randint(1, 9))
        elif r < 0.5:
            s += str(rng.randint(10, 40))
    return s


def random_case(rng):
    nperm = rng.choice([0, 0, 1, 1, 2])
    linger = rng.choice([0, 1000, 1000, 50000])
    nsub = rng.randint(1, 4)
    kinds = rng.choice(["s", "sb", "ssb", "b"]) if nperm > 0 else rng.choice(["s", "s", "ssb", "sb"])
    progs = ",".join(prog(rng, 5, kinds) for _ in range(nsub))
    task_max = rng.choice([0, 0, 200, 1000, 3000])
    dly = f"{rng.choice([0, 20, 50])},{rng.choice([200, 1000, 2000])}"
    cs = f"{rng.choice([0, 30, 100])},{rng.choice([500, 1500, 3000])}"
    sd = rng.choice([0, rng.randint(0, 3000), rng.randint(0, 15000)])
    q = -1 if rng.random() < 0.7 else rng.randint(0, max(1, sd))
    panic = rng.choice([0, 0, 0, 10, 30])
    n_aw = rng.choice([1, 1, 2])
    n_gsd = rng.choice([1, 1, 2])
    aw = rng.randint(0, sd + 2000)
    q_mode = rng.choice([0, 1, 1, 2])
    if q >= 0 and q_mode and rng.random() < 0.5:
        q = rng.randint(max(0, sd - 300), sd + 600)      # around / after the group's shutdown
    return f"{nperm} {linger} {progs} {task_max} {rng.getrandbits(48)} {dly} {cs} {sd} {q} {panic} {n_aw} {n_gsd} {aw} {q_mode}"


def race_case(rng):
    """Directed at the linger-timeout race: few or no permanent workers, 1 ms linger,
    a submitter that sleeps inside its critical section past the deadline."""
    nperm = rng.choice([0, 0, 0, 1])
    nsub = rng.randint(1, 3)
    progs = ",".join("".join("s" + str(rng.choice([3, 5, 8, 10, 12, 15])) for _ in range(rng.randint(2, 5))) for _ in range(nsub))
    cs = f"{rng.choice([60, 100])},{rng.choice([1500, 3000])}"
    dly = f"{rng.choice([0, 20])},{rng.choice([200, 1000])}"
    sd = rng.randint(8000, 25000)
    return f"{nperm} 1000 {progs} {rng.choice([0, 100, 500])} {rng.getrandbits(48)} {dly} {cs} {sd} -1 0 1 1 {rng.randint(0, sd)} 0"


def respawn_case(rng):
    """ThreadPool::shut_down alone, then > 1 s until the group shuts down: the permanent
    workers exit, throttle for THREAD_RESPAWN_DELAY and respawn."""
    nperm = rng.choice([1, 2])
    progs = ",".join(prog(rng, 3, "sb") for _ in range(rng.randint(1, 2)))
    sd = rng.randint(1_050_000, 1_300_000)
    return f"{nperm} {rng.choice([0, 1000])} {progs} 200 {rng.getrandbits(48)} 20,500 0,0 {sd} {rng.randint(0, 2000)} {rng.choice([0, 30])} 1 1 {rng.randint(0, sd)} {rng.choice([0, 1])}"


def gen(rng, tier):
    quick = tier == "quick"
    n = 2400 if quick else 100000
    # regression: the schedule that stranded a task on the old worker loop (0 permanent workers,
    # 1 ms linger, second submit_or_spawn sleeping up to 3 ms inside its critical section), and
    # ThreadPool::shut_down racing with / following ThreadGroup::shut_down (twice)
    for k in range(12 if quick else 100):
        yield f"0 1000 s5s 0 {k + 1} 0,0 100,3000 20000 -1 0 1 1 0 0"
        yield f"1 0 s3b,s 100 {k + 1} 20,300 100,800 1000 {900 + 20 * k} 0 1 2 0 2"
    for _ in range(4 if quick else 40):
        yield respawn_case(rng)
    # two pools of one group, one after the other, and a second shut_down through the first pool's stale handle
    for _ in range(24 if quick else 400):
        yield f"twopool {rng.choice([0, 1, 2])} {rng.choice([0, 1, 1, 2])} {rng.choice([0, 100, 100000])} {rng.randint(1, 6)}"
    for i in range(n):
        yield race_case(rng) if i % 4 == 0 else random_case(rng)


# ----------------------------------------------------------------------------- evaluation

E2E = re.compile(r"^e2e acc=(\d+) ran=(\d+) dup=(\d+) late=(\d+) ghost=(\d+) okafter=(\d+) awaits=(\d+)$")
MOK = re.compile(r"^ok next=(\d+) done=(\d+) started=(\d+) qlen=(\d+) live=(\d+) quiescent=(\d+) awret=(\d+) events=(\d+)$")


def split_impl(line):
    if " T " in line:
        head, tr = line.split(" T ", 1)
        return head.strip(), tr.strip()
    return line.strip(), "-"


def judge(case, head, model):
    """(kind, what) for a failing run, None for a good one. kind: property | correspondence."""
    f = case.split()
    if f[0] == "twopool":
        # two pools of one group in sequence + a stale handle (not in the single-pool LTS: judged on the outcome alone)
        if head == "twopool ok":
            return None
        if head in ("hang", "timeout"):
            return "property", "two pools, stale handle: the scenario did not terminate (await_shutdown is stuck)"
        return "property", "two pools, stale handle: " + head
    n_aw = int(f[10])
    if head in ("hang", "timeout"):
        return "property", "the scenario did not terminate (await_shutdown or a worker is stuck)"
    if head in ("panic", "crash"):
        return "property", "the scenario panicked outside a task"
    m = E2E.match(head)
    if not m:
        return "correspondence", "unparseable runner output: " + head[:80]
    acc, ran, dup, late, ghost, okafter, awaits = map(int, m.groups())
    if late:
        return "property", f"{late} accepted task(s) had not run when await_shutdown returned"
    if dup:
        return "property", f"{dup} task(s) ran more than once"
    if ghost:
        return "property", f"{ghost} rejected task(s) ran"
    if okafter:
        return "property", f"{okafter} submission(s) begun after shutdown returned were accepted"
    if ran < acc:
        return "property", f"{acc - ran} accepted task(s) never ran"
    if awaits != n_aw:
        return "property", "an await_shutdown call did not return"
    if model.startswith("reject"):
        return "correspondence", "recorded trace is not a behaviour of the verified LTS: " + model
    k = MOK.match(model)
    if not k:
        return "correspondence", "model runner: " + model[:120]
    nxt, done, started, qlen, live, quiescent, awret, _ = map(int, k.groups())
    if (nxt, done, started) != (acc, ran, ran) or qlen or live or not quiescent or awret != n_aw:
        return "correspondence", f"end state of the model ({model}) differs from the run ({head})"
    return None


def features(trace):
    """Interesting things a trace exercised (for the histogram / non-triviality)."""
    fs = set()
    if trace == "-":
        return fs
    for ev in trace.split(";"):
        _, kind, note, a, b, c = ev.split(":")
        if kind == "w_take" and note == "2":
            fs.add("race:timed-out-worker-takes-task")
        elif kind == "w_exit_to":
            fs.add("linger-timeout-exit")
        elif kind in ("sub_wait", "sub_reject", "sos_reject", "spawn_reject", "w_exit_dl", "r_wait",
                      "respawn_end", "sos_push", "sub_push"):
            fs.add(kind)
        elif kind == "psd1":
            fs.add("psd1" if c == "1" else "psd1:pool-already-removed")
        elif kind == "w_exit_sd" and int(b) == 0 and note == "1":
            fs.add("woken-by-shutdown")
    return fs


def run_impl(exe, cases, tmo, max_hangs=4):
    """Runs the scenario driver over `cases` in parallel chunks.  The driver gives up on
    its process when a scenario hangs (it prints `hang ...` and exits): the chunk then
    continues in a fresh process; after `max_hangs` hangs the rest of the chunk is not run."""
    import concurrent.futures as cf, subprocess
    n = len(cases)
    if n == 0:
        return []
    nsh = min(qv.NPROC, max(1, n // 40 + 1))
    bounds = [(i * n // nsh, (i + 1) * n // nsh) for i in range(nsh)]

    def one(lo_hi):
        lo, hi = lo_hi
        todo, res, hangs = cases[lo:hi], [], 0
        while todo:
            if hangs >= max_hangs:
                res += ["skipped"] * len(todo)
                break
            try:
                p = subprocess.run([exe], input="\n".join(todo) + "\n", stdout=subprocess.PIPE,
                                   stderr=subprocess.DEVNULL, timeout=tmo, text=True)
                lines = [l for l in p.stdout.split("\n") if l != ""]
            except subprocess.TimeoutExpired as e:
                out = e.stdout or ""
                out = out.decode("utf-8", "replace") if isinstance(out, bytes) else out
                lines = [l for l in out.split("\n") if l != ""][:-1] + ["timeout"]
            lines = lines[:len(todo)]
            if len(lines) < len(todo) and not (lines and lines[-1].startswith(("hang", "timeout"))):
                lines.append("crash")
            res += lines
            todo = todo[len(lines):]
            if lines and lines[-1].startswith(("hang", "timeout", "crash")):
                hangs += 1
        return res

    with cf.ThreadPoolExecutor(max_workers=nsh) as ex:
        parts = list(ex.map(one, bounds))
    return [l for p in parts for l in p]


def stage(tier, seed, replay):
    import random
    violations, broken, cov = [], [], {}
    ok_h, bins, out_h = qv.build_harness([IMPL_BIN])
    if not ok_h:
        qv.log(out_h[-3000:])
        return [], [f"cannot build the harness against {qv.REPO} (does the repository compile?)"], {}
    ok_m, exe_m = qv.build_model_runner("C29_trace", EXTRACT, DRIVER, qv.coq_cone(EXTRACT))
    if not ok_m:
        qv.log(exe_m[-3000:])
        return [], ["the executable LTS no longer extracts/compiles: " + exe_m[-400:]], {}
    recorded = {}
    if replay:
        cases = []
        for l in open(replay):
            if l.strip().startswith("{"):
                e = json.loads(l)
                if "case" in e:
                    cases += [e["case"]] * 25          # scheduling is not reproducible: repeat
                    recorded[e["case"]] = e.get("impl", "")
    else:
        cases = list(gen(random.Random(seed), tier))
    tmo = 150 if tier == "quick" else 3000
    impl = run_impl(bins[IMPL_BIN], cases, tmo)
    # recorded traces of a replay file are re-validated as well (deterministic part)
    extra = [(c, r) for c, r in recorded.items() if r]
    cases_all = cases + [c for c, _ in extra]
    impl_all = impl + [r for _, r in extra]
    if impl_all and all(i == "nohooks" for i in impl_all):
        return [], [f"src/thread.rs of {qv.REPO} has no quandary_verif hooks (mod verif): the trace cannot be recorded"], {}
    heads, traces = zip(*[split_impl(i) for i in impl_all]) if impl_all else ((), ())
    lts = [i for i, c in enumerate(cases_all) if not c.startswith("twopool")]
    lts_out = qv.run_sharded(exe_m, [f"{cases_all[i]} T {traces[i]}" for i in lts], tmo)
    model = ["n/a (two-pool scenario: judged on its outcome)"] * len(cases_all)
    for i, m in zip(lts, lts_out):
        model[i] = m
    hist, nontrivial, n_events = {}, 0, 0
    for case, head, tr, m, raw in zip(cases_all, heads, traces, model, impl_all):
        if head == "skipped":
            hist["skipped (too many hangs in the shard)"] = hist.get("skipped (too many hangs in the shard)", 0) + 1
            continue
        fs = features(tr)
        n_events += 0 if tr == "-" else tr.count(";") + 1
        for x in fs:
            hist[x] = hist.get(x, 0) + 1
        if fs & {"race:timed-out-worker-takes-task", "linger-timeout-exit", "sub_wait", "sub_reject", "sos_reject",
                 "spawn_reject", "respawn_end", "woken-by-shutdown"}:
            nontrivial += 1
        j = judge(case, head, m)
        key = "ok" if j is None else j[0] + ": " + j[1].split(":")[0][:60]
        hist[key] = hist.get(key, 0) + 1
        if j is not None:
            violations.append({"suite": "trace", "case": case, "impl": raw if len(raw) < 6000 else raw[:6000],
                               "model": m, "oracle": j[1], "kind": j[0]})
    cov["evaluations"] = len(cases_all)
    cov["distinct_nontrivial"] = nontrivial
    cov["trace_events_validated"] = n_events
    cov["outcome_histogram"] = {"trace": dict(sorted(hist.items()))}
    cov["disagreements"] = len(violations)
    cov["exhaustive"] = False
    cov["rule"] = CHECK["rule"]
    step = max(1, len(cases_all) // 5)
    cov["samples"] = [{"suite": "trace", "case": c, "impl": (i[:300] + "...") if len(i) > 300 else i, "model": m}
                      for c, i, m in list(zip(cases_all, impl_all, model))[::step][:5]]
    return violations, broken, cov


CHECK = {
    "property": "C29",
    "props": "Props/C29.v",
    "theorems": ["c29_inv_step", "c29_inv_reachable", "c29_exactly_once", "c29_await", "c29_reject", "c29_closed", "c29_group_shutdown_closes_pool",
                 "c29_no_underflow", "c29_progress", "c29_measure", "c29_measure_wf", "c29_trace_sound",
                 "c29_trace_safe", "c29_await_refuted_prefix"],
    "allowed_axioms": [],
    "extra_stage": stage,
    "rule": ("randomized scenarios on the real ThreadGroup/ThreadPool with hooks armed: [+ 24 two-pool scenarios: two pools of one group in sequence and a second shut_down through the first pool's stale handle, judged on the outcome] 0-2 permanent workers, linger "
             "0/1 ms/50 ms, 1-4 submitters with 1-5 submit/submit_or_spawn calls each, task durations 0-3 ms, 0-30% "
             "panicking tasks, group shutdown at a random time concurrent with the submitters (1-2 callers), optional "
             "ThreadPool::shut_down calls (before, racing with or after the group's, also twice), 1-2 await_shutdown callers, random sleeps at 12 scheduling points incl. "
             "inside the submit critical sections; every 4th case is directed at the linger-timeout race; a few > 1 s "
             "cases exercise respawn. Each recorded trace is replayed on the extracted LTS. non-trivial = the trace "
             "contains a linger timeout, a timed-out worker taking a task, a blocked submit, a rejection, a respawn or "
             "a wake-up by shutdown; distinct = distinct case line (seeded)"),
    "trusted_base": [
        "Coq 8.16.1 kernel; axioms: none",
        "extraction: ExtrOcamlBasic only; OCaml 4.13.1 ocamlopt",
        "the LTS abstraction of std::sync::{Mutex,Condvar}: critical sections atomic, notify_one wakes any one waiter, "
        "spurious wake-ups and timer firings at any time, a timed-out waiter may or may not have consumed a notification",
        "trace recording: the quandary_verif hooks in src/thread.rs (events pushed to a global log while the section's "
        "mutex is held), harness/src/bin/impl_c29.rs (scenario driver, event folding), ocaml/run_c29.ml, checks/c29.py",
        "not verified: the OS scheduler/futex implementation; thread spawn failure (modelled, never observed in the runs); "
        "groups with several pools, start_oneshot/start_respawnable threads that are not pool workers, tasks that submit tasks",
    ],
    "assumptions": ["tasks terminate; a panicking task is a terminating task",
                    "one ThreadGroup with one ThreadPool, created by start_pool before any other call",
                    "the progress/measure theorems speak about steps that are not spurious wake-ups or timer firings"],
}

MANIFEST = {
    "level_text": ("Coq theorems (no axioms) about a labelled transition system of one ThreadGroup + one ThreadPool with unbounded "
                   "numbers of workers, submitters and tasks, over ALL interleavings, notify_one choices, spurious wake-ups and "
                   "timer firings (inductive invariant): every accepted task is in exactly one of queued/running/done and is never "
                   "started twice; when await_shutdown has returned all accepted tasks are done and no group thread is live; "
                   "submissions after the pool flag is set are refused and group shutdown sets it; no usize underflow; no deadlock "
                   "after shutdown was requested and a well-founded measure decreasing on every non-environment step. The old worker "
                   "loop is refuted by a witness schedule. The real code is tied to the LTS by trace validation: ~2400 (quick) "
                   "randomized runs of the hooked thread.rs (delays forced into the critical sections) whose linearised event "
                   "traces must all be accepted by the extracted LTS (validator proved sound), plus end-to-end counters."),
    "level_note": ("Proof of the model + trace refinement on sampled runs; PARTIAL with respect to the runtime: std Mutex/Condvar "
                   "semantics are the model's abstraction (atomic critical sections, wait sets, any-waiter notify_one), the OS "
                   "scheduler, futexes and thread creation are not verified, and interleavings of the real code are sampled, not "
                   "enumerated. Trusted: Coq kernel, extraction, the quandary_verif hooks and the scenario driver."),
    "technique": "machine-checked proof in Coq (inductive invariant over all interleavings of an LTS) + trace validation of the running implementation against the extracted LTS",
    "design_ref": "DESIGN.md ### C29",
}
