"""C25 — $INCLUDE behaves like textual inclusion with origin scoping (src/zone_file/fs/mod.rs)."""
import os, sys

import qv

SCRATCH = os.path.join(qv.BUILD, "c25")


def name(rng, absolute=None):
    labels = [rng.choice(["a", "b", "www", "x1", "mail"]) for _ in range(rng.randint(1, 2))]
    if absolute is None:
        absolute = rng.random() < 0.25
    return ".".join(labels) + ("." + rng.choice(["example.", "test.", "sub.example."]) if absolute else "")


def gen_tree(rng):
    """<= 6 files in sub-directories; returns ({relpath: [lines]}, root relpath)."""
    nfiles = rng.randint(1, 6)
    dirs = ["", "d1/", "d1/d2/", "e/"]
    files = []
    for i in range(nfiles):
        files.append(rng.choice(dirs) + f"f{i}.zone")
    content = {}
    for i, f in enumerate(files):
        lines = []
        if i == 0 or rng.random() < 0.3:
            lines.append("$ORIGIN " + rng.choice(["example.", "test.", "sub.example."]))
        for _ in range(rng.randint(1, 6)):
            r = rng.random()
            if r < 0.35:
                # include: mostly a later file (a tree), sometimes any file (cycles -> depth error), rarely a missing one
                if rng.random() < 0.8 and i + 1 < nfiles:
                    tgt = files[rng.randint(i + 1, nfiles - 1)]
                elif rng.random() < 0.8:
                    tgt = rng.choice(files)
                else:
                    tgt = "missing.zone"
                rel = os.path.relpath(tgt, os.path.dirname(f) or ".")
                if rng.random() < 0.15:
                    rel = "./" + rel if False else rel
                org = (" " + rng.choice(["inc.example.", "other.test."])) if rng.random() < 0.5 else ""
                lines.append(f"$INCLUDE {rel}{org}")
            elif r < 0.45:
                lines.append("$ORIGIN " + rng.choice(["example.", "test.", "deep.sub.example."]))
            elif r < 0.5:
                lines.append("")
            else:
                prior = any(l and not l.startswith("$ORIGIN") for l in lines)   # a record or an include came before
                owner = rng.choice([name(rng), "@", "", ""] if prior or rng.random() < 0.08 else [name(rng), "@"]) \
                    if rng.random() < 0.9 else name(rng, True)
                ttl = rng.choice([60, 300, 3600])
                addr = ".".join(str(rng.randrange(256)) for _ in range(4))
                lines.append(f"{owner} {ttl} IN A {addr}")
        if rng.random() < 0.03:
            lines.insert(rng.randrange(len(lines) + 1), "$BOGUS x")
        content[f] = lines
    return content, files[0]


def gen(rng, tier):
    n = 400 if tier == "quick" else 6000
    for i in range(n):
        content, root = gen_tree(rng)
        depth = rng.choice([0, 1, 2, 2, 3, 3, 4, 4])
        enc = ";".join(f"{p}={'|'.join(l.replace(' ', '~') for l in ls)}" for p, ls in content.items())
        yield f"inc {depth} {root} {enc}"


def nontrivial(case, impl, model, oracle):
    return "$INCLUDE" in case and (" rec=" in impl or "err=" in impl) and impl.count(";") >= 1


def classify(case, impl, model, oracle):
    f = impl.split(" err=")
    e = f[1].split(":")[0] if len(f) > 1 else "complete"
    return f"depth{case.split()[1]}:{e}"


CHECK = {
    "property": "C25",
    "props": "Props/C25.v",
    "theorems": ["c25_stack_eq_expand", "c25_terminates", "c25_depth", "c25_context_scoping"],
    "allowed_axioms": [],
    "suites": [{
        "name": "zoneinc",
        "impl_bin": "impl_c25", "extract": "Extract/ExC25.v", "driver": "run_c25.ml",
        "gen": gen, "nontrivial": nontrivial, "classify": classify,
        "exhaustive": {"quick": False, "thorough": False},
        "rule": ("random trees of 1..6 zone files in sub-directories (written under .build/c25 by the implementation runner), lines from "
                 "the sub-language {$ORIGIN abs-name, $INCLUDE relative-path [abs-origin], [owner|@|omitted] ttl IN A addr, blank, one "
                 "bogus directive}; includes mostly forward (trees), sometimes backward/self (cycles -> IncludesTooDeep), rarely a "
                 "missing file; depth limits 0..4; real zone_file::fs::Parser vs the extracted stack machine instantiated with the "
                 "mini line parser (Model/ZfMini.v) vs the extracted structural expand (oracle); compared: (path, line, owner, ttl, "
                 "address) of every record in order, then the error kind/path/line/chain; non-trivial = a case with an $INCLUDE that "
                 "yields at least two events"),
    }],
    "trusted_base": [
        "Coq 8.16.1 kernel; axioms: none",
        "extraction: ExtrOcamlBasic only; OCaml 4.13.1",
        "the per-file line parser is a parameter of the theorems; the correspondence instantiates it with Model/ZfMini.v for a "
        "sub-language only (tokenisation at blanks in ocaml/run_c25.ml); the real record parser is C23/C24's subject",
        "path semantics of the OS (the driver resolves `..` lexically before looking a path up in the generated tree); "
        "Path::parent/join modelled for paths without empty or `.` components",
    ],
    "assumptions": ["every file is a finite list of logical lines"],
}

MANIFEST = {
    "level_text": ("Coq theorems (no axioms), for every per-file line parser, file system (cyclic ones included), depth limit and start "
                   "file: iterating the model of fs::Parser::next yields exactly the structural expansion — each $INCLUDE replaced in "
                   "place by the included file started with the includer's context (or the directive's origin), the includer's origin "
                   "restored afterwards — up to its first error; the iteration terminates; an $INCLUDE at the nesting limit is "
                   "IncludesTooDeep at that line with the include chain. Tied to the code by random file trees parsed by the real "
                   "zone_file::fs::Parser."),
    "level_note": "Proof of the stack machine against the structural spec; the line parser is abstract (sub-language instance in the run); OS path resolution trusted.",
    "technique": "machine-checked proof in Coq (continuation-style simulation, induction on depth budget and lines) + file-tree correspondence",
    "design_ref": "DESIGN.md §4 C25",
}
