"""C25 — $INCLUDE behaves like textual inclusion with origin scoping (src/zone_file/fs/mod.rs)."""
import os, sys

import qv
sys.path.insert(0, os.path.dirname(os.path.abspath(__file__)))
import incgen
import c24

SCRATCH = os.path.join(qv.BUILD, "c25")


def name(rng, absolute=None):
    labels = [rng.choice(["a", "b", "www", "x1", "mail"]) for _ in range(rng.randint(1, 2))]
    if absolute is None:
        absolute = rng.random() < 0.25
    return ".".join(labels) + ("." + rng.choice(["example.", "test.", "sub.example."]) if absolute else "")


def gen_tree(rng):
    """<= 6 files in sub-directories; returns ({relpath: [lines]}, root relpath)."""
    nfiles = rng.randint(1, 6)
    dirs = ["", "d1/", "d1/d2/", "e/"]
    files = []
    for i in range(nfiles):
        files.append(rng.choice(dirs) + f"f{i}.zone")
    content = {}
    for i, f in enumerate(files):
        lines = []
        if i == 0 or rng.random() < 0.3:
            lines.append("$ORIGIN " + rng.choice(["example.", "test.", "sub.example."]))
        for _ in range(rng.randint(1, 6)):
            r = rng.random()
            if r < 0.35:
                # include: mostly a later file (a tree), sometimes any file (cycles -> depth error), rarely a missing one
                if rng.random() < 0.8 and i + 1 < nfiles:
                    tgt = files[rng.randint(i + 1, nfiles - 1)]
                elif rng.random() < 0.8:
                    tgt = rng.choice(files)
                else:
                    tgt = "missing.zone"
                rel = os.path.relpath(tgt, os.path.dirname(f) or ".")
                if rng.random() < 0.15:
                    rel = "./" + rel if False else rel
                org = (" " + rng.choice(["inc.example.", "other.test."])) if rng.random() < 0.5 else ""
                lines.append(f"$INCLUDE {rel}{org}")
            elif r < 0.45:
                lines.append("$ORIGIN " + rng.choice(["example.", "test.", "deep.sub.example."]))
            elif r < 0.5:
                lines.append("")
            else:
                prior = any(l and not l.startswith("$ORIGIN") for l in lines)   # a record or an include came before
                owner = rng.choice([name(rng), "@", "", ""] if prior or rng.random() < 0.08 else [name(rng), "@"]) \
                    if rng.random() < 0.9 else name(rng, True)
                ttl = rng.choice([60, 300, 3600])
                addr = ".".join(str(rng.randrange(256)) for _ in range(4))
                lines.append(f"{owner} {ttl} IN A {addr}")
        if rng.random() < 0.03:
            lines.insert(rng.randrange(len(lines) + 1), "$BOGUS x")
        content[f] = lines
    return content, files[0]


def gen(rng, tier):
    n = 400 if tier == "quick" else 6000
    for i in range(n):
        content, root = gen_tree(rng)
        depth = rng.choice([0, 1, 2, 2, 3, 3, 4, 4])
        enc = ";".join(f"{p}={'|'.join(l.replace(' ', '~') for l in ls)}" for p, ls in content.items())
        yield f"inc {depth} {root} {enc}"


def nontrivial(case, impl, model, oracle):
    return "$INCLUDE" in case and (" rec=" in impl or "err=" in impl) and impl.count(";") >= 1


def classify(case, impl, model, oracle):
    f = impl.split(" err=")
    e = f[1].split(":")[0] if len(f) > 1 else "complete"
    return f"depth{case.split()[1]}:{e}"


# ---------------------------------------------------------------- suite zonefull: trees of real zone files

def gen_full(rng, tier):
    """Case: incf <depth> <hex root> <hex path>=<hex content>;... <hex flattened text|-> <hex expected line|->"""
    n = 900 if tier == "quick" else 20000
    caseless = c24.caseless_in_tree()
    yield from incgen.fixed_cases()
    yield from incgen.enum_cases(rng, tier)
    for i in range(n):
        t = incgen.gen_tree(rng, caseless)
        exp = t["expected"]
        yield incgen.case_line(t) + " " + (incgen.hx(exp.encode()) if exp != "-" else "-")


def expected_of(case):
    f = case.split()
    return bytes.fromhex(f[5]).decode() if len(f) > 5 and f[5] != "-" else None


def oracle_ok_full(case, impl, oracle):
    """impl = the structural expansion of the same tree (extracted spec); = the line the generator
    computed from the abstract records when the tree is predictable; the flattened text (when there
    is one) parses to the same record sequence."""
    if impl in ("panic", "timeout", "crash") or " after=" in impl:
        return False
    if impl != oracle:
        return False
    exp = expected_of(case)
    if exp is not None and impl != exp:
        return False
    if case.split()[4] != "-" and not impl.endswith("# flat=same"):
        return False
    return True


def nontrivial_full(case, impl, model, oracle):
    # an $INCLUDE was followed: records from at least two different files
    paths = {it.split(":")[0] for it in impl.split(" # ")[0].split(" ; ") if " o=" in it}
    return len(paths) >= 2


def classify_full(case, impl, model, oracle):
    body = impl.split(" # ")[0].split(" ; ")
    e = body[-1].split(":")
    end = e[0] if e[0] != "err=syntax" else "err=syntax"
    paths = {it.split(":")[0] for it in body if " o=" in it}
    pred = "pred" if expected_of(case) is not None else "unpred"
    flat = impl.split("flat=")[-1] if "flat=" in impl else "?"
    return f"{end}:files{min(len(paths), 4)}:{pred}:flat-{flat}"


CHECK = {
    "property": "C25",
    "props": "Props/C25.v",
    "theorems": ["c25_stack_eq_expand", "c25_terminates", "c25_depth", "c25_context_scoping",
                 "c25_iter_stack_eq_expand", "c25_iter_depth", "c25_lines_are_iter", "c25_relative_paths", "c25_full_stack_eq_expand", "c25_full_any_fuel", "c25_full_total_valid",
                 "c25_full_include_boundary", "c25_full_include_directory", "c25_has_parent_iff"],
    "allowed_axioms": [],
    "suites": [{
        "name": "zoneinc",
        "impl_bin": "impl_c25", "extract": "Extract/ExC25.v", "driver": "run_c25.ml",
        "gen": gen, "nontrivial": nontrivial, "classify": classify,
        "exhaustive": {"quick": False, "thorough": False},
        "rule": ("random trees of 1..6 zone files in sub-directories (written under .build/c25 by the implementation runner), lines from "
                 "the sub-language {$ORIGIN abs-name, $INCLUDE relative-path [abs-origin], [owner|@|omitted] ttl IN A addr, blank, one "
                 "bogus directive}; includes mostly forward (trees), sometimes backward/self (cycles -> IncludesTooDeep), rarely a "
                 "missing file; depth limits 0..4; real zone_file::fs::Parser vs the extracted stack machine instantiated with the "
                 "mini line parser (Model/ZfMini.v) vs the extracted structural expand (oracle); compared: (path, line, owner, ttl, "
                 "address) of every record in order, then the error kind/path/line/chain; non-trivial = a case with an $INCLUDE that "
                 "yields at least two events"),
    }, {
        "name": "zonefull",
        "impl_bin": "impl_c25f", "extract": "Extract/ExC25f.v", "driver": "run_c25f.ml",
        "gen": gen_full, "nontrivial": nontrivial_full, "classify": classify_full,
        "oracle_ok": oracle_ok_full,
        "exhaustive": {"quick": False, "thorough": False},
        "rule": ("30 hand-written boundary trees (included file ending inside parentheses / without a line ending / empty; directive over several "
                 "lines; chains at the limit; self- and mutual inclusion; directories; the name limit reached through the handed-down origin; ...); small-scope enumeration: every root of 1..4 lines "
                 "over 7 context-setting / context-using lines with an $INCLUDE x every included file of 0..2 lines over 5 such lines (62 620 trees; a seeded "
                 "sample of 1500 in the quick tier, all in the thorough tier); then "
                 "random trees of REAL zone files (checks/incgen.py): 1..7 files in sub-directories (one with a blank in its name), generated in "
                 "execution order by a generator that carries the parse context the property prescribes; every record type of checks/zfgen.py "
                 "(incl. CH A, WKS, TXT, SOA, unknown types, \\# forms), $ORIGIN / $TTL in includers and included files, $INCLUDE paths relative "
                 "with `..`, quoted / escaped, optional directive origins; presentation depends on the context: names relative to the current origin, "
                 "`@`, omitted owner / TTL / class — biased to occur right after an include returns; parentheses, comments, CRLF, missing final line "
                 "ending; depth limits 0..4; missing targets, re-included and cyclic files, 12 % trees with one file mutated (truncate/insert/delete/"
                 "replace/duplicate); real zone_file::fs::Parser vs the extracted stack machine over the FULL parser model (Model/ZfInc.v + "
                 "ZfParser.v) vs the extracted structural expansion (oracle) vs, for predictable trees, the line computed by the generator from "
                 "the abstract records; compared record by record: path, line, owner wire, TTL, class, type, RDATA, validity, then the error kind / "
                 "file / line:column / opened path / include chain; where a flattened equivalent text exists (every $INCLUDE replaced by the "
                 "included text between $ORIGIN lines) the plain zone_file::Parser must yield the same record sequence from it; "
                 "non-trivial = records from at least two files"),
    }],
    "trusted_base": [
        "Coq 8.16.1 kernel; axioms: none",
        "extraction: ExtrOcamlBasic only; OCaml 4.13.1",
        "suite zoneinc: the per-file line parser is a parameter of the first-wave theorems and is instantiated with Model/ZfMini.v for a "
        "sub-language (tokenisation at blanks in ocaml/run_c25.ml); suite zonefull: the per-file parser is the full zone-file parser model "
        "of C24 (Model/ZfReader.v, ZfParser.v, ZfStd.v: its correspondence to the code is C24's and this suite's differential run, not a proof)",
        "checks/incgen.py + checks/zfgen.py as an independent statement of what a rendered tree denotes (third opinion on predictable trees)",
        "I/O errors while reading are modelled only for directories (File::open succeeds, the first read fails: GeneralIo against the directory's path); "
        "which paths name directories is decided lexically by ocaml/run_c25f.ml from the generated tree",
        "path semantics of the OS (the driver resolves `..` lexically before looking a path up in the generated tree); "
        "Path::parent/join modelled for paths without empty or `.` components",
    ],
    "assumptions": ["every file is a finite octet string (zonefull) / a finite list of logical lines (zoneinc)",
                    "every file that can be opened has a parent directory (the assumption stated in compute_path's doc comment)"],
}

MANIFEST = {
    "level_text": ("Coq theorems (no axioms), for every per-file line parser, file system (cyclic ones included), depth limit and start "
                   "file: iterating the model of fs::Parser::next yields exactly the structural expansion — each $INCLUDE replaced in "
                   "place by the included file started with the includer's context (or the directive's origin), the includer's origin "
                   "restored afterwards — up to its first error; the iteration terminates; an $INCLUDE at the nesting limit is "
                   "IncludesTooDeep at that line with the include chain. The same for the machine whose stack entries own a stateful per-file "
                   "iterator (as in the Rust code), and for its instance with the FULL zone-file parser model of C24: run = structural expansion "
                   "with no fuel/budget hypothesis left, never a panic, every record yielded through any nesting of includes valid (C24 across "
                   "include boundaries), and the explicit form of what crosses an include boundary (the included file inherits previous "
                   "owner/TTL/class/default TTL and gets the directive's origin; the includer gets back its own origin and reader and the "
                   "included file's previous owner/TTL/class/default TTL). Tied to the code by random trees of real zone files parsed by the "
                   "real zone_file::fs::Parser, compared record by record, and with the plain parser on the flattened text."),
    "level_note": ("Proof of the stack machine against the structural spec, generic and for the full parser model; the literal flattened-text form "
                   "of the property is checked (real and model parsers on generated flattened texts), not proved. OS path resolution and read "
                   "errors trusted/not modelled."),
    "technique": "machine-checked proof in Coq (continuation-style simulation, induction on depth budget and lines) + file-tree correspondence",
    "design_ref": "DESIGN.md §4 C25",
}
