"""C05 — query answers follow the DNS resolution algorithm (src/server/query.rs)."""
import qgen, srvgen
from qgen import wirehex

DIRTY_QTYPES = [1, 28, 2, 15, 33, 16, 99]


def gen(rng, tier, n_cat=None):
    """quick: every owner and ancestor x all QTYPEs, a 10% sample of the names within two labels x 3 QTYPEs;
    thorough: 40 catalogs with the complete product, then 300 catalogs sampled as in quick"""
    quick = tier == "quick"
    plan = [(n_cat or 70, False)] if quick or n_cat else [(40, True), (300, False)]
    for count, full in plan:
        for _ in range(count):
            zones = qgen.gen_catalog(rng)
            cat = ";".join(z.render() for z in zones)
            dirty = any(z.dirty for z in zones)
            qtypes = DIRTY_QTYPES if dirty else qgen.QTYPES
            classes = sorted({z.cls for z in zones})
            names = qgen.query_names(rng, zones)
            owners = {tuple(o) for z in zones for o in z.owners + [z.apex]}
            for nm in names:
                core = tuple(nm) in owners or any(tuple(nm) == o[len(o) - len(nm):] for o in owners if len(nm) <= len(o))
                if not full and not core and rng.random() < 0.9:
                    continue
                qn = qgen.flip(rng, nm, 0.1)
                tys = qtypes if (core or full) else rng.sample(qtypes, 3)
                for ty in tys:
                    cl = classes[0] if len(classes) == 1 or rng.random() < 0.7 else rng.choice(classes)
                    yield f"{cat} {wirehex(qn)} {ty} {cl}"


def _fields(line):
    d = srvgen.parse_resp(line)
    return d


def corr_eq(case, impl, model):
    """implementation vs model: same RCODE/AA/TC and the same records IN THE SAME ORDER; names the
    Writer may have compressed against a differently spelled earlier occurrence modulo ASCII case"""
    if not impl.startswith("resp") or not model.startswith("resp"):
        return impl == model
    a, b = _fields(impl), _fields(model)
    if "undecodable" in a["flags"] or "trailing" in a["flags"]:
        return False
    if a.get("rc") != b.get("rc") or a.get("aa") != b.get("aa") or a.get("tc") != b.get("tc"):
        return False
    return all(qgen.norm_section(a.get(k, []), False) == qgen.norm_section(b.get(k, []), False) for k in ("AN", "NS", "AR"))


def oracle_ok(case, impl, oracle):
    """the decoded sections as sorted multisets (names modulo case), RCODE and AA equal the specification's"""
    if impl in srvgen.BAD or not impl.startswith("resp") or not oracle.startswith("resp"):
        return False
    a, b = _fields(impl), _fields(oracle)
    if "undecodable" in a["flags"] or "trailing" in a["flags"]:
        return False
    if a.get("rc") != b.get("rc") or a.get("aa") != b.get("aa") or a.get("tc") != "0":
        return False
    return all(qgen.norm_section(a.get(k, []), True) == qgen.norm_section(b.get(k, []), True) for k in ("AN", "NS", "AR"))


def classify(case, impl, model, oracle):
    if not impl.startswith("resp"):
        return impl
    d = _fields(impl)
    an, ns, ar = d.get("AN", []), d.get("NS", []), d.get("AR", [])
    ncn = sum(1 for x in an if x.split("/")[1] == "5")
    qt = case.split()[2]
    kind = ("servfail" if d.get("rc") == "2" else "referral" if (ns and ns[0].split("/")[1] == "2" and d.get("aa") == "0")
            else "cname-referral" if (ns and ns[0].split("/")[1] == "2") else "negative" if ns else "answer" if an else "empty")
    return f"rc={d.get('rc')} aa={d.get('aa')} {kind} cnames={'0' if ncn == 0 or qt in ('5', '255') else '1-7' if ncn < 8 else '8'} ar={'y' if ar else 'n'}"


def nontrivial(case, impl, model, oracle):
    if not impl.startswith("resp"):
        return False
    d = _fields(impl)
    # anything but a bare NXDOMAIN/REFUSED: records were selected, chased, referred or refused for a reason
    return bool(d.get("AN")) or d.get("rc") == "2" or (bool(d.get("NS")) and d.get("NS")[0].split("/")[1] == "2") or bool(d.get("AR"))


RULE = ("seeded catalogs of 1-3 zones (nested: the child zone of a delegation of its parent, optionally a grandchild, classes IN/CH/7) "
        "with SOA TTLs 3..86400 against MINIMUM 0/5/60/.../2^31/2^32-1, delegations with name servers inside the child, in a sibling "
        "delegation, elsewhere in the parent, missing, and outside the zone, with and without glue, occluded data, wildcards (A/TXT/CNAME/MX), "
        "empty non-terminals, CNAME chains of 1-10 links ending at a host / missing name / ENT / wildcard / below a cut / outside the zone / "
        "above the apex / in a loop, MX/SRV/MB/MD/NS targets with and without addresses, mixed-case spellings, rejected adds, and in ~12% of "
        "the IN/CH zones RDATA that is not a domain name where query.rs parses one; queries: every owner and every ancestor x "
        "{A,AAAA,NS,MX,SRV,CNAME,TXT,SOA,ANY,99} and (quick: a 25% sample x 3 types; thorough: all) names within two labels of an owner, "
        "case-flipped, sent as plain QUERY over TCP through the real Server::handle_message; non-trivial = answer records, a referral, "
        "additional records or SERVFAIL; distinct = distinct case line")

CHECK = {
    "property": "C05",
    "props": "Props/C05.v",
    "theorems": ["c05_answer_refines", "c05_dispatch_in_zone", "c05_chain_bound", "c05_loop_servfail", "c05_negative_ttl", "c05_mandatory_glue",
                 "c05_negative_ttl_refuted_prefix"],
    "allowed_axioms": [],
    "suites": [{
        "name": "query", "impl_bin": "impl_c05", "extract": "Extract/ExC05.v", "driver": "run_c05.ml",
        "gen": gen, "nontrivial": nontrivial, "classify": classify, "oracle_ok": oracle_ok, "corr_eq": corr_eq,
        "exhaustive": {"quick": False, "thorough": False}, "rule": RULE, "n_samples": 4,
        "timeout": {"quick": 300, "thorough": 3000},
    }],
    "trusted_base": [
        "Coq 8.16.1 kernel (vm_compute only in the two Examples/witnesses); axioms: none (every theorem: Closed under the global context)",
        "the model of src/server/query.rs is hand-written (coq/Model/Query.v) against a Writer INTERFACE; the theorems instantiate it with an "
        "idealised Writer of unbounded space that accepts any RDATA (InvalidRdata/CountOverflow/Truncation of the real Writer are the "
        "octet-level instance's business, C04/C02); tied to the code by the correspondence run through the real Server::handle_message over TCP",
        "zone store: Model/ZoneTree.v and its refinement proof C06 (Rdata::equals is a parameter, assumed transitive; the runner uses req_simple)",
        "names inside RDATA: the C14 specification decoder (Spec/NameWireS.v) and c14_uncompressed / c14_validate_agrees",
        "tools/gen/queryconsts.py re-extracts MAX_CNAME_CHAIN_LEN, the PreviousOwners capacity, the additional-section type/offset table and "
        "class guard, and the SOA MINIMUM offset from src/server/query.rs on every run (proofs pin the values)",
        "extraction: ExtrOcamlBasic only; OCaml 4.13.1; harness/src/bin/impl_c05.rs + srvcase.rs (responses decoded by the crate's Reader); "
        "checks/c05.py, checks/qgen.py (generators, comparison modulo ASCII case of compressible names)",
        "source_of_synthesis (only consumed by response rate limiting) is not part of the model",
    ],
    "assumptions": ["record RDATA octets < 256; the query name is at or below the apex of the zone the catalog selected (C07/C22); "
                    "RDATA of the RFC 3597 §4 name-bearing types is acceptable to the Writer unless query.rs itself parses it on the path taken"],
}

MANIFEST = {
    "level_text": ("Coq theorem (no axioms) c05_answer_refines: for every zone built by any sequence of adds, every query name at or below "
                   "the apex, every QTYPE and both transports, the model of src/server/query.rs (answer / answer_any / CNAME following with "
                   "the 8-link bound and loop detection / referrals with mandatory glue first / additional-section processing / negative-"
                   "caching SOA of the repaired code / ServFail mapping), run on an idealised never-truncating Writer, never panics and "
                   "yields exactly the RCODE, AA, answer, authority and additional sections (in order, owner names modulo ASCII case) of an "
                   "independent resolver over the flat record list written from RFC 1034 §4.3.2, RFC 4592, RFC 6604, RFC 2308 §3, RFC 2181; "
                   "corollaries: at most 8 CNAMEs, loops are SERVFAIL, negative TTL = min(SOA TTL, MINIMUM), mandatory glue. The model is "
                   "tied to the code by ~30k (quick) queries against generated nested catalogs through the real Server::handle_message "
                   "(records in order), and the extracted resolver is the oracle on every implementation response (sorted multisets)."),
    "level_note": ("Trusted: Coq kernel, extraction, the hand-written model's correspondence to the Rust code (differentially tested), C06's "
                   "zone model, the regenerated constants. The Writer is idealised in the theorem (no truncation, no InvalidRdata); "
                   "size limits are C04, octet-level well-formedness C02. Defect found and repaired: negative-caching SOA TTL."),
    "technique": "machine-checked proof in Coq (refinement of an independent flat-record resolver, induction on the CNAME chain) + model/implementation correspondence check through the real server",
    "design_ref": "DESIGN.md section 4 (C05)",
}
