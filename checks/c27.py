"""C27 — rate limiting groups responses into the documented streams (src/server/rrl.rs, ReceivedInfo::new)."""

LABELS = ["a", "b", "c", "A", "B"]


def hx(b):
    return bytes(b).hex()


def flip(octets, bit):
    """flip bit number `bit` counted from the most significant bit (0-based)"""
    o = list(octets)
    o[bit // 8] ^= 0x80 >> (bit % 8)
    return o


def second_source(rng, first, is6, plen):
    """A source related to `first`: equal, inside the prefix, just inside / just outside it,
    mapped into the other family, or unrelated."""
    nbits = 128 if is6 else 32
    r = rng.random()
    if r < 0.15:
        o, six = list(first), is6
    elif r < 0.35 and plen < nbits:
        o, six = flip(first, rng.randrange(plen, nbits)), is6               # host part differs
    elif r < 0.5 and plen < nbits:
        o, six = flip(first, plen), is6                                      # first host bit
    elif r < 0.7 and plen > 0:
        o, six = flip(first, plen - 1), is6                                  # last prefix bit
    elif r < 0.8 and plen > 0:
        o, six = flip(first, rng.randrange(0, plen)), is6                    # inside the prefix
    elif r < 0.9 and not is6:
        o, six = [0] * 10 + [255, 255] + list(first), True                   # ::ffff:a.b.c.d
    elif r < 0.93 and not is6:
        o, six = [0] * 12 + list(first), True                                # ::a.b.c.d (NOT mapped)
    elif r < 0.96 and not is6:
        o, six = [0] * 9 + [1, 255, 255] + list(first), True                 # almost mapped
    else:
        six = rng.random() < 0.5
        o = [rng.randrange(256) for _ in range(16 if six else 4)]
    return o, six


def gen_source(rng):
    r = rng.random()
    if r < 0.55:
        return [rng.choice([0, 10, 127, 192, 255, rng.randrange(256)]) for _ in range(4)], False
    if r < 0.65:
        return [0] * 10 + [255, 255] + [rng.randrange(256) for _ in range(4)], True
    if r < 0.7:
        return [0] * 16, True
    return [rng.choice([0, 0x20, 0xff, rng.randrange(256)]) for _ in range(16)], True


def gen_kinds(rng):
    """Pairs of query kinds: same name in another case, another name, same wildcard, the same
    error category through different causes, different categories, exempt requests."""
    r = rng.random()
    l1, l2 = rng.choice(LABELS), rng.choice(LABELS)
    if r < 0.2:
        return "n" + l1, "n" + rng.choice([l1, l1.swapcase(), l1.lower(), l2])
    if r < 0.3:
        return rng.choice(["n", "d"]) + l1, rng.choice(["n", "d"]) + rng.choice([l1, l1.swapcase(), l2])
    if r < 0.36:
        return "w" + rng.choice(["q", "zz", "Q"]), rng.choice(["w", "w", "n", "x"]) + rng.choice(["q", "zz", "other", "a"])
    if r < 0.42:
        # every way an answer can be synthesized from a wildcard (A found, ANY, no data, CNAME): same wildcard = same
        # stream whatever the QNAME and QTYPE; another wildcard / the plain name = another stream
        a = rng.choice(["w", "y", "z", "c"]) + rng.choice(["q", "zz", "Q"])
        b = rng.choice(["w", "y", "y", "z", "c", "c", "n"]) + rng.choice(["q", "zz", "other", "a"])
        return (a, b) if rng.random() < 0.5 else (b, a)
    if r < 0.54:
        return "x" + l1, rng.choice(["x", "x", "r", "n"]) + l2
    if r < 0.60:
        return rng.choice(["r" + l1, "f"]), rng.choice(["r" + l2, "f", "x" + l2])
    if r < 0.66:
        # BADVERS (extended RCODE 16, low nibble 0) belongs to the "all other RCODEs" stream, never to NOERROR
        return rng.choice([("v" + l1, "r" + l2), ("r" + l2, "v" + l1), ("v" + l1, "n" + l1), ("n" + l1, "v" + l1),
                           ("v" + l1, "v" + l2), ("v" + l1, "f")])
    if r < 0.8:
        k = rng.choice(["n" + l1, "x" + l1, "r" + l1, "f", "w" + l1])
        return k, k
    if r < 0.9:
        k = rng.choice(["n" + l1, "x" + l1, "f"])
        return rng.choice([("o" + l1, k), (k, "o" + l1), ("m", k), (k, "m"), ("o" + l1, "o" + l1), ("m", "m")])
    ks = ["n" + l1, "d" + l1, "w" + l1, "y" + l1, "z" + l1, "c" + l1, "x" + l1, "r" + l1, "f", "o" + l1, "m"]
    return rng.choice(ks), rng.choice(ks)


def gen(rng, tier):
    n = 30000 if tier == "quick" else 400000
    for _ in range(n):
        v4 = rng.choice([0, 1, 8, 16, 23, 24, 24, 25, 31, 32, rng.randint(0, 32)])
        v6 = rng.choice([0, 1, 32, 48, 56, 56, 63, 64, rng.randint(0, 64)])
        if rng.random() < 0.02:
            v4, v6 = rng.choice([(33, 56), (24, 65), (255, 56), (24, 128), (40, 70)])
        slip = rng.choice([0, 1, 1, 2])
        size = rng.choice([1, 1, 2, 3, 65537, 65537])
        s1, six1 = gen_source(rng)
        mapped1 = six1 and s1[:12] == [0] * 10 + [255, 255]
        if mapped1 and rng.random() < 0.5:
            s2, six2 = second_source(rng, s1[12:], False, min(v4, 32))
        else:
            s2, six2 = second_source(rng, s1, six1, min(v6, 64) if six1 else min(v4, 32))
        k1, k2 = gen_kinds(rng)
        r_extra = rng.random()
        if r_extra < 0.04:
            # names made of the SAME octets split into labels differently are different names (different streams)
            a, b = rng.sample(["ab.c", "a.bc", "abc", "a.b.c", "ab.C"], 2)
            k = rng.choice("nd")
            k1, k2 = k + a, k + b
        elif r_extra < 0.08:
            # ANY answers from one big wildcard that are TRUNCATED over UDP: one stream whatever the QNAME (slip 0: see impl_c27)
            k1, k2 = "b" + rng.choice(["q", "zz", "Q"]), rng.choice(["b", "b", "b", "n"]) + rng.choice(["q", "other", "zz"])
            slip = 0
        elif r_extra < 0.12:
            # error responses reached THROUGH a wildcard (CNAME to a missing name: NXDOMAIN; looping CNAME: SERVFAIL) belong
            # to the per-prefix NXDOMAIN / error stream like any other: never keyed by the wildcard
            k1, k2 = rng.choice([("g" + rng.choice(["q", "zz"]), "x" + rng.choice(["q", "a"])), ("x" + rng.choice(["q", "a"]), "g" + rng.choice(["q", "zz"])),
                                 ("h" + rng.choice(["q", "zz"]), "r" + rng.choice(["q", "a"])), ("r" + rng.choice(["q", "a"]), "h" + rng.choice(["q", "zz"])),
                                 ("g" + "q", "g" + "zz"), ("h" + "q", "f"), ("g" + "q", "wq"), ("h" + "q", "cq"),
                                 ("u", "rq"), ("f", "u"), ("u", "u"), ("u", "va"), ("na", "u")])
        tr = lambda: "udp" if rng.random() < 0.9 else "tcp"
        e1 = 0 if k1[0] == "b" else rng.choice([0, 1])
        e2 = 0 if k2[0] == "b" else rng.choice([0, 1])
        yield f"{v4} {v6} {slip} {size} {hx(s1)} {tr()} {k1} {e1} {hx(s2)} {tr()} {k2} {e2}"


def nontrivial(case, impl, model, oracle):
    # two limitable responses (both UDP, QUERY, answered) — the pair really was classified
    f = case.split()
    return impl.startswith("ok") and f[5] == "udp" and f[9] == "udp" and f[6][0] not in "om" and f[10][0] not in "om"


def classify(case, impl, model, oracle):
    if not impl.startswith("ok"):
        return impl
    f = case.split()
    exempt = f[5] == "tcp" or f[9] == "tcp" or f[6][0] in "om" or f[10][0] in "om"
    fam = ("6" if len(f[4]) == 32 else "4") + ("6" if len(f[8]) == 32 else "4")
    return ("exempt:" if exempt else f"v{fam}:") + ("second-limited" if impl.split()[2] in "T-L" and f[10] != "m" else "second-sent")


CHECK = {
    "property": "C27",
    "props": "Props/C27.v",
    "theorems": ["c27_set_ipv4_prefix_len", "c27_set_ipv6_prefix_len", "c27_default_prefixes", "c27_v4_mask", "c27_v6_mask",
                 "c27_mapped", "c27_name_hash_ci", "c27_key_eq", "c27_same_stream_same_key", "c27_same_key_same_stream",
                 "c27_exempt", "c27_subject_is_limitable", "c27_pair", "c27_pair_fresh"],
    "allowed_axioms": [],
    "suites": [{
        "name": "rrlpair",
        "impl_bin": "impl_c27", "extract": "Extract/ExC27.v", "driver": "run_c27.ml",
        "gen": gen, "nontrivial": nontrivial, "classify": classify,
        "exhaustive": {"quick": False, "thorough": False},
        "rule": ("seeded request pairs through Server::handle_message on a fresh Server with all rates 1, window 1: [+ answers synthesized from a wildcard in every way (A, ANY, no data, CNAME); names made of the same octets split into labels differently; ANY answers from a big wildcard truncated over UDP] IPv4 prefix "
                 "lengths 0..32 and IPv6 0..64 (boundaries 0/1/23/24/25/31/32, 0/1/48/56/63/64, rejected 33/65/128/255), table sizes "
                 "1/2/3/65537, slip 0/1/2; second source equal / host bits flipped / first host bit / last prefix bit / inside the "
                 "prefix / IPv4-mapped, IPv4-compatible and almost-mapped IPv6 forms / unrelated; query pairs: same QNAME in another "
                 "case, other QNAME, data vs NODATA, same wildcard, NXDOMAIN with other QNAMEs, REFUSED vs FORMERR, cross-category, "
                 "TCP, NOTIFY opcode, suppressed responses; non-trivial = both requests limitable; distinct = distinct case line"),
    }],
    "trusted_base": [
        "Coq 8.16.1 kernel (vm_compute in the two finite sweeps over prefix lengths 1..32 / 1..64 and in the Example)",
        "axioms: none (every theorem: Closed under the global context)",
        "extraction: ExtrOcamlBasic only; OCaml 4.13.1 ocamlopt",
        "correspondence: checks/c27.py generator, harness/src/bin/impl_c27.rs + rrl_common, ocaml/run_c27.ml (incl. the "
        "kind -> rcode/question/source-of-synthesis glue standing in for query.rs and the zone lookup), line diff in tools/qv.py",
        "std: Ipv4Addr/Ipv6Addr::octets and u32/u128::from are big-endian; SipHash of the RandomState depends only on the octets written",
        "explicit weakening: the key holds a 32-bit hash of the name; c27_same_key_same_stream assumes the two names do not collide, "
        "the correspondence run would report a collision as a violation (probability ~2^-32 per pair)",
    ],
    "assumptions": ["addresses are 4 / 16 octets < 256 (wf_ip); labels have 1..63 octets (wf_name)",
                    "c27_pair: neither stream has a bucket yet (fresh server, key different from Rrl::new's placeholder key) and the "
                    "two responses are less than one second apart"],
}

MANIFEST = {
    "level_text": ("Coq theorems (no axioms): the RRL key of two responses is equal iff they are in the same stream of an independent "
                   "specification (same /len4 or /len6 network after IPv4-mapped canonicalisation, same category, NOERROR also same "
                   "QNAME-or-source-of-synthesis ignoring case) up to the 32-bit name hash; bit-level mask lemmas for every prefix length; "
                   "TCP/non-QUERY/suppressed responses leave the limiter untouched; under limit 1 the second response of a pair is "
                   "limited iff same key, for every hash function incl. bucket collisions. Tied to the code by ~30k (quick) request "
                   "pairs through Server::handle_message, checked against the specification's same_stream."),
    "level_note": ("Trusted: Coq kernel, extraction, correspondence glue for the unmodelled query path. "
                   "The 32-bit name hash is an explicit weakening (a collision merges two NOERROR streams)."),
    "technique": "machine-checked proof in Coq (iff characterisation against an independent stream specification) + model/implementation correspondence check",
    "design_ref": "DESIGN.md §4 C27",
}
