"""C16 — name text form, equality/ordering/hash, subdomain/superdomain, label access, lowercasing, NameBuilder."""
import itertools

# octets that matter: letters of both cases, the boundaries of the two letter ranges (0x40/0x5b/0x60/0x7b),
# pairs 32 apart that are NOT letters, the characters the text form treats specially, control/space/DEL/high octets
SPECIAL = [0x00, 0x01, 0x20, 0x21, 0x2A, 0x2D, 0x2E, 0x30, 0x39, 0x40, 0x41, 0x5A, 0x5B, 0x5C, 0x5F, 0x60, 0x61, 0x7A,
           0x7B, 0x7E, 0x7F, 0x80, 0xC0, 0xDF, 0xE9, 0xFF]
LETTERS = list(b"abcxyzABCXYZ")


def hx(b):
    b = bytes(b)
    return b.hex() if b else "-"


def rand_octet(rng):
    r = rng.random()
    if r < 0.55:
        return rng.choice(LETTERS)
    if r < 0.9:
        return rng.choice(SPECIAL)
    return rng.randrange(256)


def rand_label(rng, maxlen=63):
    r = rng.random()
    n = rng.choice([62, 63]) if r < 0.05 else (rng.randint(1, 4) if r < 0.8 else rng.randint(1, 63))
    return bytes(rand_octet(rng) for _ in range(min(n, maxlen)))


def wire(labels):
    return b"".join(bytes([len(l)]) + l for l in labels) + b"\0"


def rand_name(rng):
    """labels of a VALID name (every label 1..63, wire <= 255)"""
    r = rng.random()
    if r < 0.05:
        return []
    if r < 0.08:                                   # 127 one-octet labels: 255 octets, 128 labels
        return [bytes([rand_octet(rng)]) for _ in range(rng.choice([127, 127, 126]))]
    if r < 0.14:                                   # filled up to exactly 255 / 254 / 253 octets
        target = rng.choice([255, 255, 254, 253])
        ls, used = [], 1
        while used < target:
            room = target - used - 1
            if room < 1:
                break
            n = min(room, rng.choice([63, 63, rng.randint(1, 63)]))
            if room - n == 1:                      # would leave room for a length octet only
                n -= 1
                if n < 1:
                    break
            ls.append(bytes(rand_octet(rng) for _ in range(n)))
            used += 1 + n
        return ls
    ls, used = [], 1
    for _ in range(rng.choice([1, 1, 2, 2, 3, 3, 4, 6, 10])):
        l = rand_label(rng)
        if used + 1 + len(l) > 255:
            break
        ls.append(l)
        used += 1 + len(l)
    return ls


def flip_case(rng, l):
    return bytes((c ^ 0x20) if (65 <= c <= 90 or 97 <= c <= 122) and rng.random() < 0.5 else c for c in l)


def variant(rng, ls):
    """a name related to ls: equal up to case, differing in one octet by 0x20 (letter or not), parent, child, ..."""
    ls = list(ls)
    r = rng.random()
    if r < 0.25 or not ls:
        out = [flip_case(rng, l) for l in ls]
    elif r < 0.45:
        i = rng.randrange(len(ls)); l = bytearray(ls[i]); j = rng.randrange(len(l))
        l[j] = rng.choice([l[j] ^ 0x20, (l[j] + 1) & 0xFF, (l[j] - 1) & 0xFF, rand_octet(rng)])
        out = ls[:i] + [bytes(l)] + ls[i + 1:]
    elif r < 0.55:
        out = ls[rng.randint(0, len(ls)):]                                   # ancestor
    elif r < 0.65:
        out = [rand_label(rng, 5)] + [flip_case(rng, l) for l in ls]          # child
    elif r < 0.72:
        out = ls + [rand_label(rng, 3)]                                       # different TLD
    elif r < 0.8:
        i = rng.randrange(len(ls)); l = ls[i]
        out = ls[:i] + [rng.choice([l[:-1] or b"a", l + b"\0", l + b"a", l[:1]])[:63]] + ls[i + 1:]
    elif r < 0.88:
        out = list(ls); rng.shuffle(out)
    elif r < 0.94 and len(ls) >= 2:
        i = rng.randrange(len(ls) - 1)
        out = ls[:i] + [(ls[i] + ls[i + 1])[:63]] + ls[i + 2:]                # two labels merged ("a.b" vs "ab")
    else:
        out = rand_name(rng)
    while len(wire(out)) > 255:
        out = out[1:]
    return out


def label_text(l, rng=None):
    """Display of a label as the RFC describes it (escapes '.', '\\' and non-printing octets)"""
    s = ""
    for c in l:
        if c == 0x2E:
            s += "\\."
        elif c == 0x5C:
            s += "\\\\"
        elif 0x21 <= c <= 0x7E and not (rng and rng.random() < 0.15):
            s += chr(c)
        elif rng and rng.random() < 0.3 and not (48 <= c <= 57) and c < 128:
            s += "\\" + chr(c)                      # \X form
        else:
            s += "\\%03d" % c
    return s


def name_text(ls, rng=None):
    return "." if not ls else "".join(label_text(l, rng) + "." for l in ls)


TXT_ALPHABET = ["a", "A", ".", "\\", "0", "1", "2", "5", "9", " ", "é"]
BAD_TEXTS = ["", ".", "..", "...", "a", "a.b", ".a.", "a..", "a..b.", "\\", "a\\", "a.\\", "\\.", "\\..", "\\\\.", "\\1", "\\12", "\\12.",
             "\\123.", "\\255.", "\\256.", "\\999.", "\\000.", "\\1a2.", "\\12a.", "\\a12.", "\\ .", "\\\t.", " .", "a b.", "é.", "\\é.",
             "a.é.", "aéb.", "K.", "*.", "*.a.", "\\*.a.", "a.*.", "\\046.", "\\092.", "\\..\\\\.", "A.a.", "\\065.", "\x7f.",
             "\x00.", "\\\x00.", "a\x00b.", "-.", "_.", "@.", "\"a\".", "a;b.", "(a).", "$ORIGIN.", "a.b.c.d.e.f.g.h.i.j."]


def gen_txt(rng, quick):
    for n in range(0, 5 if quick else 6):
        for t in itertools.product(TXT_ALPHABET, repeat=n):
            yield "txt " + hx("".join(t).encode())
    for s in BAD_TEXTS:
        yield "txt " + hx(s.encode())
        yield "ltxt " + hx(s.encode())
    for v in range(0, 1000):
        yield "txt " + hx(("\\%03d." % v).encode())
        yield "txt " + hx(("x\\%d.y." % v).encode())
    for c in range(0, 128):
        yield "txt " + hx(b"\\" + bytes([c]) + b".")
        yield "txt " + hx(bytes([c]) + b".")
        yield "txt " + hx(b"a" + bytes([c]) + b"b.c.")
    # length boundaries: labels of 62..65 characters (plain and escaped), names of 253..257 octets, 126..129 labels
    for n in (62, 63, 64, 65):
        yield "txt " + hx(("a" * n + ".").encode())
        yield "txt " + hx(("\\065" * n + ".").encode())
        yield "txt " + hx(("b." + "a" * n + ".c.").encode())
    for total in range(250, 260):
        # wire length = 1 + sum(1 + len): 3 labels of 63 (192) + one of (total - 194) + root
        last = total - 1 - 3 * 64 - 1
        if last >= 1:
            yield "txt " + hx((("a" * 63 + ".") * 3 + "b" * last + ".").encode())
    for nl in range(124, 131):
        yield "txt " + hx(("a." * nl).encode())
        yield "txt " + hx(("a." * (nl - 1) + "bb.").encode())
    n = 12000 if quick else 300000
    for _ in range(n):
        ls = rand_name(rng)
        s = name_text(ls, rng)
        r = rng.random()
        if r < 0.25:                               # damage the text
            i = rng.randrange(len(s) + 1)
            ins = rng.choice(["\\", ".", "..", "\\25", "\\256", "é", " ", "a" * 64, "\\0", ""])
            s = s[:i] + ins + (s[i + 1:] if rng.random() < 0.5 else s[i:])
        elif r < 0.3:
            s = s.rstrip(".")                      # relative name
        yield ("ltxt " if rng.random() < 0.15 else "txt ") + hx(s.encode())


def gen_names(rng, quick):
    n = 6000 if quick else 150000
    for _ in range(n):
        ls = rand_name(rng)
        w = hx(wire(ls))
        yield f"disp {w}"
        k = len(ls) + 1
        r = rng.random()
        if r < 0.3:
            yield f"sup {w} {rng.choice([0, 1, k - 1, k, k + 1, rng.randint(0, k + 2)])}"
        elif r < 0.5:
            yield f"lab {w} {rng.randrange(k)}"
        elif r < 0.75:
            yield f"low {w}"
        else:
            yield f"misc {w} {rng.randint(0, k)}"
    for v in range(256):                           # every octet value in a label: display/escape and lower-casing
        yield f"disp {hx(wire([bytes([v])]))}"
        yield f"disp {hx(wire([b'a' + bytes([v]) + b'b', bytes([v, v])]))}"
        yield f"low {hx(wire([bytes([v]), b'X' + bytes([v])]))}"
        yield f"ldisp {hx(bytes([v]))}"
        yield f"misc {hx(wire([bytes([v])]))} 0"
    for n_ in (0, 1, 62, 63, 64, 65, 100):
        yield f"ldisp {hx(b'a' * n_)}"
    for i in range(0, 64):                          # a label whose LENGTH octet is an upper-case letter code (65..90) must not be touched
        yield f"low {hx(wire([b'Q' * i] if i else []))}"
        yield f"low {hx(wire([b'a', b'Q' * i] if i else [b'a']))}"


def gen_cmp(rng, quick):
    n = 25000 if quick else 500000
    pool = [rand_name(rng) for _ in range(40)]
    for _ in range(n):
        a = rng.choice(pool) if rng.random() < 0.3 else rand_name(rng)
        b = variant(rng, a) if rng.random() < 0.85 else rng.choice(pool)
        yield f"cmp {hx(wire(a))} {hx(wire(b))}"
    # all pairs of one-label names over every octet value against the letters and their 0x20-neighbours
    for x in range(256):
        for y in (0x00, 0x40, 0x41, 0x5A, 0x5B, 0x60, 0x61, 0x7A, 0x7B, 0xC1, 0xE1, x, x ^ 0x20):
            yield f"cmp {hx(wire([bytes([x])]))} {hx(wire([bytes([y])]))}"
            yield f"lcmp {hx(bytes([x]))} {hx(bytes([y]))}"
    # short names over a tiny alphabet, all pairs: prefix/absence ordering
    small = [[]] + [[bytes(t)] for k in (1, 2) for t in itertools.product(b"\0aB", repeat=k)]
    small += [[a[0], b[0]] for a in small[1:5] for b in small[1:5]]
    for a in small:
        for b in small:
            yield f"cmp {hx(wire(a))} {hx(wire(b))}"
    for _ in range(3000 if quick else 50000):
        a = rand_label(rng) if rng.random() < 0.8 else bytes(rand_octet(rng) for _ in range(rng.choice([0, 63, 64, 70])))
        b = variant(rng, [a])[0:1] if 1 <= len(a) <= 63 else [flip_case(rng, a)]
        b = b[0] if b else b""
        yield f"lcmp {hx(a)} {hx(b)}"


def gen_bld(rng, quick):
    fixed = [
        "q,n,f", "f", "p61,f", "p61,n,f", "p61,n,n,f", "p61,q,n,q,p62,q,f", "s-,n,f", "s-,q,f", "s616263,n,s646566,n,f",
        "p61,x00", "x00", "p61,n,x00", "p61,x0161026262" + "00", "s" + "61" * 63 + ",n,f", "s" + "61" * 64 + ",n,f",
        "s" + "61" * 63 + ",p62,n,f", "s" + "61" * 32 + ",s" + "62" * 31 + ",n,f", "s" + "61" * 32 + ",s" + "62" * 32 + ",p63,n,f",
        ",".join(["p61,n"] * 126) + ",f", ",".join(["p61,n"] * 127) + ",f", ",".join(["p61,n"] * 127) + ",p61,f",
        ",".join(["p61,n"] * 126) + ",s6161,n,f", ",".join(["p61,n"] * 126) + ",s6161,f",
        ",".join(["s" + "61" * 63 + ",n"] * 3) + ",s" + "62" * 61 + ",n,f", ",".join(["s" + "61" * 63 + ",n"] * 3) + ",s" + "62" * 62 + ",n,f",
        ",".join(["s" + "61" * 63 + ",n"] * 3) + ",s" + "62" * 62 + ",f", ",".join(["s" + "61" * 63 + ",n"] * 3) + ",s" + "62" * 63 + ",n,f",
        ",".join(["s" + "61" * 63 + ",n"] * 3) + ",s" + "62" * 30 + ",x" + hx(wire([b"c" * 30])),
        ",".join(["s" + "61" * 63 + ",n"] * 3) + ",s" + "62" * 30 + ",x" + hx(wire([b"c" * 29])),
        ",".join(["p61,n"] * 100) + ",p62,x" + hx(wire([b"c"] * 26)), ",".join(["p61,n"] * 100) + ",p62,x" + hx(wire([b"c"] * 27)),
    ]
    yield from ("bld " + s for s in fixed)
    for _ in range(12000 if quick else 200000):
        ops = []
        mode = rng.random()
        for _ in range(rng.choice([3, 6, 10, 20, 40, 140])):
            r = rng.random()
            if r < 0.45:
                ops.append("p%02x" % rand_octet(rng))
            elif r < 0.65:
                k = rng.choice([0, 1, 2, 5, 30, 62, 63, 64]) if mode < 0.5 else rng.choice([0, 1, 2, 3])
                ops.append("s" + hx(bytes(rand_octet(rng) for _ in range(k))))
            elif r < 0.9:
                ops.append("n")
            else:
                ops.append("q")
        ops.append(rng.choice(["f", "f", "n,f", "n,f", "x" + hx(wire(rand_name(rng))), "p61,x" + hx(wire(rand_name(rng)))]))
        yield "bld " + ",".join(ops)


def gen(rng, tier):
    quick = tier == "quick"
    yield from gen_txt(rng, quick)
    yield from gen_names(rng, quick)
    yield from gen_cmp(rng, quick)
    yield from gen_bld(rng, quick)


def oracle_ok(case, impl, oracle):
    if impl in ("panic", "timeout", "crash"):
        return False
    if oracle == "-":
        return True
    op = case.split()[0]
    if op == "disp":
        # the rendered text is printable ASCII and parses back to the identical wire form
        f = impl.split()
        if len(f) < 3 or f[0] != "ok":
            return False
        text = bytes.fromhex(f[1]) if f[1] != "-" else b""
        return all(0x21 <= c <= 0x7E for c in text) and impl.endswith(" " + oracle)
    if oracle == "reject":
        return impl.startswith("err")
    return impl == oracle


def nontrivial(case, impl, model, oracle):
    op = case.split()[0]
    if op in ("txt", "ltxt"):
        if impl.startswith("ok"):
            return impl.split("labels=")[1].count(",") >= 1 or "5c" in case.split()[1]      # >= 1 real label, or an escape was read
        return impl in ("err LabelTooLong", "err NameTooLong", "err InvalidEscape", "err NullNonTerminal", "err NonNullTerminal", "err StrNotAscii")
    if op == "cmp":
        f = case.split()
        return f[1] != f[2]
    if op == "bld":
        return "fin:" in impl or "E:" in impl
    return impl.startswith("ok")


def classify(case, impl, model, oracle):
    op = case.split()[0]
    if op == "cmp" or op == "lcmp":
        return op + ":" + " ".join(impl.split()[1:3]) if impl.startswith("ok") else op + ":" + impl
    if op == "bld":
        last = impl.split(";")[-1]
        return "bld:" + (last.split(":")[0] + (":" + last.split(":")[1] if last.startswith("E:") else ""))
    if op == "sup":
        return "sup:" + ("none" if impl == "ok none" else impl.split()[0])
    return op + ":" + (impl.split()[0] if impl.startswith("ok") else impl)


CHECK = {
    "property": "C16",
    "props": "Props/C16.v",
    "theorems": ["c16_labels", "c16_label_index", "c16_eq", "c16_hash", "c16_hash_inj", "c16_order_rfc4034", "c16_order_total",
                 "c16_order_eq_consistent", "c16_subdomain", "c16_is_root", "c16_text_accepts", "c16_display",
                 "c16_text_roundtrip", "c16_builder_partial", "c16_builder_finish", "c16_superdomain", "c16_lowercase",
                 "c16_lowercase_idempotent", "c16_is_wildcard", "c16_builder_push_slice", "c16_builder_step",
                 "c16_builder_finish_with_suffix", "c16_oracle_is_spec", "c16_text_is_oracle", "c16_text_rejects_non_ascii"],
    "allowed_axioms": [],
    "suites": [{
        "name": "names", "impl_bin": "impl_c16", "extract": "Extract/ExC16.v", "driver": "run_c16.ml",
        "gen": gen, "nontrivial": nontrivial, "classify": classify, "oracle_ok": oracle_ok,
        "exhaustive": {"quick": False, "thorough": False},
        "rule": ("texts: every string of length <=4 (thorough 5) over {a A . \\ 0 1 2 5 9 space é}, \\DDD for DDD=000..999, \\X and bare X for every "
                 "ASCII X, 62..65-character labels (plain and escaped), 250..259-octet names, 124..130 labels, a list of malformed texts, "
                 "seeded rendered names with mixed escape styles and seeded damage; names: seeded valid names (incl. 127 labels, exactly "
                 "253..255 octets, 63-octet labels, every octet value) for Display+parse-back, superdomain(0..len+2), Index, lower-casing "
                 "(incl. labels whose LENGTH octet is a letter code), len/is_root/is_wildcard/wire_repr_to/from; pairs: a name against its "
                 "case variants, one-octet (+-0x20, +-1) changes, ancestors, children, merged/shuffled labels, plus all one-octet-label pairs "
                 "against the letter boundaries and all pairs of a small closed family; NameBuilder scripts (fixed boundary scripts at "
                 "63/64 octets, 127/128 labels, 255/256 octets, with/without suffix, and seeded scripts that continue after errors). "
                 "hash is compared as `hash(a)==hash(b)` under DefaultHasher against equality of the model's hasher octet streams. "
                 "non-trivial = accepted text with a real label or an escape / rejection by a length, escape or dot rule; pairs of different "
                 "wire forms; builder scripts reaching finish or an error; distinct = distinct case line"),
        "timeout": {"quick": 300, "thorough": 3000},
    }],
    "trusted_base": [
        "Coq 8.16.1 kernel",
        "extraction: ExtrOcamlBasic only; OCaml 4.13.1 ocamlopt",
        "correspondence: checks/c16.py generators, harness/src/bin/impl_c16.rs, ocaml/run_c16.ml, line diff in tools/qv.py",
        "tools/gen/consts.py re-extracts MAX_N_LABELS/MAX_WIRE_LEN/MAX_LABEL_LEN",
        "not verified: the unsafe DST allocation new_boxed_name / Box<LowercaseName> casts (exercised through the harness only); "
        "SipHash itself (hash equality is compared through DefaultHasher, the model only fixes the octet stream fed to the Hasher)",
    ],
    "assumptions": ["label octets < 256; a Rust &str is valid UTF-8 (utf8_valid of Model/ZfStd.v, the acceptance model of str::from_utf8 that C24's "
                    "differential run compares with the standard library) in the non-ASCII rejection theorem"],
}

MANIFEST = {
    "level_text": ("Coq theorems (no axioms) on a panic-faithful model of src/name/{mod,label,builder,lowercase}.rs: FromStr accepts exactly "
                   "the ASCII texts that denote (declarative RFC 1035/4343 unescape-and-split relation) an absolute name with labels 1..63 and "
                   "wire <= 255, Display output denotes the name and parses back to the identical value for every well-formed name; == is "
                   "equality of lower-cased label lists; equal names feed equal (and unequal names different) octet streams to the Hasher; Ord "
                   "is the RFC 4034 §6.1 lexicographic order on reversed lower-cased labels, a total order consistent with ==; "
                   "eq_or_subdomain_of/superdomain/Index/make_ascii_lowercase/is_root/is_wildcard equal one-line list functions; NameBuilder "
                   "try_push/next_label/finish/finish_with_suffix keep the name limits and never panic (finish_with_suffix returns exactly the "
                   "concatenation with the suffix name, or NameTooLong iff it exceeds 255 octets); valid UTF-8 text with a non-ASCII character is "
                   "always rejected; the executable text oracle used by the run is proved equal to the declarative relation. Tied to the crate by a differential run (~92k cases quick) "
                   "with an independent executable oracle on every implementation output."),
    "level_note": ("c16_builder_partial keeps its name but is no longer partial (finish_with_suffix: c16_builder_finish_with_suffix; "
                   "non-ASCII: c16_text_rejects_non_ascii; oracle: c16_oracle_is_spec). Trusted: Coq kernel, extraction, the "
                   "hand-written model's correspondence (differentially tested), SipHash, the unsafe DST allocation."),
    "technique": "machine-checked proof in Coq + model/implementation correspondence check",
    "design_ref": "DESIGN.md §4 C16",
}
