"""C17 — Type/Class/Qtype/Qclass/Opcode/Rcode/ExtendedRcode text and numeric conversions."""
import itertools, os, re
import qv

KINDS = ["t", "c", "qt", "qc"]
WORD = {"t": "TYPE", "qt": "TYPE", "c": "CLASS", "qc": "CLASS"}
# RFC tables (literal; the Rust tables are re-read below so that new mnemonics are exercised too)
RFC_MNEMONICS = ["A", "NS", "MD", "MF", "CNAME", "SOA", "MB", "MG", "MR", "NULL", "WKS", "PTR", "HINFO", "MINFO",
                 "MX", "TXT", "AAAA", "SRV", "OPT", "TSIG", "IXFR", "AXFR", "MAILB", "MAILA", "ANY", "*",
                 "IN", "CH", "HS", "NONE", "CS", "DNAME", "RRSIG"]


def hx(s):
    b = s if isinstance(s, bytes) else s.encode("utf-8")
    return b.hex() if b else "-"


def source_mnemonics():
    out = []
    for rel in ("src/rr/rr_type.rs", "src/class.rs", "src/message/question.rs"):
        try:
            src = open(os.path.join(qv.REPO, rel), encoding="utf-8").read()
        except OSError:
            continue
        src = src.split("#[cfg(test)]")[0]
        out += re.findall(r'Caseless\(\s*"([^"]*)"\s*\)', src)
        out += re.findall(r'write_str\(\s*"([^"]*)"\s*\)', src)
    return out


def case_variants(s):
    """every ASCII-case variant of s"""
    opts = [(c.lower(), c.upper()) if c.isalpha() and c.isascii() else (c,) for c in s]
    for t in itertools.product(*opts):
        yield "".join(t)


def rand_case(rng, s):
    return "".join(c.lower() if rng.random() < 0.5 else c.upper() for c in s)


BOUNDARY = [0, 1, 2, 9, 10, 16, 17, 41, 99, 100, 249, 250, 251, 252, 253, 254, 255, 256, 257, 999, 1000, 9999, 10000,
            32767, 32768, 65279, 65280, 65534, 65535]
BAD_NUMBERS = ["", "+", "-", "+-1", "-1", "-0", "+0", "+1", "+65535", "+65536", "65536", "65537", "99999", "100000",
               "655350", "4294967296", "18446744073709551616", "00000", "000001", "0065535", "0065536", " 1", "1 ", "1 2",
               "1.", "1e3", "0x10", "1_0", "٣", "１", "1 ", "\t1", "1\n", "½", "1a", "a1", "++1", "1+", "6553٥"]


def gen(rng, tier):
    quick = tier == "quick"
    # --- exhaustive numeric domains ---------------------------------------------------------
    for k in KINDS:
        for v in range(65536):
            yield f"d {k} {v}"
    for v in range(65536):
        yield f"x {v}"
    for v in range(256):
        yield f"o {v}"
        yield f"r {v}"
    # --- RFC 3597 generic forms: every value, a seeded case variant of the word -------------
    for k in KINDS:
        for v in range(65536):
            yield f"p {k} {hx(rand_case(rng, WORD[k]) + str(v))}"
    # every case variant of the word x boundary values x number spellings, for every kind (also the wrong word)
    for k in KINDS:
        for w in ("TYPE", "CLASS"):
            for pv in case_variants(w):
                for v in BOUNDARY:
                    yield f"p {k} {hx(pv + str(v))}"
                for bad in ("", "+1", "-1", "65536", "007", " 1", "1 ", "x"):
                    yield f"p {k} {hx(pv + bad)}"
            for v in BOUNDARY:
                for z in ("0", "00", "0000000", "+", "+0"):
                    yield f"p {k} {hx(w + z + str(v))}"
            for bad in BAD_NUMBERS:
                yield f"p {k} {hx(w + bad)}"
                yield f"p {k} {hx(rand_case(rng, w) + bad)}"
    # --- every ASCII-case variant of every mnemonic, against every kind ------------------------
    mn = sorted(set(RFC_MNEMONICS + source_mnemonics()))
    for m in mn:
        for var in case_variants(m):
            for k in KINDS:
                yield f"p {k} {hx(var)}"
    # --- malformed / near-miss texts -------------------------------------------------------
    alphabet = list("ATYPECLSNI*019+- .x") + ["é", "€", "K", "ı", "İ", "Ａ", "\x00", "\x7f"]
    near = set()
    for m in mn + ["TYPE", "CLASS", "TYPE1", "CLASS1", "TYPE65535", "CLASS255", "type12", "class3"]:
        near.add(m)
        for i in range(len(m) + 1):
            near.add(m[:i] + m[i + 1:])                    # deletion
            for a in alphabet:
                near.add(m[:i] + a + m[i:])                # insertion
                if i < len(m):
                    near.add(m[:i] + a + m[i + 1:])        # replacement
    for s in sorted(near):
        for k in KINDS:
            yield f"p {k} {hx(s)}"
    n_rand = 20000 if quick else 400000
    for _ in range(n_rand):
        base = rng.choice(mn + ["TYPE", "CLASS"] * 6)
        s = rand_case(rng, base)
        if base in ("TYPE", "CLASS"):
            r = rng.random()
            if r < 0.5:
                s += str(rng.choice(BOUNDARY + [rng.randrange(65536), rng.randrange(200000)]))
            elif r < 0.7:
                s += "0" * rng.randint(0, 6) + str(rng.randrange(70000))
            else:
                s += rng.choice(BAD_NUMBERS)
        for _ in range(rng.choice([0, 0, 1, 1, 2])):
            i = rng.randrange(len(s) + 1)
            op = rng.random()
            a = rng.choice(alphabet)
            s = s[:i] + a + s[i:] if op < 0.4 else (s[:i] + a + s[i + 1:] if op < 0.8 else s[:i] + s[i + 1:])
        yield f"p {rng.choice(KINDS)} {hx(s)}"
    # --- u16::from_str as modelled -------------------------------------------------------------
    for v in BOUNDARY + [rng.randrange(65536) for _ in range(2000)]:
        yield f"n {hx(str(v))}"
        yield f"n {hx('+' + str(v))}"
        yield f"n {hx('0' * rng.randint(1, 8) + str(v))}"
    for bad in BAD_NUMBERS:
        yield f"n {hx(bad)}"
    for _ in range(3000 if quick else 50000):
        yield f"n {hx(''.join(rng.choice('0123456789' * 3 + '+- a') for _ in range(rng.randint(0, 8))))}"


def oracle_ok(case, impl, oracle):
    if impl in ("panic", "timeout", "crash"):
        return False
    op = case.split()[0]
    if oracle == "-":
        return True
    if op == "d":
        # rendered text is one of the RFC's spellings of the value AND parses back to the value
        v, alts = oracle.split()
        return any(impl == f"ok {h} back=ok:{v}" for h in alts.split(","))
    if op in ("o", "r"):
        return impl == "err" if oracle == "reject" else impl.startswith(oracle + " ")
    if op == "x":
        f = impl.split()
        v = case.split()[1]
        tok = oracle if oracle == "rcode=err" else None
        return f"u16={v}" in f and (oracle in f if tok else any(t.startswith(oracle + ":") for t in f))
    if oracle == "reject":
        return impl.startswith("err")
    return impl == oracle


def nontrivial(case, impl, model, oracle):
    op = case.split()[0]
    if op == "p":
        # got past the trivial rejection: accepted, or recognised as WORDnnn with a bad number
        return impl.startswith("ok") or impl == "err badnum"
    return True          # d/x/o/r: one evaluation per element of the exhaustive domain; n: the integer syntax


def classify(case, impl, model, oracle):
    f = case.split()
    head = f[0] + (":" + f[1] if f[0] in ("d", "p") else "")
    if f[0] == "d":
        return head + (":ok" if "back=ok" in impl else ":" + impl.split("back=")[-1])
    if f[0] == "x":
        return head + (":rcode-ok" if "rcode=ok" in impl else ":rcode-err")
    return head + ":" + (impl.split()[0] if impl.startswith("ok") else impl)


CHECK = {
    "property": "C17",
    "props": "Props/C17.v",
    "theorems": [
        "c17_roundtrip_type", "c17_roundtrip_class", "c17_roundtrip_qtype", "c17_roundtrip_qclass",
        "c17_display_denotes_type", "c17_display_denotes_class", "c17_display_denotes_qtype", "c17_display_denotes_qclass",
        "c17_parse_exact_type", "c17_parse_exact_class", "c17_parse_exact_qtype", "c17_parse_exact_qclass",
        "c17_accepts_rfc_forms", "c17_mnemonic_case_type", "c17_mnemonic_case_class", "c17_mnemonic_case_qtype",
        "c17_mnemonic_case_qclass", "c17_generic_type", "c17_generic_class", "c17_generic_qtype", "c17_generic_qclass",
        "c17_opcode", "c17_rcode", "c17_ext_rcode", "c17_no_panic", "c17_u16_codec", "c17_u16_from_str_spec",
    ],
    "allowed_axioms": [],
    "suites": [{
        "name": "codes", "impl_bin": "impl_c17", "extract": "Extract/ExC17.v", "driver": "run_c17.ml",
        "gen": gen, "nontrivial": nontrivial, "classify": classify, "oracle_ok": oracle_ok,
        "exhaustive": {"quick": False, "thorough": False},
        "rule": ("exhaustive: all 65536 values x {Type,Class,Qtype,Qclass} rendered and parsed back, all 65536 "
                 "ExtendedRcode values, all 256 u8 values for Opcode and Rcode, WORDnnn for all 65536 values x 4 kinds "
                 "(seeded case variant of the word); every ASCII-case variant of TYPE/CLASS x boundary numbers, every "
                 "ASCII-case variant of every mnemonic (RFC list + those re-read from the Rust source) against all 4 "
                 "kinds; one-edit neighbours (insert/delete/replace incl. non-ASCII and Unicode case-folding look-alikes) "
                 "of every mnemonic; overflow/sign/space/empty/non-digit numbers; seeded mutated texts; u16::from_str "
                 "directly. non-trivial = every numeric-domain case, and every text that is accepted or rejected as a bad "
                 "number (not the plain `unknown` rejection); distinct = distinct case line"),
        "timeout": {"quick": 300, "thorough": 3000},
    }],
    "trusted_base": [
        "Coq 8.16.1 kernel (vm_compute only on table-sized Boolean checks; all 16-bit statements are proved for arbitrary v by induction on the decimal codec)",
        "axioms: none (every theorem: Closed under the global context)",
        "extraction: ExtrOcamlBasic only; OCaml 4.13.1 ocamlopt",
        "correspondence: checks/c17.py generators, harness/src/bin/impl_c17.rs, ocaml/run_c17.ml, line diff in tools/qv.py",
        "tools/gen/codes.py re-extracts every constant table, FromStr/Display arm, RFC 3597 prefix/slice index, fall-through format string and `< 16` bound from the Rust source",
        "modelled, not verified: Rust core's u16::from_str / integer Display / eq_ignore_ascii_case / str::get (Model/DecU16.v), tied by the exhaustive differential run",
    ],
    "assumptions": ["code values are < 2^16 (u16) resp. < 2^8 (u8); texts are arbitrary octet strings (valid UTF-8 in the differential run)"],
}

MANIFEST = {
    "level_text": ("Coq theorems (no axioms), for ALL 16-bit values and ALL texts: parse(display v) = v for Type/Class/Qtype/Qclass; "
                   "the rendered text denotes v under an independent RFC 1035/3597 reading; the parsers accept exactly the texts that "
                   "reading accepts (any letter case, TYPEnnn/CLASSnnn for every value; plus Rust's optional '+'), with the same value, "
                   "and never panic; Opcode/Rcode::try_from accept exactly v<16 and ExtendedRcode->Rcode exactly e<16. Tables, prefixes "
                   "and bounds are re-extracted from the Rust source on every run; the model is tied to the crate by an exhaustive "
                   "differential run over every 16-bit value of every kind and every case variant of every mnemonic."),
    "level_note": ("Trusted: Coq kernel, extraction, the model of Rust core's integer parsing/printing (differentially tested "
                   "exhaustively), the generator's regular expressions (fail loudly when an anchor is missing)."),
    "technique": "machine-checked proof in Coq (general induction + table-sized computation) + exhaustive model/implementation correspondence check",
    "design_ref": "DESIGN.md §4 C17",
}
