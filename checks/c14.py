"""C14 — wire-format name decoding matches RFC 1035 (src/name/wire.rs)."""
import itertools

ALPHABET = [0, 1, 2, 3, 62, 63, 64, 0xBF, 0xC0, 0xC1, 0xFF, ord('a')]
OPS = ["pc", "pu", "pua", "vu", "vua", "sk"]


def hx(b):
    return bytes(b).hex() if len(b) else "-"


def exhaustive(maxlen, ops):
    for n in range(0, maxlen + 1):
        for t in itertools.product(ALPHABET, repeat=n):
            h = hx(t)
            for op in ops:
                # one past the end as well: start = len is the offset the pre-fix code panicked on
                for start in range(0, n + 2 if op == "pc" else n + 1):
                    yield f"{op} {h} {start}"


def rand_label(rng, maxlen=63):
    r = rng.random()
    if r < 0.1:
        n = rng.choice([62, 63])
    elif r < 0.75:
        n = rng.randint(1, 6)
    else:
        n = rng.randint(1, maxlen)
    n = min(n, maxlen)
    return [n] + [rng.choice([ord('a'), ord('A'), ord('*'), 0, 0xC0, rng.randrange(256)]) for _ in range(n)]


def structured(rng):
    """A message-like buffer of several names; later names may point at label starts of
    earlier ones (valid), at mid-label offsets, forwards, at themselves, or chain pointers."""
    buf = [rng.randrange(256) for _ in range(rng.choice([0, 0, 12, rng.randint(0, 20)]))]
    label_starts, name_starts, starts = [], [], []
    for _ in range(rng.randint(1, 8)):
        name_starts.append(len(buf))
        starts.append(len(buf))
        nlab = rng.choice([0, 1, 2, 3, 3, 5, rng.randint(0, 40), rng.randint(100, 130)])
        budget = rng.choice([255, 255, 254, 256, 300, 100])
        used = 0
        for _ in range(nlab):
            lab = rand_label(rng, 63 if rng.random() < 0.97 else 70)
            if used + len(lab) + 1 > budget:
                break
            label_starts.append(len(buf))
            buf += lab
            used += len(lab)
        r = rng.random()
        if r < 0.45 or not label_starts:
            label_starts.append(len(buf))
            buf.append(0)
        elif r < 0.9:
            kind = rng.random()
            if kind < 0.6:
                t = rng.choice(label_starts)                      # prior label start
            elif kind < 0.7:
                t = rng.choice(name_starts)
            elif kind < 0.8:
                t = len(buf)                                      # self
            elif kind < 0.9:
                t = min(0x3FFF, len(buf) + rng.randint(1, 10))    # forwards
            else:
                t = rng.randrange(0, max(1, len(buf)))            # anywhere (mid-label too)
            label_starts.append(len(buf))                         # pointers to pointers are legal
            buf += [0xC0 | (t >> 8), t & 0xFF]
        # else: leave the name unterminated (runs into the next name / the end)
    if rng.random() < 0.3:
        cut = rng.randrange(0, len(buf) + 1)
        buf = buf[:cut]
    if rng.random() < 0.1:
        i = rng.randrange(0, max(1, len(buf)))
        if i < len(buf):
            buf[i] = rng.choice(ALPHABET)
    buf = buf[:600]
    st = rng.choice(starts + [rng.randrange(0, len(buf) + 2)]) if starts else 0
    return buf, st


def chain(rng):
    """A name reached through a long chain of strictly backward pointers: a (possibly labelled) name, then k bare
    pointers, each at the previous one (RFC 1035 puts no bound on the number of hops; only on labels and octets).
    k is drawn around the limits a hop counter would plausibly use (64, 127..130, 255..257) and far beyond."""
    pre = [rng.randrange(256) for _ in range(rng.choice([0, 12, 13]))]
    nlab = rng.choice([0, 1, 1, 3, 126, 127])
    name = []
    for _ in range(nlab):
        name += [1, rng.choice([ord('a'), ord('Z'), ord('*')])]
    buf = pre + name + [0]
    target = len(pre)
    k = rng.choice([1, 2, 63, 64, 65, 126, 127, 128, 129, 130, 131, 200, 254, 255, 256, 257, 300, 1000, rng.randint(1, 400)])
    mixed = rng.random() < 0.3
    for i in range(k):
        here = len(buf)
        if mixed and rng.random() < 0.2 and nlab < 100:
            buf += [1, ord('x')]                     # a label in front of the next pointer (still backwards)
        buf += [0xC0 | (target >> 8), target & 0xFF]
        target = here
    st = target
    if rng.random() < 0.1:
        st = rng.randrange(len(buf))
    return buf, st


def gen(rng, tier):
    quick = tier == "quick"
    for _ in range(300 if quick else 6000):
        buf, st = chain(rng)
        yield f"{rng.choice(['pc', 'pc', 'pc'] + OPS)} {hx(buf)} {min(st, len(buf))}"
    yield from exhaustive(3 if quick else 4, OPS)
    yield from exhaustive(4 if quick else 5, ["pc"])
    n = 20000 if quick else 400000
    for _ in range(n):
        buf, st = structured(rng)
        op = rng.choice(OPS + ["pc", "pc", "pc"])
        if op != "pc":
            st = min(st, len(buf))
        yield f"{op} {hx(buf)} {st}"
    for _ in range(n // 10):
        buf = [rng.randrange(256) for _ in range(rng.randint(0, 40))]
        yield f"{rng.choice(OPS)} {hx(buf)} {rng.randint(0, len(buf))}"


def nontrivial(case, impl, model, oracle):
    if impl.startswith("ok"):
        # a pointer was followed (first chunk shorter than the name) or the name has >= 2 labels
        return "labels=" in impl and impl.split("labels=")[1].split()[0].count(",") >= 1
    return impl in ("err InvalidPointer", "err NameTooLong", "err LabelTooLong", "err ExtraData")


def classify(case, impl, model, oracle):
    return case.split()[0] + ":" + (impl.split()[0] if impl.startswith("ok") else impl)


CHECK = {
    "property": "C14",
    "props": "Props/C14.v",
    "theorems": ["c14_parse_sound_complete", "c14_parse_total", "c14_parse_err", "c14_spec_functional",
                 "c14_skip_agrees", "c14_skip_total", "c14_uncompressed", "c14_uncompressed_total",
                 "c14_validate_agrees", "c14_oracle_is_spec"],
    "allowed_axioms": [],
    "correspondence": {"impl_bin": "impl_c14", "extract": "Extract/ExC14.v", "driver": "run_c14.ml"},
    "gen": gen,
    "nontrivial": nontrivial,
    "classify": classify,
    "exhaustive": {"quick": False, "thorough": False},
    "rule": ("exhaustive buffers over the 12 significant octets {0,1,2,3,62,63,64,BF,C0,C1,FF,'a'} "
             "(len<=3 all six entry points, len<=4 try_from_compressed; thorough: 4 and 5) at every start "
             "offset 0..len+1, plus long chains of strictly backward pointers (1..1000 hops, around 64/128/256), plus seeded structured multi-name buffers (<=600 octets, pointer chains, "
             "mid-label/forward/self pointers, 63/64-octet labels, 254..256-octet names) and random bytes; "
             "non-trivial = accepted name with >=2 labels (incl. every followed pointer) or rejection by "
             "InvalidPointer/NameTooLong/LabelTooLong/ExtraData; distinct = distinct case line"),
    "trusted_base": [
        "Coq 8.16.1 kernel (vm_compute used in one finite sweep over 256 octet values and in the Example)",
        "axioms: none (every theorem: Closed under the global context)",
        "extraction: ExtrOcamlBasic only, no Extract Constant/Inductive of ours; OCaml 4.13.1 ocamlopt",
        "correspondence: checks/c14.py generators, harness/src/bin/impl_c14.rs (catch_unwind), ocaml/run_c14.ml, line diff in tools/qv.py",
        "tools/gen/consts.py re-extracts MAX_N_LABELS/MAX_WIRE_LEN/MAX_LABEL_LEN from src/name/mod.rs",
        "not verified: the unsafe DST allocation new_boxed_name (only exercised through the harness), Rust slice/ArrayVec semantics as modelled",
    ],
    "assumptions": ["octets of the buffer are < 256 (wf_bytes); start offset arbitrary"],
}

MANIFEST = {
    "level_text": ("Coq theorems (no axioms) that the model of src/name/wire.rs accepts exactly the names of an inductive "
                   "RFC 1035 §4.1.4 decoding relation, with the same name and first-chunk length, never panics for any buffer "
                   "and start offset, and that skip/validate/uncompressed parsing agree; the model is tied to the code by a "
                   "differential run on ~200k (quick) cases incl. exhaustive short buffers, and the extracted spec decoder "
                   "(proved equal to the relation) is evaluated on every implementation output."),
    "level_note": ("Trusted: Coq kernel, ExtrOcamlBasic extraction, the hand-written model's correspondence to the Rust code "
                   "(differentially tested, not proved), the regenerated constants. The unsafe DST construction is exercised, not verified."),
    "technique": "machine-checked proof in Coq (soundness+completeness vs inductive relation) + model/implementation correspondence check",
}
