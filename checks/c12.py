"""C12 — the message writer serialises exactly what it was given (src/message/writer.rs)."""
import writer_check

ORACLE = writer_check.Oracle("--oracle")


def nontrivial(case, impl, model, oracle):
    # a finished message with at least one record or question written and at least one failed operation
    # or compression pointer: the interesting interplay of rollback, limits and compression
    if not impl.startswith("ops=") or ";len=" not in impl or impl.endswith("len=dead;buf=-"):
        return False
    outs = impl.split(";")[0][4:].split(",")
    wrote = any(o == "ok" and t.split(":")[0] in ("q", "rr", "rs") for o, t in zip(outs, case.split()[3:]))
    return wrote and (any(o.startswith("E:") for o in outs) or writer_check.n_pointers(impl) > 0)


CHECK = {
    "property": "C12",
    "props": "Props/C12.v",
    "theorems": ["c12_invariant", "c12_limit", "c12_atomic", "c12_names_roundtrip_partial",
                 "c12_unhinted_names_roundtrip_partial", "c12_exact_is_equal",
                 "c12_ext_rcode_refuted_prefix", "c12_ext_rcode_kept",
                 "c12_ops_never_panic", "c12_run_never_panics", "c12_no_spurious_truncation_rr",
                 "c12_no_spurious_truncation_rrset", "c12_no_spurious_truncation_question",
                 "c12_layout_invariant_all_ops", "c12_roundtrip", "c12_header_invariant", "c12_getters",
                 "c12_component_table_is_rfc_layout"],
    "allowed_axioms": [],
    "suites": [{
        "name": "writer",
        "runner_name": "C12_writer",
        "impl_bin": "impl_c12",
        "extract": "Extract/ExC12.v",
        "driver": "run_c12.ml",
        "gen": ORACLE.gen,
        "nontrivial": nontrivial,
        "classify": writer_check.classify,
        "oracle_ok": ORACLE.oracle_ok,
        "exhaustive": {"quick": False, "thorough": False},
        "timeout": {"quick": 600, "thorough": 3000},
        "rule": ("seeded random Writer operation sequences (1-60 ops over every public method: header setters, "
                 "questions, RRs and RRsets in all sections with every hint kind incl. explicit pointers from "
                 "earlier vectors, limits near the running size, three compression modes, EDNS, unsigned TSIG, "
                 "clear_rrs, templates, getters) over name pools with shared suffixes and case variants, "
                 "buffers 0-700 octets plus a few >16 KiB (pointer range), RDATA of every classified type plus "
                 "malformed RDATA; implementation compared octet for octet (whole underlying buffer, outcomes, "
                 "hint vectors) with the extracted model, and judged by the extracted specification "
                 "(Spec/MsgWriterS.v judge: replay of succeeded ops, RFC 1035 decoder, getters, spurious "
                 "truncation, pointer rules); non-trivial = finished message with a question/record written and "
                 "a failed operation or a compression pointer; distinct = distinct case line"),
    }],
    "trusted_base": [
        "Coq 8.16.1 kernel (vm_compute in the two regression witnesses and the Examples)",
        "axioms: none",
        "extraction: ExtrOcamlBasic only; OCaml 4.13.1 ocamlopt",
        "correspondence: checks/writer_gen.py, checks/writer_check.py, harness/src/bin/impl_c12.rs (catch_unwind; reads HintPointerVec through its Debug output), ocaml/run_c12.ml, line diff in tools/qv.py",
        "tools/gen/writertab.py re-extracts type/class numbers, the Rdata::components match and the components_as_* tables; tools/gen/consts.py the header layout and writer constants",
        "not modelled: the three signing TSIG modes (HMAC) — only TsigMode::Unsigned; usize overflow of sums of buffer-bounded quantities",
        "Spec/MsgWriterAbsS.v (abstract message of the succeeded operations; the expected RDATA parts use the regenerated component table, proved equal to the RFC layout)",
    ],
    "assumptions": ["octets of the buffer are < 256; names are valid Names (labels 1..63 octets, wire form <= 255)",
                    "hints obey the API contract (checked per case by the specification replay; cases that break it are compared with the model only)"],
}

MANIFEST = {
    "level_text": ("Coq theorems (no axioms) about an executable, panic-faithful model of src/message/writer.rs (every public "
                   "method, the two-prior-name compression scan, RDATA components, Ttl::from), for ALL operation sequences that "
                   "obey the hint contract (the hint designates an anchor / hint-vector slot issued for a name equal modulo ASCII "
                   "case): (1) every operation and finish return Ok/Err, never panic, and preserve the full invariant (numeric "
                   "invariant, anchor invariant, layout invariant) -- in particular across the RDLENGTH back-patch, rollbacks and "
                   "clear_rrs; (2) MESSAGE-LEVEL ROUND TRIP: the independent RFC 1035 decoder of the specification, applied to the "
                   "finished message, returns in order the questions and the answer/authority/additional records of the abstract "
                   "message of the operations that succeeded, then the OPT and TSIG pseudo-records: names exactly (case-preserving/"
                   "disabled mode) or modulo ASCII case (standard mode), type, class, TTL clamped per RFC 2181, RDATA octets and "
                   "embedded names, and the header id/QR/opcode/AA/TC/RD/RA/Z/RCODE, the OPT record (UDP size, extended-RCODE upper "
                   "bits) and the unsigned TSIG record of the settings denoted by the operations; (3) a record/RRset/question operation fails with Truncation only if its UNCOMPRESSED encoding "
                   "does not fit between cursor and available space; (4) the finished message never exceeds the limit; a failed "
                   "operation leaves every field and every octet below the cursor unchanged. The extracted specification "
                   "(independent decoder + replay of the succeeded operations, which also checks getters and hint vectors) keeps "
                   "running on the implementation's output on every run, after an octet-for-octet differential run model vs. crate."),
    "level_note": ("Trusted: Coq kernel, ExtrOcamlBasic extraction, the hand-written model's correspondence to the Rust code "
                   "(differentially tested on ~3000 operation sequences per quick run, whole buffer compared), the regenerated "
                   "tables (the component table is PROVED equal to the RFC layout of the specification). Assumed of callers: names "
                   "are valid Names (labels 1..63 octets, <= 255 octets), types/classes/id are u16, opcode and RCODE 4 bits, RDATA <= 65535 octets, octets < 256. "
                   "Signing TSIG modes are outside the model. The OPT-TTL defect (extended RCODE >= 2048 lost) is repaired "
                   "by a fix: commit; the model follows the repaired code and keeps a regression theorem about the old one."),
    "technique": "machine-checked proof in Coq (invariants over all operation sequences, refinement to an abstract message, decoder round trip) + model/implementation correspondence check + extracted specification decoder as oracle",
}
