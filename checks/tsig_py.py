"""An independent RFC 8945 TSIG implementation (Python stdlib hmac/hashlib) and a small DNS
message builder/parser, used by checks/c11.py and checks/c10.py to generate cases, to supply
the HMAC table the model runner uses, and to predict what the implementation must answer.
Written from RFC 8945 §4.2 (RDATA layout), §4.3.1-4.3.3 (digest components), §5.2 (checks),
§5.3.1 (subsequent messages) and RFC 1035 §4.1 — not from the Rust code."""
import hashlib, hmac as _hmac, struct

ALG_NAME = {"1": b"\x09hmac-sha1\x00", "256": b"\x0bhmac-sha256\x00"}
ALG_HASH = {"1": hashlib.sha1, "256": hashlib.sha256}
ALG_OUT = {"1": 20, "256": 32}
BADSIG, BADKEY, BADTIME = 16, 17, 18
TYPE_TSIG, CLASS_ANY = 250, 255


def hx(b):
    b = bytes(b)
    return b.hex() if b else "-"


def unhx(s):
    return b"" if s in ("-", "") else bytes.fromhex(s)


def hmac_full(alg, key, data):
    return _hmac.new(bytes(key), bytes(data), ALG_HASH[alg]).digest()


def u16(n):
    return struct.pack(">H", n & 0xFFFF)


def u48(n):
    return struct.pack(">Q", n)[2:]


def lower(b):
    return bytes(c + 32 if 65 <= c <= 90 else c for c in b)


# ------------------------------------------------------------------ names

def name_wire(labels):
    out = b""
    for l in labels:
        out += bytes([len(l)]) + bytes(l)
    return out + b"\x00"


def parse_uncompressed(b, start=0):
    """(labels, end) of an uncompressed RFC 1035 name at b[start:], or None if it is not one
    (label > 63, name > 255, runs off the end, compression pointer)."""
    i, labels = start, []
    while True:
        if i >= len(b):
            return None
        l = b[i]
        if l > 63:
            return None
        if i + 1 + l - start > 255:
            return None
        if l == 0:
            return labels, i + 1
        if i + 1 + l > len(b):
            return None
        labels.append(bytes(b[i + 1:i + 1 + l]))
        i += 1 + l


def valid_name(b):
    r = parse_uncompressed(b)
    return r is not None and r[1] == len(b)


# ------------------------------------------------------------------ TSIG RDATA (RFC 8945 §4.2)

def tsig_rdata(alg_wire, time_signed, fudge, mac, orig_id, error, other):
    return (bytes(alg_wire) + u48(time_signed) + u16(fudge) + u16(len(mac)) + bytes(mac)
            + u16(orig_id) + u16(error) + u16(len(other)) + bytes(other))


def parse_tsig_rdata(rd):
    """dict of fields, or None when the octets are not a TSIG RDATA."""
    r = parse_uncompressed(rd)
    if r is None:
        return None
    _, a = r
    if a + 10 > len(rd):
        return None
    ts = int.from_bytes(rd[a:a + 6], "big")
    fudge = int.from_bytes(rd[a + 6:a + 8], "big")
    ms = int.from_bytes(rd[a + 8:a + 10], "big")
    p = a + 10 + ms
    if p + 6 > len(rd):
        return None
    mac = rd[a + 10:p]
    oid = int.from_bytes(rd[p:p + 2], "big")
    err = int.from_bytes(rd[p + 2:p + 4], "big")
    ol = int.from_bytes(rd[p + 4:p + 6], "big")
    if p + 6 + ol != len(rd):
        return None
    return {"alg": bytes(rd[:a]), "ts": ts, "fudge": fudge, "mac": bytes(mac), "oid": oid, "err": err,
            "other": bytes(rd[p + 6:])}


# ------------------------------------------------------------------ digest (RFC 8945 §4.3)

def digest_message(msg, orig_id):
    """§4.3.2: the message before the TSIG RR was added (ARCOUNT not counting it) with the
    original ID.  `msg` is the wire message as sent, up to the TSIG RR, ARCOUNT counting it."""
    ar = int.from_bytes(msg[10:12], "big")
    return u16(orig_id) + bytes(msg[2:10]) + u16(ar - 1) + bytes(msg[12:])


def digest_variables(key_name, alg_name, ts, fudge, error, other):
    """§4.3.3: NAME, CLASS ANY, TTL 0, Algorithm Name, Time Signed, Fudge, Error, Other Len, Other Data;
    names in canonical (lower-case, uncompressed) wire form."""
    return (lower(key_name) + u16(CLASS_ANY) + struct.pack(">I", 0) + lower(alg_name) + u48(ts) + u16(fudge)
            + u16(error) + u16(len(other)) + bytes(other))


def digest_timers(ts, fudge):
    """§4.3.3.1 / §5.3.1"""
    return u48(ts) + u16(fudge)


def digest(mode, msg, orig_id, key_name, alg_name, ts, fudge, error, other, prior_mac=b""):
    """mode rq: §4.3; rs: request MAC (length-prefixed, §4.3.1) first; sb: prior MAC, message, timers only."""
    d = b""
    if mode in ("rs", "sb"):
        d += u16(len(prior_mac)) + bytes(prior_mac)
    d += digest_message(msg, orig_id)
    if mode == "sb":
        d += digest_timers(ts, fudge)
    else:
        d += digest_variables(key_name, alg_name, ts, fudge, error, other)
    return d


def mac_size_ok(alg, n):
    """§5.2.2.1: not longer than the output, at least max(10, half the output)."""
    out = ALG_OUT[alg]
    return n <= out and n >= max(10, (out + 1) // 2)


def alg_of_name(wire):
    w = lower(wire)
    for a, n in ALG_NAME.items():
        if w == n:
            return a
    return None


def verify(mode, msg, owner, rdata, key, now, prior_mac=b""):
    """What RFC 8945 §5.2 prescribes for a parsed TSIG RR: returns (result, digest, full_mac) with result in
    'ok', 'err FormErr', 'err BadSig', 'err BadTime', 'err UnknownAlgorithm'."""
    f = parse_tsig_rdata(rdata)
    assert f is not None
    alg = alg_of_name(f["alg"])
    if alg is None:
        return "err UnknownAlgorithm", b"", b""
    d = digest(mode, msg, f["oid"], owner, f["alg"], f["ts"], f["fudge"], f["err"], f["other"], prior_mac)
    full = hmac_full(alg, key, d)
    if not mac_size_ok(alg, len(f["mac"])):
        return "err FormErr", d, full
    if full[:len(f["mac"])] != f["mac"]:
        return "err BadSig", d, full
    if abs(now - f["ts"]) > f["fudge"]:
        return "err BadTime", d, full
    return "ok", d, full


def sign(mode, alg, key, msg, key_name, ts, fudge, orig_id, error, other, prior_mac=b"", trunc=None):
    """(rdata, full mac, digest)"""
    d = digest(mode, msg, orig_id, key_name, ALG_NAME[alg], ts, fudge, error, other, prior_mac)
    full = hmac_full(alg, key, d)
    mac = full if trunc is None else full[:trunc]
    return tsig_rdata(ALG_NAME[alg], ts, fudge, mac, orig_id, error, other), full, d


# ------------------------------------------------------------------ messages

def header(mid, flags, qd, an, ns, ar):
    return struct.pack(">HHHHHH", mid & 0xFFFF, flags & 0xFFFF, qd, an, ns, ar)


def rr_wire(owner, rtype, rclass, ttl, rdata):
    return bytes(owner) + struct.pack(">HHIH", rtype, rclass, ttl, len(rdata)) + bytes(rdata)


def tsig_rr(owner, rdata):
    return rr_wire(owner, TYPE_TSIG, CLASS_ANY, 0, rdata)


def skip_name(b, i):
    """end offset of a possibly compressed name at b[i:] (first pointer ends it), or None"""
    n = 0
    while True:
        if i >= len(b):
            return None
        l = b[i]
        if l & 0xC0 == 0xC0:
            return i + 2 if i + 2 <= len(b) else None
        if l > 63:
            return None
        if l == 0:
            return i + 1
        i += 1 + l
        n += 1
        if n > 128:
            return None


def expand_name(b, i):
    """labels of the possibly compressed name at b[i:], or None"""
    labels, hops, total = [], 0, 1
    while True:
        if i >= len(b):
            return None
        l = b[i]
        if l & 0xC0 == 0xC0:
            if i + 1 >= len(b):
                return None
            t = ((l & 0x3F) << 8) | b[i + 1]
            if t >= i:
                return None
            i = t
            hops += 1
            if hops > 200:
                return None
            continue
        if l > 63:
            return None
        if l == 0:
            return labels
        if i + 1 + l > len(b):
            return None
        labels.append(bytes(b[i + 1:i + 1 + l]))
        total += 1 + l
        if total > 255:
            return None
        i += 1 + l


def split_last_rr(msg):
    """(offset of the last RR, owner labels, type, class, ttl, rdata) of a well-formed message, else None"""
    if len(msg) < 12:
        return None
    qd, an, ns, ar = struct.unpack(">HHHH", msg[4:12])
    i = 12
    for _ in range(qd):
        i = skip_name(msg, i)
        if i is None or i + 4 > len(msg):
            return None
        i += 4
    n = an + ns + ar
    if n == 0:
        return None
    for k in range(n):
        start = i
        e = skip_name(msg, i)
        if e is None or e + 10 > len(msg):
            return None
        rtype, rclass, ttl, rdl = struct.unpack(">HHIH", msg[e:e + 10])
        if e + 10 + rdl > len(msg):
            return None
        i = e + 10 + rdl
        if k == n - 1:
            labels = expand_name(msg, start)
            if labels is None:
                return None
            return start, labels, rtype, rclass, ttl, bytes(msg[e + 10:i]), i
    return None
