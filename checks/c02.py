"""C02 — every response is a well-formed DNS message under an independent decoder."""
import os
import qv, srvgen, qgen, c04, c05

RUNNER_DIR = "c04_pair"       # ocaml/run_c04.ml carries the extracted decoder (`--oracle02`)


def raws_of(impl):
    out = []
    for part in impl.split(" ## "):
        for tok in part.split():
            if tok.startswith("raw="):
                out.append(tok[4:])
    return out


class WfOracle:
    """wf_response (Spec/RespS.v, extracted) on the octets of every response of the implementation;
    one sharded batch per suite on first use"""
    def __init__(self, impl_bin):
        self.impl_bin, self.cases, self.cache, self.primed = impl_bin, [], {}, False
        self.runner = os.path.join(qv.BUILD, "ocaml", RUNNER_DIR, "run")

    def wrap(self, g):
        def gen(rng, tier):
            for c in g(rng, tier):
                self.cases.append(c)
                yield c
        return gen

    def _eval(self, raws):
        todo = [r for r in dict.fromkeys(raws) if r not in self.cache]
        if todo and os.path.exists(self.runner):
            out = qv.run_sharded(self.runner, todo, 900, args=["--oracle02"])
            for r, v in zip(todo, out):
                self.cache[r] = v

    def prime(self):
        self.primed = True
        exe = os.path.join(qv.BUILD, "target", "debug", self.impl_bin)
        if not self.cases or not os.path.exists(exe):
            return
        impl = qv.run_sharded(exe, self.cases, 600)
        self._eval([r for i in impl for r in raws_of(i)])

    def oracle_ok(self, case, impl, oracle):
        if impl in srvgen.BAD:
            return False
        if not self.primed:
            self.prime()
        rs = raws_of(impl)
        if not rs:
            # no response at all ("none"), or a response whose raw octets are missing
            return all(not p.strip().startswith(("resp", "U resp", "T resp")) for p in impl.split(" ## "))
        self._eval(rs)
        return all(self.cache.get(r, "unavailable") == "ok" for r in rs)


O_PAIR, O_QUERY, O_SRV = WfOracle("impl_c04"), WfOracle("impl_c05"), WfOracle("impl_srv")


def gen_pair(rng, tier):
    return c04.gen0(rng, tier, 700 if tier == "quick" else 20000)


def gen_query(rng, tier):
    return c05.gen(rng, tier, 15 if tier == "quick" else 500)


def gen_srv(rng, tier):
    n = 5000 if tier == "quick" else 150000
    for _ in range(n):
        yield srvgen.gen_case(rng, loaded=(rng.random() < 0.8), mutate_p=0.25)


def classify(case, impl, model, oracle):
    if " ## " in impl:
        return "pair"
    if not impl.startswith("resp"):
        return impl
    d = srvgen.parse_resp(impl)
    ar = d.get("AR", [])
    return (f"rc={d.get('rc')} tc={d.get('tc')} opt={int(any(x.split('/')[1] == '41' for x in ar))} "
            f"tsig={int(any(x.split('/')[1] == '250' for x in ar))} records={int(d.get('an') != '0' or d.get('ns') != '0')}")


def nontrivial(case, impl, model, oracle):
    for part in impl.split(" ## "):
        p = part[2:] if part[:2] in ("U ", "T ") else part
        if p.startswith("resp"):
            d = srvgen.parse_resp(p)
            if d.get("an") not in (None, "0") or d.get("ns") not in (None, "0") or d.get("ar") not in (None, "0"):
                return True
    return False


def suite(name, impl_bin, extract, driver, runner_name, gen, orc, corr_eq, rule):
    return {"name": name, "impl_bin": impl_bin, "extract": extract, "driver": driver, "runner_name": runner_name,
            "gen": orc.wrap(gen), "nontrivial": nontrivial, "classify": classify, "oracle_ok": orc.oracle_ok,
            "corr_eq": corr_eq, "exhaustive": {"quick": False, "thorough": False}, "rule": rule, "n_samples": 2,
            "timeout": {"quick": 400, "thorough": 3000}}


CHECK = {
    "property": "C02",
    "props": "Props/C02.v",
    "theorems": ["c02_wellformed", "c02_oracle_meaning", "c02_counts_and_end", "c02_names_decode",
                 "c02_finish_header_counts_partial"],
    "allowed_axioms": [],
    "suites": [
        suite("pair", "impl_c04", "Extract/ExC04.v", "run_c04.ml", "C04_pair", gen_pair, O_PAIR, c04.corr_eq,
              "the C04 requests (responses tuned around the size limits, both transports, EDNS on/off, truncated responses); "
              "every response octet string of the implementation is decoded by the extracted wf_response"),
        suite("query", "impl_c05", "Extract/ExC05.v", "run_c05.ml", "C05_query", gen_query, O_QUERY, c05.corr_eq,
              "the C05 catalogs and questions (referrals, CNAME chains, wildcards, negative answers, additional sections) over TCP"),
        suite("srv", "impl_srv", "Extract/ExSrv.v", "run_srv.ml", "SRV", gen_srv, O_SRV,
              lambda case, impl, model: srvgen.resp_equal(impl, model),
              "the server-level request stream of C01/C03/C07/C08/C09 (well-formed and malformed requests, all opcodes, misplaced and "
              "repeated OPT/TSIG, known and unknown TSIG keys, both transports, EDNS sizes 512..65535, 25% mutated requests)"),
    ],
    "trusted_base": [
        "Coq 8.16.1 kernel; axioms: none",
        "c02_wellformed: every response the COMPOSED model (Model/ServerW.v) returns in octets — EVERY response without a TSIG: "
        "answers out of Loaded zones, NOTIMP/REFUSED/SERVFAIL, and the FORMERR/BADVERS/... responses of the pre-scan — is accepted by wf_response; from C12's message-level round trip (c12_roundtrip), the key "
        "lemma that query.rs only issues contract-obeying Writer operations (Proofs/ComposeKeyP.v), and the proof that RDATA validity "
        "survives compression + decompression (Proofs/ComposeRdataP.v, which re-checks the component table regenerated from the Rust "
        "source against the RFC grammars for every class and type). Trusted there: the fidelity of the models (compared octet for "
        "octet with the real server on every run). ORACLE part (not a theorem): the responses that stay abstract in the composed "
        "model (everything with a TSIG) — and all responses of the "
        "REAL server — are decided per response by the extracted decoder (Spec/RespS.v wf_response over Spec/MsgWriterS.v "
        "decode_msg and Spec/RdataFormatS.v grammars)",
        "suite signed (checks/siggen.py, harness/src/bin/impl_sig.rs, ocaml/run_sig.ml): CORRECTLY SIGNED queries over both "
        "transports; ORACLE-DECIDED (wf_response on both responses, the runner kept as a co-process because the responses carry "
        "the clock); no model column",
        "extraction: ExtrOcamlBasic only; the three implementation runners (responses' raw octets), checks/c02.py plumbing",
    ],
    "assumptions": ["zones hold RDATA that is valid for its type wherever the server copies it into a response, and no OPT/TSIG records (both are what zone loading enforces: Rdata::validate, OptNotAllowed/TsigNotAllowed)"],
}

# ---- fourth suite: CORRECTLY SIGNED requests, both transports (checks/siggen.py); decided by wf_response alone
import siggen
CHECK["suites"].append(dict(siggen.suite(siggen.oracle_c02, None, siggen.classify_c02),
                            gen=lambda rng, tier: siggen.gen(rng, tier, *((800, 6, 150, 8) if tier == "quick" else (15000, 100, 3000, 200)))))

MANIFEST = {
    "level_text": ("Theorem c02_wellformed (Coq, no axioms): for every request, transport, EDNS size, key set and every catalog whose "
                   "Loaded entries are zones built by Zone::add over records whose RDATA is valid for its type (hypothesis "
                   "zone_rdata_valid, explicit: Zone::add itself does not validate, zone files do), every response the composed "
                   "model of Server::handle_message produces in octets — EVERY response that does not carry a TSIG: the error responses "
                   "of the pre-scan (FORMERR, BADVERS, ...), and all answers out of loaded zones to clean queries: positive answers, CNAME chains, referrals with glue, NXDOMAIN/NODATA, ANY, truncated (TC) and SERVFAIL "
                   "endings, plus NOTIMP/REFUSED/SERVFAIL for names outside loaded zones, with or without EDNS, both transports — is accepted by the independent decoder wf_response: it decodes "
                   "completely under the RFC 1035 message decoder (header counts = records present, ends exactly after the last "
                   "record, names decode under the C14 relation with pointers strictly backwards), QR is set, every RDATA with its "
                   "names decompressed is generated by the RFC grammar of its (class, type), no OPT/TSIG in answer/authority, at "
                   "most one OPT, no TSIG. c02_hypothesis_needed shows on the model that without zone_rdata_valid a served record "
                   "is rejected (CNAME RDATA `name ++ junk`). STILL ORACLE ONLY (not a theorem): responses that are abstract in the "
                   "composed model — the responses carrying a TSIG. The extracted "
                   "decoder keeps running on every response of the REAL server in three suites (C04's size-limit pairs over both "
                   "transports, C05's catalogs, the server-level stream with malformed requests, EDNS and TSIG): ~14k responses per "
                   "quick run; and in a fourth suite, `signed`, on both responses to ~900 CORRECTLY SIGNED queries (verified TSIG, then "
                   "query answering, truncation / clear_rrs after partial writes, TSIG RR that does not fit; key names 3..255 octets "
                   "sharing labels with the names in the zone's RDATA, the apex and the QNAME, so that the TSIG owner is compressed "
                   "against whatever the Writer remembers) — the only place where the paths behind a verified TSIG are exercised. First-wave theorems (meaning of the decoder's verdict, counts written by finish) are kept."),
    "level_note": ("Trusted: Coq kernel, extraction, the decoder's own definition (written from RFC 1035/2782/6891/8945), the fidelity "
                   "of the hand-written models (server request side, query answering, zone tree, Writer: each compared with the real "
                   "crate on every run), the runners."),
    "technique": "machine-checked proof in Coq (composition of C12's round trip with the query model) + the extracted decoder as oracle on every implementation response",
    "design_ref": "DESIGN.md section 4 (C02)",
}


# pkg-tsigw: theorems about the TSIG-bearing responses of the extended composed model (Model/ServerWT.v), append-only
CHECK["theorems"] = list(CHECK["theorems"]) + ['c02_wellformed_tsig_partial', 'c02_tsig_record_partial']

# pkg-sproof: the SIGNED TSIG-bearing responses are now under the theorems, append-only
CHECK["theorems"] = list(CHECK["theorems"]) + ['c02_wellformed_tsig', 'c02_tsig_record']
MANIFEST["level_note"] += (" `c02_wellformed_tsig` / `c02_tsig_record` (Proofs/SignFinishP.v, SignSerP.v, SignDecP.v, SignTopP.v; Spec/TsigSignS.v): "
                           "also the responses signed in TsigMode::Response (BADTIME; verified request answered NOTIMP / REFUSED / SERVFAIL / FORMERR) "
                           "are well formed and end with the RFC 8945 TSIG record (MAC of the algorithm's output size = the MAC sign_response returns "
                           "for the octets before the record), for every verifier and every hmac returning an octet string of that size.")
CHECK["theorems"] = list(CHECK["theorems"]) + ['c02_finish_signed_ok']
