"""Trees of REAL zone files connected by $INCLUDE, for C25's suite `zonefull`.

The files are generated in EXECUTION ORDER by a generator that carries the parse context the
property prescribes (textual inclusion: the included file starts with the includer's context, its
origin replaced by the directive's if one is given; afterwards the includer goes on with
everything the included file left behind except the origin, which is the includer's own again).
Every field is rendered by checks/zfgen.py's renderer with presentation choices that DEPEND on
that context (names relative to the current origin, `@`, omitted owner / TTL / class), so a parser
that carries the wrong context over an include boundary yields different records or an error.
From the abstract records (never from the text) the generator computes
  * the expected output line (path, line number, owner, TTL, class, type, RDATA of every record,
    then the end or the first error), when the tree is `predictable`, and
  * the flattened text: each $INCLUDE replaced by the included text, wrapped in $ORIGIN lines.
Unpredictable trees (a file included twice or cyclically, a mutated file) are still compared
implementation vs model vs structural expansion."""
import os

import zfgen
from zfgen import hx, wire, name_str

ORIGINS = [[b"example"], [b"test"], [b"sub", b"example"], [b"deep", b"sub", b"example"], [b"inc", b"example"],
           [b"other", b"test"], [], [b"a b", b"x.y"], [b"UPPER", b"Example"]]
DIRS = ["", "d1/", "d1/d2/", "e/", "dir with space/"]


class Gen:
    def __init__(self, rng, caseless, max_depth):
        self.rng = rng
        self.caseless = caseless
        self.max_depth = max_depth
        self.hard = rng.random() < 0.25
        self.files = {}            # real relative path -> bytes
        self.budget = rng.choice([1, 2, 3, 3, 4, 5, 6])
        self.items = []            # expected records
        self.end = "end"
        self.dead = False          # an error has been reached: nothing after it is parsed
        self.predictable = True
        self.flat = b""            # None = no flattened equivalent
        self.ctx = zfgen.Ctx()
        self.n_inc = 0
        self.after_include = False
        self.features = set()

    # ---------------------------------------------------------------- names
    def name(self, maxlabels=3):
        rng = self.rng
        o = self.ctx.origin
        if o is not None and rng.random() < (0.9 if self.after_include else 0.6):
            ls = zfgen.rand_name(rng, self.hard, 2) + o
            while len(wire(ls)) > 255:
                ls = ls[1:]
            return ls
        return zfgen.rand_name(rng, self.hard, maxlabels)

    def abs_name(self, labels):
        return zfgen.render_name(self.rng, labels, None)

    # ---------------------------------------------------------------- one file
    def gen_file(self, real, reported, depth, chain):
        """real: normalised path relative to the scratch directory; reported: the path as fs::Parser
        reports it (parent.join(included), not normalised); chain: [(reported path, line of the
        $INCLUDE)] of the ancestors."""
        rng = self.rng
        eol = b"\r\n" if rng.random() < 0.15 else b"\n"
        out = b""
        self.files[real] = b""           # reserved (a cyclic include may refer to it)
        line = 1
        n = rng.choice([1, 2, 3, 4, 5, 6, 8]) if depth else rng.choice([3, 4, 5, 6, 8, 10])
        ctx = self.ctx
        for idx in range(n):
            st = {"paren": False, "lines": 0, "eol": eol}
            r = rng.random()
            text = b""
            include_done = False
            if self.after_include and rng.random() < 0.8:
                r = 0.9                                      # a record right after an include
            elif depth == 0 and idx == 0 and rng.random() < 0.6:
                r = 0.1                                      # most roots start with $ORIGIN
            if r < 0.05:
                text = bytes(rng.choice(b" \t") for _ in range(rng.randint(0, 3)))
                if rng.random() < 0.5:
                    text += b";" + zfgen.rand_comment(rng)
            elif r < 0.15:
                o = rng.choice(ORIGINS) if rng.random() < 0.7 else zfgen.rand_name(rng, self.hard)
                if ctx.origin is not None and rng.random() < 0.3:
                    o = zfgen.rand_name(rng, False, 1) + ctx.origin     # a child of the current origin
                    if len(wire(o)) > 255:
                        o = ctx.origin
                tok = zfgen.render_name(rng, o, ctx.origin)
                text = rng.choice([b"$ORIGIN", b"$ORIGIN", b"$origin"]) + zfgen.sep(rng, st) + tok
                st["lines"] += zfgen.count_lines_in(tok)
                if not self.dead:
                    ctx.origin = o
                    self.features.add("origin-in-include" if depth else "origin")
            elif r < 0.22:
                v = zfgen.rand_u(rng, 32)
                text = rng.choice([b"$TTL", b"$ttl"]) + zfgen.sep(rng, st) + zfgen.render_int(rng, v)
                if not self.dead:
                    ctx.default_ttl = zfgen.ttl_norm(v)
                    self.features.add("ttl-in-include" if depth else "ttl")
            elif r < 0.5 and (self.budget > 0 or rng.random() < 0.1):
                text, include_done = self.gen_include(real, reported, depth, chain, line, st)
            else:
                text = self.gen_record(reported, line, st, depth)
            if st["paren"]:
                text += zfgen.sep(rng, st, False) + b")"
                st["paren"] = False
            if rng.random() < 0.2:
                text += bytes(rng.choice(b" \t") for _ in range(rng.randint(1, 3)))
            if rng.random() < 0.15:
                text += b";" + zfgen.rand_comment(rng)
            last = idx == n - 1
            has_eol = not (last and rng.random() < 0.3)
            # the flattened text: an $INCLUDE line is replaced by what gen_include prepared
            if not include_done and self.flat is not None:
                self.flat += text + eol
            out += text
            line += st["lines"]
            if has_eol:
                out += eol
                line += 1
        self.files[real] = out
        return out

    # ---------------------------------------------------------------- a record line
    def gen_record(self, reported, line, st, depth):
        rng, ctx = self.rng, self.ctx
        t, c, fields = zfgen.rand_rdata(rng, ctx.origin is not None, self.hard)
        while any(k == "ports" for k, _ in fields):
            # the textual WKS form is left to C23/C24 (its bit order is C23's known finding C23-1 and
            # must not decide anything here); WKS in the \# form still occurs
            t, c, fields = zfgen.rand_rdata(rng, ctx.origin is not None, self.hard)
        fields = [(k, self.name()) if k == "name" and rng.random() < 0.5 else (k, v) for k, v in fields]
        omit_p = 0.6 if self.after_include else 0.3
        if ctx.owner is not None and rng.random() < omit_p:
            owner = ctx.owner
            text = bytes(rng.choice(b" \t") for _ in range(rng.randint(1, 3)))
            first_sep = b""
            if self.after_include:
                self.features.add("omitted-owner-after-include")
        else:
            owner = self.name()
            tok = zfgen.render_name(rng, owner, ctx.origin, at_line_start=True)
            if self.after_include and tok[-1:] != b"." and tok != b".":
                self.features.add("relative-owner-after-include")
            elif depth and tok[-1:] != b"." and tok != b".":
                self.features.add("relative-owner-in-include")
            text = tok
            st["lines"] += zfgen.count_lines_in(tok)
            first_sep = None
        want_ttl = zfgen.rand_u(rng, 32)
        cls = c if c is not None else rng.choice([1, 1, 1, 1, 3, 4, 2, 254, rng.randint(0, 65535)])
        have_default = ctx.default_ttl is not None or ctx.ttl is not None
        show_ttl = (not have_default) or rng.random() < (0.3 if self.after_include else 0.5)
        show_cls = (ctx.cls is None) or (ctx.cls != cls) or rng.random() < (0.3 if self.after_include else 0.5)
        if not show_ttl:
            ttl = ctx.default_ttl if ctx.default_ttl is not None else ctx.ttl
            if self.after_include:
                self.features.add("omitted-ttl-after-include")
        else:
            ttl = zfgen.ttl_norm(want_ttl)
        if not show_cls and self.after_include:
            self.features.add("omitted-class-after-include")
        toks = []
        if show_ttl:
            toks.append(zfgen.render_int(rng, want_ttl))
        if show_cls:
            toks.append(zfgen.render_class(rng, cls, self.caseless))
        if len(toks) == 2 and rng.random() < 0.5:
            toks.reverse()
        toks.append(zfgen.render_type(rng, t, self.caseless))
        first = True
        for k, v in fields:
            for tok in zfgen.render_field(rng, k, v, ctx.origin, first):
                toks.append(tok)
                first = False
        for i, tok in enumerate(toks):
            if i == 0 and first_sep is not None:
                if rng.random() < 0.1:
                    text += zfgen.sep(rng, st)
            else:
                text += zfgen.sep(rng, st)
            text += tok
            st["lines"] += zfgen.count_lines_in(tok)
        if not self.dead:
            self.items.append("%s:%d o=%s t=%d c=%d y=%d d=%s v=ok" % (
                hx(reported.encode()), line, name_str(owner), ttl, cls, t, hx(zfgen.rdata_octets(fields))))
            ctx.owner, ctx.ttl, ctx.cls = owner, ttl, cls
        self.after_include = False
        return text

    # ---------------------------------------------------------------- an $INCLUDE line
    def gen_include(self, real, reported, depth, chain, line, st):
        """Returns (text of the line, True if the flattened text has been taken care of)."""
        rng, ctx = self.rng, self.ctx
        here = os.path.dirname(real)
        kind = "new"
        r = rng.random()
        if self.budget <= 0 or r < 0.08:
            kind = rng.choice(["old", "old", "missing", "dir"]) if self.files else "missing"
        if kind == "new":
            self.budget -= 1
            target = rng.choice(DIRS) + "f%d.zone" % len(self.files)
            while target in self.files:
                target += "x"
        elif kind == "old":
            target = rng.choice(sorted(self.files))
        elif kind == "dir":
            # a directory of the tree (or the scratch directory): File::open succeeds, reading fails
            target = os.path.dirname(rng.choice(sorted(self.files))) if rng.random() < 0.7 else ""
        else:
            target = rng.choice(DIRS) + "missing.zone"
        relp = os.path.relpath(target or ".", here or ".")
        rep_target = (os.path.dirname(reported) + "/" + relp) if os.path.dirname(reported) else relp
        # the directive
        text = rng.choice([b"$INCLUDE", b"$INCLUDE", b"$include"]) + zfgen.sep(rng, st, False)
        tok = zfgen.render_string(rng, relp.encode())
        text += tok
        st["lines"] += zfgen.count_lines_in(tok)
        org = None
        if rng.random() < 0.5:
            org = rng.choice(ORIGINS) if rng.random() < 0.7 else zfgen.rand_name(rng, self.hard)
            tok = zfgen.render_name(rng, org, ctx.origin)
            text += zfgen.sep(rng, st) + tok
            st["lines"] += zfgen.count_lines_in(tok)
        if self.dead:
            return text, False
        self.n_inc += 1
        here_chain = chain + [(reported, line)]
        if depth >= self.max_depth:
            self.end = "err=toodeep:%s:%d:%s" % (hx(reported.encode()), line,
                                                 ">".join("%s@%d" % (hx(p.encode()), n) for p, n in here_chain))
            self.dead = True
            self.flat = None
            return text, True
        if kind == "missing":
            self.end = "err=open:%s:%d:%s" % (hx(reported.encode()), line, hx(rep_target.encode()))
            self.dead = True
            self.flat = None
            return text, True
        if kind == "dir":
            self.end = "err=io:%s" % hx(rep_target.encode())
            self.dead = True
            self.flat = None
            self.features.add("include-directory")
            return text, True
        if kind == "old":
            # a file parsed a second time (or cyclically) under another context: not predicted here
            self.predictable = False
            self.flat = None
            self.dead = True       # stop recording expectations; the text that follows is still generated
            self.features.add("reinclude")
            return text, True
        # a new file, generated now, under the context the property prescribes
        saved_origin = ctx.origin
        if org is not None:
            ctx.origin = org
            self.features.add("include-origin")
            if self.flat is not None:
                self.flat += b"$ORIGIN " + self.abs_name(org) + b"\n"
        before = len(self.flat) if self.flat is not None else 0
        self.after_include = False
        self.gen_file(target, rep_target, depth + 1, here_chain)
        if self.flat is not None and not self.flat.endswith(b"\n"):
            self.flat += b"\n"
        child_end_origin = ctx.origin
        if not self.dead:
            ctx.origin = saved_origin                         # the includer's origin is restored
            if self.flat is not None:
                if saved_origin is not None:
                    self.flat += b"$ORIGIN " + self.abs_name(saved_origin) + b"\n"
                elif child_end_origin is not None:
                    self.flat = None                          # "no origin" cannot be restored textually
            self.after_include = True
            self.features.add("depth%d" % (depth + 1))
        return text, True


def gen_tree(rng, caseless):
    max_depth = rng.choice([0, 1, 2, 2, 3, 3, 3, 4, 4, 4, 4])
    g = Gen(rng, caseless, max_depth)
    root_dir = rng.choice(["", "", "r/", "r/s/"])
    root = root_dir + "root.zone"
    g.gen_file(root, root, 0, [])
    mutated = False
    if rng.random() < 0.12:
        victim = rng.choice(sorted(g.files))
        g.files[victim] = zfgen.mutate(rng, g.files[victim])
        g.predictable = False
        g.flat = None
        mutated = True
    expected = "-"
    if g.predictable:
        expected = " ; ".join(g.items + [g.end]) + " # flat=" + ("same" if g.flat is not None and g.end == "end" else "-")
    flat = g.flat if (g.flat is not None and g.end == "end" and g.predictable) else None
    return {"max_depth": max_depth, "root": root, "files": g.files, "flat": flat, "expected": expected,
            "features": g.features, "mutated": mutated, "n_inc": g.n_inc}


def case_line(t):
    enc = ";".join("%s=%s" % (hx(p.encode()), hx(c)) for p, c in t["files"].items())
    return "incf %d %s %s %s" % (t["max_depth"], hx(t["root"].encode()), enc, hx(t["flat"]) if t["flat"] else "-")


# ------------------------------------------------------------------ hand-written boundary trees

def fixed_trees():
    """(max_depth, root, {path: bytes}): boundary situations at include borders; no generator-side
    expectation (implementation vs model vs structural expansion)."""
    long63 = b"x" * 63
    T = []
    # included file ends inside an open parenthesis; includer would continue
    T.append((2, "root.zone", {"root.zone": b"$ORIGIN e.\n$INCLUDE a.zone\nb 5 IN A 1.2.3.4\n",
                               "a.zone": b"a 5 IN A ( 1.2.3.4\n"}))
    # included file without final line ending, then an omitted owner / TTL / class in the includer
    T.append((2, "root.zone", {"root.zone": b"$ORIGIN e.\n$INCLUDE a.zone\n  A 1.2.3.5\n@ MX 1 @\n",
                               "a.zone": b"$TTL 77\nq.z. HS TXT \"t\"\nw CH A x 0777"}))
    # the directive spread over several lines with parentheses and comments; origin relative to the current origin; @
    T.append((2, "d/root.zone", {"d/root.zone": b"$ORIGIN e.\n$INCLUDE ( a.zone ; c\n sub ) ; d\nx 1 IN NS @\n$INCLUDE a.zone @\n",
                                 "d/a.zone": b"@ 3 IN NS y\ny 4 IN A 1.1.1.1\n"}))
    # empty / comment-only / blank included files leave the context alone
    T.append((1, "root.zone", {"root.zone": b"a. 9 IN A 1.2.3.4\n$INCLUDE e1\n$INCLUDE e2\n$INCLUDE e3\n A 1.2.3.5\n",
                               "e1": b"", "e2": b"; nothing\n\n   ; x", "e3": b"\r\n\r\n"}))
    # previous class / TTL set only inside the included file
    T.append((1, "root.zone", {"root.zone": b"$INCLUDE a\n. A \\# 4 01020304\n", "a": b"a. 9 CH TXT x\n"}))
    T.append((1, "root.zone", {"root.zone": b"$INCLUDE a\nb. IN A 1.2.3.4\n", "a": b"$TTL 4294967295\n"}))
    # a chain exactly at / one beyond the limit
    chain = {"f0": b"$INCLUDE f1\n. 1 IN A 1.1.1.0\n", "f1": b"$INCLUDE f2\n. 1 IN A 1.1.1.1\n",
             "f2": b"$INCLUDE f3\n. 1 IN A 1.1.1.2\n", "f3": b". 1 IN A 1.1.1.3\n"}
    for d in (2, 3, 4):
        T.append((d, "f0", chain))
    # self-inclusion and a two-cycle
    T.append((3, "s/self", {"s/self": b"a. 1 IN A 1.2.3.4\n$INCLUDE self b.\n@ A 1.2.3.5\n"}))
    T.append((4, "p", {"p": b"$ORIGIN p.\n$INCLUDE q\n", "q": b"x 1 IN A 1.2.3.4\n$INCLUDE p\n"}))
    # quoted path with blanks and escapes; path with `..` through another directory
    T.append((1, "r/root.zone", {"r/root.zone": b"$INCLUDE \"../dir with space/f\\032g.zone\" o.\n",
                                 "dir with space/f g.zone": b"@ 1 IN A 1.2.3.4\n"}))
    T.append((2, "r/s/root.zone", {"r/s/root.zone": b"$INCLUDE ../t/a\n", "r/t/a": b"$INCLUDE ../../u/b\n", "u/b": b". 1 IN A 1.2.3.4\n"}))
    # the name limit is reached only through the origin handed to the included file
    org = b".".join([long63] * 3) + b"."
    T.append((1, "root.zone", {"root.zone": b"$INCLUDE a " + org + b"\n",
                               "a": b"x" * 61 + b" 1 IN A 1.2.3.4\n" + b"x" * 62 + b" 1 IN A 1.2.3.4\n"}))
    # directories, missing files, unknown directive / syntax error inside an included file
    T.append((1, "r/root.zone", {"r/root.zone": b". 1 IN A 1.2.3.4\n$INCLUDE .\n"}))
    T.append((1, "r/root.zone", {"r/root.zone": b"$INCLUDE ..\n"}))
    T.append((1, "r/root.zone", {"r/root.zone": b"$INCLUDE \"\"\n"}))
    T.append((1, "root.zone", {"root.zone": b"$INCLUDE nope\n"}))
    T.append((1, "root.zone", {"root.zone": b"a. 1 IN A 1.2.3.4\n$INCLUDE a\n", "a": b"b. 1 IN A 1.2.3.4\n$BOGUS\nc. 1 IN A 1.2.3.4\n"}))
    T.append((1, "root.zone", {"root.zone": b"$INCLUDE a\n", "a": b"\n\n  x 1 IN A 1.2.3.4\n"}))
    # relative name in the included file with no origin anywhere; @ likewise
    T.append((1, "root.zone", {"root.zone": b"$INCLUDE a\n", "a": b"x 1 IN A 1.2.3.4\n"}))
    T.append((1, "root.zone", {"root.zone": b"$INCLUDE a\n@ 1 IN A 1.2.3.4\n", "a": b"$ORIGIN e.\n@ 1 IN A 1.2.3.4\n"}))
    # depth limit 0 with and without an $INCLUDE
    T.append((0, "root.zone", {"root.zone": b". 1 IN A 1.2.3.4\n"}))
    T.append((0, "root.zone", {"root.zone": b". 1 IN A 1.2.3.4\n$INCLUDE a\n", "a": b""}))
    return T


def fixed_cases():
    for d, root, files in fixed_trees():
        yield case_line({"max_depth": d, "root": root, "files": files, "flat": None}) + " -"


# ------------------------------------------------------------------ small-scope enumeration

ROOT_LINES = [b"$ORIGIN a.", b"$TTL 5", b"x 7 IN A 1.2.3.4", b" A 1.2.3.5", b"@ CH TXT t", b"$INCLUDE c", b"$INCLUDE c o."]
CHILD_LINES = [b"$ORIGIN b.", b"$TTL 9", b"y 3 HS TXT u", b" TXT v", b"@ TXT w"]
PRELUDE = b"$ORIGIN r.\n$TTL 1\nk IN TXT p\n"      # a complete context: origin, default TTL, previous owner / TTL / class


def enum_trees():
    """Every root of PRELUDE + 1..4 lines over ROOT_LINES that contains an $INCLUDE, with every included file of
    0..2 lines over CHILD_LINES: all orders of context-setting and context-using lines around one
    include boundary (and two inclusions of the same file under different contexts)."""
    import itertools
    children = [c for n in range(3) for c in itertools.product(CHILD_LINES, repeat=n)]
    for n in range(1, 5):
        for root in itertools.product(ROOT_LINES, repeat=n):
            if not any(l.startswith(b"$INCLUDE") for l in root):
                continue
            for child in children:
                yield (1, "z/root", {"z/root": PRELUDE + b"\n".join(root) + b"\n", "z/c": b"".join(l + b"\n" for l in child)})


def enum_cases(rng, tier):
    trees = list(enum_trees())
    if tier == "quick":
        trees = rng.sample(trees, 1500)
    for d, root, files in trees:
        yield case_line({"max_depth": d, "root": root, "files": files, "flat": None}) + " -"
