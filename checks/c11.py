"""C11 — TSIG MACs match RFC 8945 and detect tampering (src/message/tsig.rs, src/rr/rdata/tsig.rs,
Writer::finish_with_mac).

Case lines (fields separated by blanks, octets in hex, `-` = empty):
  sign <rq|rs|sb> <1|256> <key> <prior-mac> <msg> <keyname> <ts6> <fudge> <oid> <err> <st6> pyd= pym= X:
  wsig <rq|rs|sb|un> <1|256> <key> <prior-mac> <id> <qr> <qname> <qtype> <type:rdata,..> <keyname> <ts6> <fudge> <oid> <err> <st6> pre= pyd= pym= X:
       (message built by the real Writer with compression, TSIG by set_tsig + finish_with_mac, read back by the Reader)
  unsg <algname> <keyname> <ts6> <fudge> <oid> <err> <st6> X:
  read <owner> <type> <class> <ttl> <rdata> X:
  vfy  <rq|rs|sb> <key> <prior-mac> <now6> <msg> <owner> <rdata> pyd= pym= X:
  nfr  <error> <now6> <fudge> <owner> <rdata> X:
`pyd=`/`pym=` is the HMAC table (digest input computed by checks/tsig_py.py, HMAC by hashlib) the model
runner uses for its `hmac` parameter; `X:` is what tsig_py (an implementation written from the RFC)
says the library must answer (`~` for blanks, `-` = no prediction)."""
import os, subprocess, sys
sys.path.insert(0, os.path.dirname(os.path.abspath(__file__)))
import tsig_py as T
from tsig_py import hx, u16, u48

T48 = (1 << 48) - 1
LET = b"abcdefghijklmnopqrstuvwxyzABCDEFGHIJKLMNOPQRSTUVWXYZ0123456789-_"


def X(s):
    return "X:" + s.replace(" ", "~")


def rand_label(rng):
    r = rng.random()
    n = rng.randint(1, 8) if r < 0.8 else rng.choice([1, 20, 62, 63])
    if rng.random() < 0.9:
        return bytes(rng.choice(LET) for _ in range(n))
    return bytes(rng.randrange(256) for _ in range(n))


def rand_name(rng, maxlabels=4):
    if rng.random() < 0.03:
        return b"\x00"
    if rng.random() < 0.03:     # a maximal name: 255 octets
        labs = [bytes(rng.choice(LET) for _ in range(63)) for _ in range(3)] + [bytes(rng.choice(LET) for _ in range(61))]
        return T.name_wire(labs)
    while True:
        w = T.name_wire([rand_label(rng) for _ in range(rng.randint(1, maxlabels))])
        if len(w) <= 255:       # a name is at most 255 octets on the wire; longer ones are not names (the runners reject them)
            return w


def rand_key(rng):
    n = rng.choice([0, 1, 9, 16, 20, 32, 32, 32, 63, 64, 65, 100, 128, 200])
    return bytes(rng.randrange(256) for _ in range(n))


def rand_time(rng):
    r = rng.random()
    if r < 0.5:
        return rng.randint(1_500_000_000, 1_900_000_000)
    if r < 0.8:
        return rng.choice([0, 1, 299, 300, 301, 65535, 65536, (1 << 32) - 1, 1 << 32, T48, T48 - 1, T48 - 300, T48 - 301, T48 - 65535])
    return rng.randint(0, T48)


def rand_fudge(rng):
    return rng.choice([0, 1, 300, 300, 300, 65535, rng.randrange(65536)])


def rand_error(rng):
    return rng.choice([0, 0, 0, 16, 17, 18, 18, 18, rng.randrange(65536)])


def rand_message(rng, consistent=True):
    """a message as it is handed to sign_*/verify_*: everything before the TSIG RR, ARCOUNT counting it"""
    qname = rand_name(rng)
    body = b""
    qd = rng.choice([0, 1, 1, 1, 1, 2])
    for _ in range(qd):
        body += qname + u16(rng.choice([1, 2, 6, 15, 16, 28, 252, 255])) + u16(rng.choice([1, 1, 3, 255]))
    counts = []
    for sec in range(3):
        n = rng.choice([0, 0, 1, 1, 2, 3]) if rng.random() < 0.8 else rng.randint(0, 6)
        for _ in range(n):
            owner = b"\xc0\x0c" if (qd and rng.random() < 0.6) else rand_name(rng)
            rd = bytes(rng.randrange(256) for _ in range(rng.choice([0, 4, 4, 16, rng.randint(0, 40)])))
            body += T.rr_wire(owner, rng.choice([1, 2, 5, 15, 16, 28, 41]), rng.choice([1, 1, 3, 4096]), rng.randrange(1 << 32), rd)
        counts.append(n)
    an, ns, ar = counts
    if not consistent:
        qd, an, ns = rng.randrange(65536), rng.randrange(65536), rng.randrange(65536)
        ar = rng.choice([0, 1, 2, 255, 256, 65534, rng.randrange(65535)])
    if rng.random() < 0.05:
        ar = rng.choice([255, 256, 65534])       # ARCOUNT - 1 borrows across the octet boundary
    return T.header(rng.randrange(65536), rng.randrange(65536), qd, an, ns, ar + 1) + body


def rand_pmac(rng):
    n = rng.choice([0, 10, 16, 20, 20, 32, 32, 32, rng.randint(0, 70)])
    return bytes(rng.randrange(256) for _ in range(n))


def sign_case(rng, mode=None, malformed=False):
    mode = mode or rng.choice(["rq", "rs", "sb"])
    alg = rng.choice(["1", "256"])
    key = rand_key(rng)
    pmac = rand_pmac(rng) if mode != "rq" else (b"" if rng.random() < 0.8 else rand_pmac(rng))
    msg = rand_message(rng, consistent=rng.random() < 0.9)
    kn = rand_name(rng)
    ts, st, fudge, oid, err = rand_time(rng), rand_time(rng), rand_fudge(rng), rng.randrange(65536), rand_error(rng)
    if rng.random() < 0.5:
        oid = int.from_bytes(msg[0:2], "big")
    if malformed:
        r = rng.random()
        if r < 0.4:
            msg = msg[:rng.randint(0, 11)]
        elif r < 0.8:
            msg = msg[:10] + b"\x00\x00" + msg[12:]
        elif mode != "rq":
            pmac = bytes(rng.choice([65535, 65536, 65537, 70000]))
    other = u48(st) if err == 18 else b""
    if len(msg) < 12 or msg[10:12] == b"\x00\x00" or (mode != "rq" and len(pmac) > 65535):
        exp, d, full = "panic", b"", b""
    else:
        rdata, full, d = T.sign(mode, alg, key, msg, kn, ts, fudge, oid, err, other, pmac)
        exp = f"ok rdata={hx(rdata)} mac={hx(full)}"
    return (f"sign {mode} {alg} {hx(key)} {hx(pmac)} {hx(msg)} {hx(kn)} {hx(u48(ts))} {fudge} {oid} {err} {hx(u48(st))} "
            f"pyd={hx(d)} pym={hx(full)} {X(exp)}")


def unsg_case(rng):
    an = rng.choice([T.ALG_NAME["1"], T.ALG_NAME["256"], rand_name(rng), b"\x09HMAC-sha1\x00"])
    kn = rand_name(rng)
    ts, st, fudge, oid, err = rand_time(rng), rand_time(rng), rand_fudge(rng), rng.randrange(65536), rand_error(rng)
    other = u48(st) if err == 18 else b""
    rdata = T.tsig_rdata(T.lower(an), ts, fudge, b"", oid, err, other)
    ulen = len(T.tsig_rr(kn, rdata))
    exp = f"ok rdata={hx(rdata)} ulen={ulen} slen1={ulen + 20 - len(an) + 11} slen256={ulen + 32 - len(an) + 13}"
    return f"unsg {hx(an)} {hx(kn)} {hx(u48(ts))} {fudge} {oid} {err} {hx(u48(st))} {X(exp)}"


def rand_rdata(rng, alg=None):
    an = T.ALG_NAME[alg] if alg else rng.choice([T.ALG_NAME["1"], T.ALG_NAME["256"], b"\x0bHMAC-SHA256\x00", b"\x09Hmac-Sha1\x00",
                                                  rand_name(rng), b"\x08hmac-md5\x07sig-alg\x03reg\x03int\x00"])
    mac = bytes(rng.randrange(256) for _ in range(rng.choice([0, 10, 16, 20, 32, 32, rng.randint(0, 64)])))
    other = bytes(rng.randrange(256) for _ in range(rng.choice([0, 0, 6, 6, rng.randint(0, 20)])))
    return T.tsig_rdata(an, rand_time(rng), rand_fudge(rng), mac, rng.randrange(65536), rand_error(rng), other)


def mangle_rdata(rng, rd):
    rd = bytearray(rd)
    r = rng.random()
    if r < 0.3:
        return bytes(rd[:rng.randint(0, len(rd))])
    if r < 0.5:
        return bytes(rd) + bytes(rng.randrange(256) for _ in range(rng.randint(1, 4)))
    if r < 0.8 and rd:
        rd[rng.randrange(len(rd))] = rng.randrange(256)
        return bytes(rd)
    return bytes(rng.randrange(256) for _ in range(rng.randint(0, 40)))


def show_read(owner, f):
    return (f"key={hx(T.lower(owner))} alg={hx(T.lower(f['alg']))} ts={hx(u48(f['ts']))} fudge={f['fudge']} mac={hx(f['mac'])} "
            f"oid={f['oid']} err={f['err']} other={hx(f['other'])}")


def read_case(rng):
    owner = rand_name(rng)
    rd = rand_rdata(rng)
    if rng.random() < 0.35:
        rd = mangle_rdata(rng, rd)
    rtype = rng.choice([250, 250, 250, 250, 250, 250, 249, 16, 41])
    rclass = rng.choice([255, 255, 255, 255, 1, 254])
    ttl = rng.choice([0, 0, 0, 0, 1, 1 << 31])
    f = T.parse_tsig_rdata(rd)
    if rtype != 250:
        tf = "err NotTsig"
    elif rclass != 255 or (ttl != 0 and ttl < (1 << 31)):    # RFC 2181 §8: a TTL with the top bit set is zero
        tf = "err FormErr"
    elif f is not None:
        known = T.alg_of_name(f["alg"]) or "none"
        tf = f"ok {show_read(owner, f)} known={known}"
    else:
        tf = None
    if f is not None:
        exp = f"val=ok tf={tf}"
    else:
        exp = "-"
    return f"read {hx(owner)} {rtype} {rclass} {ttl} {hx(rd)} {X(exp)}"


def nfr_case(rng):
    owner = rand_name(rng)
    rd = rand_rdata(rng)
    f = T.parse_tsig_rdata(rd)
    err = rng.choice([0, 16, 17, 18, 18, 18, rng.randrange(65536)])
    now, fudge = rand_time(rng), rand_fudge(rng)
    ts = f["ts"] if err == 18 else now
    exp = f"ok key={hx(T.lower(owner))} ts={hx(u48(ts))} fudge={fudge} oid={f['oid']} err={err} st={hx(u48(now))}"
    return f"nfr {err} {hx(u48(now))} {fudge} {hx(owner)} {hx(rd)} {X(exp)}"


def vfy_line(mode, key, pmac, now, msg, owner, rdata, tag=""):
    """the case line for verifying (msg, owner, rdata) as they are, with the prediction of tsig_py"""
    f = T.parse_tsig_rdata(rdata)
    if f is None:
        return None
    alg = T.alg_of_name(f["alg"])
    d = full = b""
    if alg is None:
        exp = "err UnknownAlgorithm"
    elif mode == "rs" and len(pmac) > 65535:
        exp = "panic"
    elif not T.mac_size_ok(alg, len(f["mac"])):
        exp = "err FormErr"
    elif len(msg) < 12 or msg[10:12] == b"\x00\x00":
        exp = "panic"       # violated precondition "must be a valid DNS message [that carries a TSIG RR]"
    else:
        exp, d, full = T.verify(mode, msg, owner, rdata, key, now, pmac)
    return (f"vfy {mode} {hx(key)} {hx(pmac)} {hx(u48(now))} {hx(msg)} {hx(owner)} {hx(rdata)} "
            f"pyd={hx(d)} pym={hx(full)} {X(exp)}{tag}")


def trunc_choices(alg):
    return {"1": [None, None, None, 10, 11, 19, 9, 0, 21, 32], "256": [None, None, None, 16, 17, 15, 10, 31, 33, 0, 20]}[alg]


def signed_triple(rng, mode=None, trunc="rand", err=None):
    """(mode, alg, key, pmac, msg, owner, rdata, fields) of a message signed by tsig_py"""
    mode = mode or rng.choice(["rq", "rs", "sb"])
    alg = rng.choice(["1", "256"])
    key = rand_key(rng)
    pmac = rand_pmac(rng) if mode != "rq" else b""
    msg = rand_message(rng)
    owner = rand_name(rng)
    ts, fudge = rand_time(rng), rand_fudge(rng)
    e = rand_error(rng) if err is None else err
    other = u48(rand_time(rng)) if e == 18 else (b"" if rng.random() < 0.9 else bytes(rng.randrange(256) for _ in range(rng.randint(1, 12))))
    oid = int.from_bytes(msg[0:2], "big") if rng.random() < 0.6 else rng.randrange(65536)
    n = rng.choice(trunc_choices(alg)) if trunc == "rand" else trunc
    out = T.ALG_OUT[alg]
    rdata, full, d = T.sign(mode, alg, key, msg, owner, ts, fudge, oid, e, other, pmac,
                            trunc=None if n is None else min(n, out))
    if n is not None and n > out:       # a MAC field longer than the algorithm's output
        rdata = T.tsig_rdata(T.ALG_NAME[alg], ts, fudge, full + bytes(rng.randrange(256) for _ in range(n - out)), oid, e, other)
    return mode, alg, key, pmac, msg, owner, rdata, dict(ts=ts, fudge=fudge)


def time_near(rng, ts, fudge):
    d = rng.choice([0, 0, 0, fudge, -fudge, fudge + 1, -fudge - 1, fudge - 1, 1 - fudge, rng.randint(-fudge, fudge), rng.randint(-70000, 70000)])
    return min(T48, max(0, ts + d))


def flip(rng, b, i):
    b = bytearray(b)
    b[i] ^= rng.choice([1, 2, 4, 8, 16, 32, 64, 128, 255, rng.randint(1, 255)])
    return bytes(b)


def vfy_case(rng):
    mode, alg, key, pmac, msg, owner, rdata, f = signed_triple(rng)
    now = time_near(rng, f["ts"], f["fudge"])
    r = rng.random()
    if r < 0.45:
        pass                                            # as signed
    elif r < 0.55:
        key = rand_key(rng) if rng.random() < 0.7 else (key + b"\x00")   # wrong key
    elif r < 0.62 and mode != "rq":
        pmac = flip(rng, pmac, rng.randrange(len(pmac))) if pmac and rng.random() < 0.7 else pmac + b"\x00"
    elif r < 0.70:
        mode = rng.choice([m for m in ("rq", "rs", "sb") if m != mode])   # verified in another mode
        if mode == "rq":
            pmac = b""
    elif r < 0.80:
        msg = flip(rng, msg, rng.randrange(len(msg)))
    elif r < 0.90:
        rdata = flip(rng, rdata, rng.randrange(len(rdata)))
        if T.parse_tsig_rdata(rdata) is None:
            rdata = flip(rng, rdata, len(rdata) - 1) if False else rdata
    elif r < 0.95:
        # owner: a change of ASCII case must NOT invalidate the MAC (canonical form), anything else must
        o = bytearray(owner)
        idx = [i for i in range(len(o)) if (65 <= o[i] <= 90 or 97 <= o[i] <= 122) and _is_label_octet(owner, i)]
        if idx:
            o[rng.choice(idx)] ^= 0x20
            owner = bytes(o)
    else:
        msg = msg[:rng.randint(0, 12)] if rng.random() < 0.5 else msg[:10] + b"\x00\x00" + msg[12:]
    line = vfy_line(mode, key, pmac, now, msg, owner, rdata)
    if line is None:        # the flipped octet made the RDATA malformed: the Reader would refuse it
        return None
    return line


def _is_label_octet(name, i):
    j = 0
    while j < len(name):
        l = name[j]
        if j < i <= j + l:
            return True
        if i == j:
            return False
        j += 1 + l
    return False


def rdata_layout(rdata):
    """[(field, start, end)] of a well-formed TSIG RDATA (RFC 8945 §4.2)"""
    _, a = T.parse_uncompressed(rdata)
    ms = int.from_bytes(rdata[a + 8:a + 10], "big")
    p = a + 10 + ms
    return [("alg", 0, a), ("ts", a, a + 6), ("fudge", a + 6, a + 8), ("macsize", a + 8, a + 10), ("mac", a + 10, p),
            ("oid", p, p + 2), ("err", p + 2, p + 4), ("otherlen", p + 4, p + 6), ("other", p + 6, len(rdata))]


# what RFC 8945 §4.3 / §5.3.1 puts under the MAC, per mode (the MAC field itself is what is compared)
COVERED = {"rq": {"alg", "ts", "fudge", "mac", "oid", "err", "otherlen", "other", "owner"},
           "rs": {"alg", "ts", "fudge", "mac", "oid", "err", "otherlen", "other", "owner"},
           "sb": {"ts", "fudge", "mac", "oid"}}


def sweep_cases(rng, nmsgs):
    """single-octet corruption at EVERY position of the message (from octet 2 on: the ID is replaced by the
    original ID of the TSIG RR), of the key name and of the RDATA.  Tag T:cov = the octet is covered by the MAC
    in that mode (or is part of the MAC) and the change is not a mere change of ASCII case in a name: must be
    rejected; T:unc = not covered (message ID; key name, algorithm, error and other data of a subsequent
    message; case changes): must still verify.  Corruptions that make the RDATA malformed are refused by
    the Reader before this code runs and are skipped."""
    for k in range(nmsgs):
        mode, alg, key, pmac, msg, owner, rdata, f = signed_triple(
            rng, mode=["rq", "rs", "sb"][k % 3], trunc=(None if k % 4 else {"1": 10, "256": 16}[rng.choice(["1", "256"])]),
            err=rng.choice([0, 0, 18]))
        if T.parse_tsig_rdata(rdata)["mac"] == b"" or not T.mac_size_ok(T.alg_of_name(T.parse_tsig_rdata(rdata)["alg"]),
                                                                         len(T.parse_tsig_rdata(rdata)["mac"])):
            continue
        now = min(T48, max(0, f["ts"] + rng.randint(-f["fudge"], f["fudge"])))
        yield vfy_line(mode, key, pmac, now, msg, owner, rdata, " T:base")
        for i in range(len(msg)):
            yield vfy_line(mode, key, pmac, now, flip(rng, msg, i), owner, rdata, " T:cov:msg" if i >= 2 else " T:unc:id")
        for i in range(len(owner)):
            if _is_label_octet(owner, i):
                o2 = flip(rng, owner, i)
                cov = "owner" in COVERED[mode] and T.lower(o2) != T.lower(owner)
                yield vfy_line(mode, key, pmac, now, msg, o2, rdata, " T:cov:owner" if cov else " T:unc:owner")
        for name, s0, e0 in rdata_layout(rdata):
            for i in range(s0, e0):
                r2 = flip(rng, rdata, i)
                if name == "alg":
                    if not _is_label_octet(rdata[s0:e0], i - s0):
                        continue                                  # label lengths: the RDATA becomes malformed
                    cov = T.lower(r2) != T.lower(rdata)           # (an unknown algorithm name is rejected in every mode)
                elif name in ("macsize", "otherlen"):
                    continue                                      # the RDATA becomes malformed
                else:
                    cov = name in COVERED[mode]
                line = vfy_line(mode, key, pmac, now, msg, owner, r2, (" T:cov:" if cov else " T:unc:") + name)
                if line is not None:
                    yield line
        for i in range(len(pmac)):
            yield vfy_line(mode, key, pmac[:i] + bytes([pmac[i] ^ rng.choice([1, 16, 128])]) + pmac[i + 1:], now, msg, owner, rdata, " T:cov:pmac")


def txt_rdata(rng):
    out = b""
    for _ in range(rng.randint(1, 3)):
        n = rng.randint(0, 20)
        out += bytes([n]) + bytes(rng.randrange(256) for _ in range(n))
    return out


def wsig_params(rng):
    mode = rng.choice(["rq", "rs", "sb", "un"])
    alg = rng.choice(["1", "256"])
    key = rand_key(rng)
    pmac = rand_pmac(rng) if mode in ("rs", "sb") else b""
    qname = rand_name(rng, 3)
    while len(qname) > 120:
        qname = rand_name(rng, 3)
    rrs = []
    for _ in range(rng.choice([0, 0, 1, 2, 3, 5])):
        t = rng.choice([1, 16, 2, 15])
        sub = (T.name_wire([rand_label(rng)[:10]])[:-1] + qname) if rng.random() < 0.6 else rand_name(rng, 2)
        if len(sub) > 200:
            sub = qname
        rd = {1: bytes(rng.randrange(256) for _ in range(4)), 16: txt_rdata(rng), 2: sub, 15: u16(rng.randrange(65536)) + sub}[t]
        rrs.append(f"{t}:{hx(rd)}")
    # the key name often shares a suffix with the QNAME, so that the Writer compresses the TSIG owner
    r = rng.random()
    if r < 0.4:
        kn = T.name_wire([rand_label(rng)[:12]])[:-1] + qname
    elif r < 0.5:
        kn = qname
    else:
        kn = rand_name(rng)
    if len(kn) > 255 or not T.valid_name(kn):
        kn = b"\x03key\x00"
    ts, st, fudge, oid, err = rand_time(rng), rand_time(rng), rand_fudge(rng), rng.randrange(65536), rand_error(rng)
    # EDNS: set_edns (+ set_extended_rcode) together with the TSIG; the OPT RR precedes the TSIG RR and is signed
    edns = None
    if rng.random() < 0.5:
        edns = (rng.choice([512, 1232, 4096, 0, 65535, rng.randrange(65536)]),
                rng.choice([0, 0, 1, 16, 23, 2047, 2048, 2049, 4095, rng.randrange(4096)]), rng.choice([0, 0, 1]))
    E = "E=" + (":".join(str(x) for x in edns) if edns else "-")
    # V=: the message is continued through a Template (into_template + try_from_template[_as_tsig_subsequent]); for mode
    # sb the template is made in another signing mode with another MAC, which the new prior MAC must replace (seed C11-G)
    r = rng.random()
    if mode == "sb" and r < 0.6:
        E += f" V=s:{rng.choice(['rq', 'rs', 'sb', 'sb'])}:{hx(rand_pmac(rng)) or '00'}"
    elif r < 0.25:
        E += " V=p"
    head = (f"wsig {mode} {alg} {hx(key)} {hx(pmac)} {rng.randrange(65536)} {rng.choice([0, 1])} {hx(qname)} "
            f"{rng.choice([1, 2, 6, 16, 252])} {','.join(rrs) or '-'} {hx(kn)} {hx(u48(ts))} {fudge} {oid} {err} {hx(u48(st))} {E}")
    return head, dict(mode=mode, alg=alg, key=key, pmac=pmac, kn=kn, ts=ts, st=st, fudge=fudge, oid=oid, err=err, edns=edns)


def py_opt_rr(payload, xr):
    """RFC 6891 §6.1.2/6.1.3: root, TYPE 41, CLASS payload, TTL = upper 8 bits of the 12-bit extended RCODE |
    version 0 | flags 0, RDLEN 0"""
    return b"\x00" + u16(41) + u16(payload) + bytes([xr >> 4, 0, 0, 0]) + u16(0)


def wsig_cases(rng, n):
    """two passes: the real Writer builds the message (pass 1, the harness binary is run from here), the octets
    before the TSIG RR it produced are then part of the case line, so that the model and tsig_py can sign them"""
    import qv
    exe = os.path.join(qv.BUILD, "target", "debug", "impl_c11")
    params = [wsig_params(rng) for _ in range(n)]
    try:
        p = subprocess.run([exe], input="\n".join(h for h, _ in params) + "\n", stdout=subprocess.PIPE,
                           stderr=subprocess.DEVNULL, text=True, timeout=300)
        outs = [l for l in p.stdout.split("\n") if l]
    except (OSError, subprocess.TimeoutExpired):
        outs = []
    if len(outs) != len(params):
        outs = ["-"] * len(params)
    for (head, q), out in zip(params, outs):
        pre = None
        for fld in out.split():
            if fld.startswith("pre="):
                pre = T.unhx(fld[4:])
        if pre is None:
            yield f"{head} pre=- pyd=- pym=- X:-"       # the Writer refused or panicked: reported by the diff with the model
            continue
        body = pre
        if q["edns"]:
            # the case line carries the octets before the OPT RR; what must be signed is that plus the OPT RR
            # of RFC 6891 (it precedes the TSIG RR, RFC 8945 4.3.2), whatever the Writer actually wrote there
            body = pre[:-11] if len(pre) >= 23 else pre
            pre = body + py_opt_rr(q["edns"][0], q["edns"][1])
        other = u48(q["st"]) if q["err"] == 18 else b""
        if q["mode"] == "un":
            rdata = T.tsig_rdata(T.ALG_NAME[q["alg"]], q["ts"], q["fudge"], b"", q["oid"], q["err"], other)
            d, full, mac = b"", b"", "none"
        else:
            rdata, full, d = T.sign(q["mode"], q["alg"], q["key"], pre, q["kn"], q["ts"], q["fudge"], q["oid"], q["err"], other, q["pmac"])
            mac = hx(full)
        exp = f"ok pre={hx(pre)} owner={hx(T.lower(q['kn']))} type=250 class=255 ttl=0 rdata={hx(rdata)} mac={mac}"
        yield f"{head} pre={hx(body)} pyd={hx(d)} pym={hx(full)} {X(exp)}"


def gen(rng, tier):
    quick = tier == "quick"
    n = 1 if quick else 12
    for _ in range(1500 * n):
        yield sign_case(rng, malformed=rng.random() < 0.06)
    yield from wsig_cases(rng, 1500 * n)
    for _ in range(300 * n):
        yield unsg_case(rng)
    for _ in range(1500 * n):
        yield read_case(rng)
    for _ in range(300 * n):
        yield nfr_case(rng)
    for _ in range(3000 * n):
        c = vfy_case(rng)
        if c:
            yield c
    yield from sweep_cases(rng, 120 if quick else 5000)


def exp_of(case):
    for f in case.split():
        if f.startswith("X:"):
            return f[2:].replace("~", " ")
    return "-"


def oracle_ok(case, impl, oracle):
    if impl in ("timeout", "crash"):
        return False
    exp = exp_of(case)
    if exp != "-" and impl != exp:
        return False
    if oracle not in ("-", "") and impl != oracle:
        return False
    if " T:cov" in case and not impl.startswith("err"):
        # a corrupted covered octet must make verification fail (the one exception is documented: an ARCOUNT
        # corrupted to 0 violates the precondition "a valid message that contains the TSIG RR" -> panic)
        return impl == "panic" and exp == "panic"
    return True


def nontrivial(case, impl, model, oracle):
    op = case.split()[0]
    if op in ("sign", "wsig"):
        return impl.startswith("ok")
    if op == "vfy":
        return impl in ("ok", "err BadSig", "err BadTime", "err FormErr")
    if op == "read":
        return " tf=ok " in impl or "tf=err" in impl
    return impl.startswith("ok")


def classify(case, impl, model, oracle):
    f = case.split()
    op = f[0]
    tag = ""
    if " T:" in case:
        tag = ":" + ":".join(case.rsplit(" T:", 1)[1].split(":")[:2])
    if op in ("sign", "vfy", "wsig"):
        op += ":" + f[1]
    if op.startswith("wsig") and " E=" in case and " E=-" not in case:
        op += ":edns"
    if op.startswith("wsig") and " V=" in case:
        op += ":tmpl-" + case.split(" V=")[1].split()[0][:4].rstrip(":")
    if op.startswith("read"):
        return "read:" + ("valid" if impl.startswith("val=ok") else "invalid") + ":" + impl.split(" tf=")[1].split()[0] + \
            ("-" + impl.split(" tf=")[1].split()[1] if " tf=err" in impl else "")
    return op + tag + ":" + (impl if not impl.startswith("ok") else "ok")


THEOREMS = ["c11_sign_digest_eq", "c11_sign", "c11_read", "c11_verify_digest_eq", "c11_verify", "c11_verify_iff",
            "c11_verify_errors", "c11_check_time_no_overflow", "c11_check_time", "c11_digest_injective",
            "c11_tamper_rejected", "c11_try_from_total", "c11_verify_total", "c11_finish_edns_tsig",
            "c11_finish_plain_tsig"]

CHECK = {
    "property": "C11",
    "props": "Props/C11.v",
    "theorems": THEOREMS,
    "allowed_axioms": [],
    "suites": [{
        "name": "lib", "impl_bin": "impl_c11", "extract": "Extract/ExC11.v", "driver": "run_c11.ml",
        "gen": gen, "nontrivial": nontrivial, "classify": classify, "oracle_ok": oracle_ok,
        "exhaustive": {"quick": False, "thorough": False},
        "rule": ("seeded cases against the library API: Writer-built messages (questions, A/TXT/NS/MX records, name compression, key names sharing a suffix with the QNAME; half of them with set_edns + set_extended_rcode incl. values >= 2048, before or after set_tsig, so that an OPT RR precedes the TSIG RR and must be under the MAC; a quarter continued through into_template + try_from_template, and 60% of the subsequent-mode ones through a template made in request/response/subsequent mode with another MAC + try_from_template_as_tsig_subsequent, which must sign with the NEW prior MAC) signed by set_tsig + finish_with_mac in all four modes and read back with the Reader; sign_request/response/subsequent on random messages (consistent and "
                 "inconsistent headers, ARCOUNT borrow cases, too-short / ARCOUNT=0 messages), keys of 0..200 octets, both "
                 "algorithms, times 0..2^48-1, fudges, original IDs, error codes incl. BADTIME other-data, prior MACs incl. "
                 ">65535 octets; unsigned(); ReadTsigRr::try_from + accessors + validate_as_tsig on valid and mangled RDATA, "
                 "wrong type/class/TTL; new_from_read; verify_* on messages signed by the Python signer with MACs truncated "
                 "to allowed/disallowed lengths, now at time-signed +-fudge +-{0,1}, wrong key/prior MAC/mode, flipped "
                 "octets; and a sweep: single-octet corruption at EVERY position of the message, the key name and the "
                 "RDATA of ~120 signed messages (all three modes) - every covered octet must be rejected (T:cov), "
                 "every uncovered one (message ID, letter case, fields outside the subsequent-message digest) must "
                 "still verify (T:unc). The implementation's answer must equal the model's (HMAC table from hashlib) "
                 "and the prediction of checks/tsig_py.py; non-trivial = a signature was produced, a verification "
                 "reached its MAC-size/MAC/time decision, or a TSIG RR was parsed; distinct = distinct case line"),
        "timeout": {"quick": 300, "thorough": 3000},
    }],
    "trusted_base": [
        "Coq 8.16.1 kernel (vm_compute only in two closed arithmetic facts and the Examples)",
        "axioms: none (every theorem: Closed under the global context); HMAC is a universally quantified function",
        "cryptographic assumption (stated, not proved): collision/second-preimage resistance of HMAC-SHA1/-SHA256 - "
        "the theorems show that a changed covered octet changes the MAC *input*",
        "the streaming contract of digest::Mac (update(a);update(b) = update(a++b)) and verify_truncated_left as read "
        "from digest-0.10.6 (n = 0 or n > output size rejected, leftmost n octets compared)",
        "extraction: ExtrOcamlBasic only; OCaml 4.13.1 ocamlopt; ocaml/run_c11.ml instantiates hmac by the per-case "
        "table (key, digest input) -> HMAC computed by Python hashlib/hmac; a lookup miss is flagged",
        "correspondence: checks/c11.py generators, checks/tsig_py.py (RFC 8945 implementation in Python used as third "
        "implementation and oracle), harness/src/bin/impl_c11.rs (catch_unwind), line diff in tools/qv.py",
        "tools/gen/tsigconsts.py re-extracts algorithm names, the class/TTL literal, MAC-size and length constants, "
        "TYPE TSIG, QCLASS ANY, extended RCODEs; SHA output sizes 20/32 are literals (FIPS 180-4)",
        "not modelled here: the Reader that splits the TSIG RR off the message (C15) and the Writer's name compression (C12/C13)",
    ],
    "assumptions": ["octets < 256; names are valid wire names (labels 1..63, <= 255 octets); 16-bit/48-bit fields in range",
                    "the message handed to sign_*/verify_* has a 12-octet header and ARCOUNT >= 1 (documented precondition; "
                    "otherwise the code panics, and so does the model)"],
}

MANIFEST = {
    "level_text": ("Coq theorems (no axioms, HMAC universally quantified) that the model of src/message/tsig.rs feeds the "
                   "authenticator exactly the RFC 8945 4.3 digest in request/response/subsequent mode, that sign_* returns "
                   "the RFC 4.2 RDATA with the MAC of that digest, that verify_* equals the RFC 5.2 decision (Ok iff allowed "
                   "MAC size, MAC = truncation of the MAC of the digest, time within fudge; FormErr > BadSig > BadTime; no "
                   "panic), that the digest encoding is injective on the covered fields and a tampered message is rejected "
                   "given collision-freeness of HMAC on the two digests; the model is tied to the crate and to a Python "
                   "hashlib implementation of RFC 8945 on ~70k cases incl. single-octet corruption at every position of "
                   "~200 signed messages."),
    "level_note": ("Trusted: Coq kernel, extraction, the hand-written model's correspondence to the Rust code (differentially "
                   "tested against the real crate and hashlib, not proved), the streaming contract of digest::Mac, HMAC's "
                   "collision resistance (stated hypothesis of c11_tamper_rejected). Reader/Writer around the TSIG code are C15/C12."),
    "technique": "machine-checked proof in Coq (model = RFC spec; injectivity) + three-way correspondence check (crate / extracted model / hashlib)",
    "design_ref": "DESIGN.md C11",
}
