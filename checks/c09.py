"""C09 — EDNS(0) requests get correct OPT handling."""
import srvgen


def gen(rng, tier):
    n = 10000 if tier == "quick" else 300000
    for _ in range(n):
        yield srvgen.gen_case(rng, loaded=True, mutate_p=0.15, clean_p=0.25)


def nontrivial(case, impl, model, oracle):
    return impl.startswith("resp") and "/41/" in impl.split(" AR=")[1].split(" ")[0]


CHECK, MANIFEST = srvgen.make_check(
    "C09", "Props/C09.v", ["c09_opt_iff", "c09_validate_opt", "c09_badvers_refuted_prefix",
                         "c09_opt_reached_is_spec", "c09_opt_iff_spec", "c09_badvers_response",
                         "c09_answered_response_ends_with_opt", "c09_plain_response_ends_with_opt"],
    srvgen.oracle_c09, gen, nontrivial, srvgen.std_classify,
    ("Coq theorems (no axioms): the response is an EDNS response, with the server's payload size as CLASS, if and only if "
     "processing reached an OPT record of the additional section (a reader-level predicate: question in order, answer/authority "
     "records delimitable without OPT/TSIG, then an OPT met while scanning delimitable ordinary records) — for every request; "
     "c09_opt_reached_is_spec proves that predicate equal to its SPEC-LEVEL twin s_opt_reached (Spec/MsgWalkS.v: spec decoders and "
     "an independent 'delimit a record' only), c09_opt_iff_spec restates the iff with it, and the extracted s_opt_reached is "
     "evaluated on every implementation response; c09_badvers_response: a well-formed OPT with VERSION <> 0 met before any problem "
     "gives extended RCODE 16 and no data; at the BYTE level every response of the composition respond_w / respond_plain (Writer "
     "model of C12 + query model of C05) run with an EDNS size ends with the 11 octets of the OPT record: owner root, TYPE 41, "
     "CLASS = the payload size, TTL field 0, RDLENGTH 0 (c09_answered_response_ends_with_opt, c09_plain_response_ends_with_opt); OPT "
     "validation gives FORMERR for a non-root owner and BADVERS for a version other than 0 taken from bits 23..16 of the RAW TTL "
     "field (the pinned tree read the clamped Ttl: repaired by a fix: commit, kept as a refuted witness). Owner root, version 0 "
     "and empty RDATA of the emitted OPT are checked on the real octets by the correspondence run."),
    "machine-checked proof in Coq (iff characterisation via an invariant of the scan) + correspondence check")
