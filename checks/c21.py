"""C21 — zone validation reports exactly the defined semantic issues (src/db/zone/validation.rs)."""
import re
import zonegen as zg


def gen(rng, tier):
    quick = tier == "quick"
    n = 15000 if quick else 600000
    for _ in range(n):
        apex, cls, wide, recs = zg.gen_vzone(rng)
        yield f"V {zg.nm(apex)} {cls} {wide} {';'.join(recs) if recs else '-'}"


def nontrivial(case, impl, model, oracle):
    # an issue that depends on lookups/glue policy/CNAME/wildcard rules, or the InvalidRdata path
    return impl.startswith("err") or any(k in impl for k in
        ("MissingGlue", "MissingNsAddress", "MissingMxAddress", "DuplicateCname", "OtherRecordsAtCname", "NsAtWildcard"))


def classify(case, impl, model, oracle):
    if not impl.startswith("ok"):
        return impl
    ks = sorted(set(re.findall(r"([A-Za-z]+)(?:\([^)]*\))?![ew]", impl)))
    return "ok " + ("+".join(ks) if ks else "clean")


CHECK = {
    "property": "C21",
    "props": "Props/C21.v",
    "theorems": ["c21_parse_real_is_parser", "c21_parse_real_spec", "c21_exact_real", "c21_err_real",
                 "c21_exact", "c21_err", "c21_severity"],
    "allowed_axioms": [],
    "correspondence": {"impl_bin": "impl_zone", "extract": "Extract/ExZone.v", "driver": "run_zone.ml",
                       "runner_name": "zone"},
    "gen": gen,
    "nontrivial": nontrivial,
    "classify": classify,
    "exhaustive": {"quick": False, "thorough": False},
    "timeout": {"quick": 300, "thorough": 3000},
    "rule": ("seeded random zones (apexes ., c., b.c., A.b.; classes IN, CH, 7; both glue policies): [labels that only begin with an asterisk; a result set must not hold two equal issues] apex SOA 0..2, apex NS "
             "0..2, 0..4 delegations incl. sibling and nested (occluded) ones, name servers in the authoritative part / "
             "inside the delegation / inside a sibling delegation / under a wildcard / absent / outside the zone, address "
             "and glue records present or absent (A, AAAA, CH-class A), MX, CNAME alone / duplicated / with other data, "
             "NS at wildcards, 8% zones with NS/MX RDATA that is not a domain name; output = Err or the SET of issues "
             "(names lower-cased, each tagged error/warning); non-trivial = InvalidRdata or an issue other than the "
             "three apex SOA/NS ones; distinct = distinct case line"),
    "trusted_base": [
        "Coq 8.16.1 kernel",
        "axioms: none (every theorem: Closed under the global context)",
        "extraction: ExtrOcamlBasic only; OCaml 4.13.1 ocamlopt",
        "correspondence: checks/c21.py + checks/zonegen.py generators, harness/src/bin/impl_zone.rs, ocaml/run_zone.ml, line diff in tools/qv.py",
        "tools/gen/zoneconsts.py re-extracts Type::{A,NS,CNAME,SOA,MX,AAAA}, Class::{IN,CH} and Label::asterisk() from the source",
        "the zone model of C06/C20 (same abstractions); HashSet<ValidationIssue> as a list compared as a set",
        "Name::try_from_uncompressed_all and Rdata::equals are no longer parameters: the *_real theorems use the proved models "
        "Model/NameWire.v parse_uncompressed_name (C14) + label_at and Model/RdataM.v equals (C19) on the model side, and the C14 "
        "decoding relation / the RFC characterisation spec_equals on the specification side; the runner runs exactly these",
    ],
    "assumptions": ["every RDATA is a string of octets (elements < 256: the u8 type) — the domain of C14's and C19's theorems",
                    "the zone is built only by HashMapTreeZone::new and add (any glue policy)"],
}

MANIFEST = {
    "level_text": ("Coq theorems (no axioms): for every add history and glue policy, validate of the model returns Err(InvalidRdata) "
                   "exactly when the flat-record reference checker does, and otherwise a list with exactly the reference "
                   "checker's set of issues (names case-insensitively); only MissingMxAddress and NsAtWildcard are warnings. "
                   "Model tied to the code by a differential run over 15000 generated zones."),
    "level_note": ("Trusted: Coq kernel, extraction, the model's correspondence to the Rust code (differentially tested). Name parsing "
                   "and RDATA equality are the proved models of C14 / C19 (real instances), not parameters."),
    "technique": "machine-checked proof in Coq (validation model vs flat-record reference checker, reusing the C06/C20 refinement) + model/implementation correspondence check",
    "design_ref": "DESIGN.md §4 C21",
}
