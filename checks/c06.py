"""C06 — zone lookups follow RFC 1034 §4.3.2 / RFC 4592 (src/db/hash_map_tree/{zone,node}.rs)."""
import re
import zonegen as zg

QT = ",".join(str(t) for t in zg.QTYPES)
NSEG = 4 * (len(zg.QTYPES) + 2)


def gen(rng, tier):
    quick = tier == "quick"
    nzones = 330 if quick else 4000
    for zi in range(nzones):
        apex, cls, recs = zg.gen_zone(rng)
        head = f"L {zg.nm(apex)} {cls} {';'.join(recs) if recs else '-'}"
        # EVERY name of up to apex+3 labels over the alphabet
        for rel in zg.all_rel_names(3):
            yield f"{head} {zg.nm(rel + apex)} {QT}"
        # the same region with differently-cased apex / labels, deeper names, names outside the zone
        for _ in range(12):
            rel = [rng.choice(zg.LABELS) for _ in range(rng.choice([1, 2, 3, 4, 5]))]
            yield f"{head} {zg.nm(zg.flip_case(rng, rel + apex))} {QT}"
        for o in zg.outside_names(rng, apex):
            yield f"{head} {zg.nm(o)} {QT}"
        # names that differ from an owner of the zone in bit 5 of ONE octet ('*' / LF, '_' / DEL, ...; letters give a case variant)
        owners = [r.split(",")[0] for r in recs]
        for _ in range(8 if owners else 0):
            o = rng.choice(owners)
            labels = [] if o == "@" else o.split(".")
            q = zg.bit5_variant(rng, labels)
            if rng.random() < 0.4:
                q = [rng.choice(zg.LABELS)] + q
            yield f"{head} {zg.nm(q)} {QT}"


def oracle_ok(case, impl, oracle):
    if oracle == "-":
        # no model/oracle column at all (the executable model could not be built: reported separately as a broken
        # obligation, "no-failing-input-found"); not a verdict about this input
        return True
    # The property is about DNS names, which are case-insensitive: the verdict compares names
    # case-insensitively.  (The oracle column spells names as c06_lookup_exact proves the code does, and
    # the model column is compared with the implementation exactly, so a change of letter case is still
    # reported — as a correspondence break, not as a violation of the property.)
    a = zg.lower_names(impl).split(" / ")
    b = zg.lower_names(oracle).split(" / ")
    if len(a) != len(b) or len(a) != NSEG:
        return False
    for x, y in zip(a, b):
        if y == "*":
            continue            # unchecked lookup outside the zone: caller contract broken, anything goes
        if x != y:
            return False
    return True


_sos = re.compile(r",~[0-9a-f.@]+\)")


def nontrivial(case, impl, model, oracle):
    # a referral, a wildcard synthesis or a CNAME answer somewhere on the line
    return "R(" in impl or bool(_sos.search(impl)) or "C(" in impl


def classify(case, impl, model, oracle):
    segs = impl.split(" / ")
    s = segs[0] if segs else impl
    k = s.split("(")[0]
    if _sos.search(s):
        k += "w"
    t = segs[len(zg.QTYPES) + 2] if len(segs) == NSEG else "?"       # first segment with search_below_cuts
    k2 = t.split("(")[0] + ("w" if _sos.search(t) else "")
    u = "panic" if "panic" in impl else ""
    return f"A:{k} sbc:{k2} {u}".strip()


CHECK = {
    "property": "C06",
    "props": "Props/C06.v",
    "theorems": ["c06_req_real_is_equals", "c06_build_total_real",
                 "c06_lookup_refines_real", "c06_lookup_addrs_refines_real", "c06_lookup_all_refines_real",
                 "c06_lookup_exact_real", "c06_lookup_addrs_exact_real", "c06_lookup_all_exact_real",
                 "c06_lookup_refines", "c06_lookup_addrs_refines", "c06_lookup_all_refines",
                 "c06_lookup_exact", "c06_lookup_addrs_exact", "c06_lookup_all_exact",
                 "c06_build_total", "c06_unchecked_outside", "c06_req_simple_transitive"],
    "allowed_axioms": [],
    "correspondence": {"impl_bin": "impl_zone", "extract": "Extract/ExZone.v", "driver": "run_zone.ml",
                       "runner_name": "zone"},
    "gen": gen,
    "nontrivial": nontrivial,
    "classify": classify,
    "oracle_ok": oracle_ok,
    "exhaustive": {"quick": False, "thorough": False},
    "timeout": {"quick": 300, "thorough": 3000},
    "rule": ("seeded random zones (<=40 adds over labels {a,b,c,*,A}, [30% of the zones add labels that differ from those only in bit 5: LF, _, DEL, @, `, [, {; 15% labels that only begin with an asterisk; + 8 queries per zone that flip bit 5 of one octet of an owner] apexes ., c., b.c., A.b.; NS at several depths, "
             "wildcards, CNAMEs, empty non-terminals, TTL/class/out-of-zone rejects, case variants of owners; name-bearing "
             "RDATA of NS/CNAME/PTR/MB/MG/MR/MD/MF/MX/SOA/MINFO/SRV and CH-class A in bursts of 1..3 records of one RRset that "
             "differ only in the letter case of the embedded names, in a fixed field, or by a malformation (junk octet, missing "
             "root label, 64-octet label, compression pointer, >255-octet name, leading root label) applied to all variants or to "
             "one of them, names with 63-octet labels and of exactly 255 octets, classes IN/CH/7 so that SRV and A change their "
             "comparison rule); per zone EVERY name "
             "of <= apex+3 labels over the alphabet, 12 random deeper/case-flipped names and up to 8 names outside the "
             "zone; per name all 4 (unchecked, search_below_cuts) combinations x (lookup for types "
             "A,NS,CNAME,SOA,TXT,AAAA,MX,255 + lookup_addrs + lookup_all) on one line; non-trivial = the line contains a "
             "referral, a wildcard synthesis or a CNAME answer; distinct = distinct case line"),
    "trusted_base": [
        "Coq 8.16.1 kernel",
        "axioms: none (every theorem: Closed under the global context)",
        "extraction: ExtrOcamlBasic only; OCaml 4.13.1 ocamlopt",
        "correspondence: checks/c06.py + checks/zonegen.py generators, harness/src/bin/impl_zone.rs, ocaml/run_zone.ml, line diff in tools/qv.py",
        "tools/gen/zoneconsts.py re-extracts Type::{A,NS,CNAME,SOA,MX,AAAA}, Class::IN and Label::asterisk() from the source",
        "model abstractions (differentially tested, not proved): Name as list of labels, HashMap as association list under the "
        "case-insensitive label equality, RdataSetOwned as list of RDATAs (refined to the octet buffer in C20/C19), "
        "binary_search_by_key as ordered scan of the sorted Vec",
        "Rdata::equals is no longer a parameter: the *_real theorems use Model/RdataM.v equals (the model C19 proves total and "
        "equal to the RFC characterisation spec_equals; its dispatcher is regenerated from the source by tools/gen/rdata.py) on the "
        "model side and spec_equals on the specification side; the runner runs exactly these",
    ],
    "assumptions": ["every RDATA is a string of octets (elements < 256: the u8 type) — the domain of C19's theorems",
                    "zones are built only by HashMapTreeZone::new and add",
                    "unchecked lookups are given names at or below the apex (caller contract of LookupOptions::unchecked); "
                    "the other case is characterised separately by c06_unchecked_outside"],
}

MANIFEST = {
    "level_text": ("Coq theorems (no axioms): for every add history, every name, type and option combination, lookup / "
                   "lookup_addrs / lookup_all of the model of HashMapTreeZone equal an independent RFC 1034 §4.3.2 / RFC 4592 "
                   "specification evaluated on the flat list of accepted records (exactly, including the letter case of reported names), with RRsets "
                   "de-duplicated by the real Rdata::equals (model) / its RFC characterisation (specification); the model "
                   "is tied to the code by a differential run over ~58k names x 40 lookups per quick run, and the extracted "
                   "specification is evaluated on every implementation answer."),
    "level_note": ("Trusted: Coq kernel, extraction, the hand-written model's correspondence to the Rust code (differentially tested). "
                   "Rdata::equals is the proved model of C19 (real instance), not a parameter."),
    "technique": "machine-checked proof in Coq (refinement of a flat-record-set specification by the tree model) + model/implementation correspondence check",
    "design_ref": "DESIGN.md §4 C06",
}
