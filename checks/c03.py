"""C03 — responses echo the request header and question."""
import srvgen
from dnsgen import u16, enc_name, hx


def gen(rng, tier):
    quick = tier == "quick"
    # every flags/opcode word on a fixed query (exhaustive over the 2^16 second header words)
    body = enc_name([b"wWw", b"eXample"]) + u16(1) + u16(1)
    cat = f"1,{hx(enc_name([b'example']))},L,{hx(enc_name([b'example']))}/6/3600/{hx(srvgen.soa_rdata())}"
    step = 1 if not quick else 7
    for flags in range(0, 65536, step):
        req = u16(0xBEEF) + u16(flags) + u16(1) + u16(0) + u16(0) + u16(0) + body
        yield f"{'u' if flags & 1 else 't'} 1232 {cat} - {hx(req)}"
    n = 6000 if quick else 200000
    for _ in range(n):
        yield srvgen.gen_case(rng, loaded=True, mutate_p=0.25, clean_p=0.3)


def nontrivial(case, impl, model, oracle):
    return impl.startswith("resp") and " qd=1 " in impl


CHECK, MANIFEST = srvgen.make_check(
    "C03", "Props/C03.v", ["c03_silent_iff", "c03_header_and_question", "c03_question_is_spec",
                         "c03_question_octets", "c03_writer_keeps_question", "c03_question_echo_octets", "c03_plain_response_decodes", "c03_plain_response_end_to_end", "c03_answered_response_header", "c03_answered_response_ra_z"],
    srvgen.oracle_c03, gen, nontrivial, srvgen.std_classify,
    ("Coq theorems (no axioms): the model of handle_message sends nothing exactly for requests shorter than 12 octets, with QR "
     "set, or with QDCOUNT > 1; every response carries the request's ID and opcode and RD only for opcode QUERY, and its question "
     "is the one read from the request, which is the spec-level decoding of the request's question (C14/C15). The octet-for-octet "
     "echo is a theorem over the BYTE-LEVEL composition the server-level runner executes (Model/QueryW.v respond_w/respond_plain on "
     "the Writer model of C12): when the QNAME is uncompressed (the label sequence at offset 12 ends in the root label) the "
     "question read, re-serialised, IS the request's octets [12, end of question) (c03_question_octets), the finished message "
     "carries the first question uncompressed with its case preserved at offset 12 whatever query answering, EDNS/limit handling "
     "and finish do afterwards (c03_writer_keeps_question), hence response[12..end) = request[12..end) for every response with a "
     "question (c03_question_echo_octets); for the responses that do not come from query answering, respond_plain is a run of "
     "the C12 operation language, so the independent RFC 1035 decoder returns ID, QR=1, opcode, AA=TC=0, RD, RA=0, Z=0, RCODE, "
     "one question, no records and (iff EDNS) exactly one OPT with owner root, class = payload size, TTL 0 "
     "(c03_plain_response_decodes, via c12_roundtrip); every answered response starts with the ID and a third octet with QR=1, "
     "opcode 0 and RD as copied (c03_answered_response_header) and has RA = Z = 0 (c03_answered_response_ra_z). QR=1, RA=0, Z=0 and the same echo are checked on the real octets by the correspondence "
     "run, which includes all 65536 flag/opcode words (thorough; every 7th quick)."),
    "machine-checked proof in Coq + correspondence check (exhaustive over the flags/opcode header word in the thorough tier)")
CHECK["suites"][0]["finding_matches"] = srvgen.finding_c03_pointer_qname
