(* List lemmas missing from the 8.16 standard library. *)
From QV Require Export Base.Res Base.Octets.

Lemma firstn_plus {A} (a b : nat) (l : list A) :
  firstn (a + b) l = firstn a l ++ firstn b (skipn a l).
Proof.
  revert l; induction a as [|a IH]; intros l; simpl; auto.
  destruct l; simpl.
  - rewrite firstn_nil. reflexivity.
  - rewrite IH. reflexivity.
Qed.

Lemma skipn_plus {A} (a b : nat) (l : list A) : skipn a (skipn b l) = skipn (b + a) l.
Proof.
  revert l; induction b as [|b IH]; intros l; simpl; auto.
  destruct l; simpl; auto. apply skipn_nil.
Qed.

Lemma nth_error_skipn {A} (l : list A) s k : nth_error (skipn s l) k = nth_error l (s + k).
Proof.
  revert l; induction s as [|s IH]; intros l; simpl; auto.
  destruct l; simpl; auto. destruct k; reflexivity.
Qed.

Lemma nth_error_Some_lt {A} (l : list A) i x : nth_error l i = Some x -> i < length l.
Proof. intros H. apply nth_error_Some. congruence. Qed.

Lemma nth_error_None_ge {A} (l : list A) i : nth_error l i = None -> length l <= i.
Proof. apply nth_error_None. Qed.

Lemma slice_cons {A} (l : list A) i x e : nth_error l i = Some x -> i < e ->
  slice l i e = x :: slice l (S i) e.
Proof.
  unfold slice. revert i e; induction l as [|y l IH]; intros i e H Hlt.
  - destruct i; discriminate.
  - destruct i.
    + simpl in H. inversion H; subst. destruct e; [lia|]. simpl. rewrite Nat.sub_0_r. reflexivity.
    + simpl in H. destruct e; [lia|]. simpl skipn.
      replace (S e - S i) with (e - i) by lia.
      rewrite (IH i e H) by lia. destruct e; [lia|]. reflexivity.
Qed.

Lemma slice_app {A} (l : list A) a m e : a <= m -> m <= e ->
  slice l a e = slice l a m ++ slice l m e.
Proof.
  intros H1 H2. unfold slice.
  replace (e - a) with ((m - a) + (e - m)) by lia.
  rewrite firstn_plus. f_equal.
  rewrite skipn_plus. replace (a + (m - a)) with m by lia. reflexivity.
Qed.

Lemma slice_nil {A} (l : list A) a : slice l a a = [].
Proof. unfold slice. rewrite Nat.sub_diag. reflexivity. Qed.

Lemma slice_0 {A} (l : list A) e : slice l 0 e = firstn e l.
Proof. unfold slice. rewrite Nat.sub_0_r. reflexivity. Qed.

Lemma slice_skipn {A} (l : list A) s a b : slice (skipn s l) a b = slice l (s + a) (s + b).
Proof. unfold slice. rewrite skipn_plus. f_equal. lia. Qed.

Lemma In_firstn {A} (n : nat) (l : list A) x : In x (firstn n l) -> In x l.
Proof. intros H. rewrite <- (firstn_skipn n l). apply in_or_app. left. exact H. Qed.

Lemma In_skipn {A} (n : nat) (l : list A) x : In x (skipn n l) -> In x l.
Proof. intros H. rewrite <- (firstn_skipn n l). apply in_or_app. right. exact H. Qed.

Lemma Forall_slice {A} (P : A -> Prop) l a b : Forall P l -> Forall P (slice l a b).
Proof.
  intros H. unfold slice. rewrite Forall_forall in *. intros x Hx.
  apply H. apply (In_skipn a). eapply In_firstn. exact Hx.
Qed.

Lemma nth_error_Forall {A} (P : A -> Prop) l i x : Forall P l -> nth_error l i = Some x -> P x.
Proof. intros H E. rewrite Forall_forall in H. apply H. eapply nth_error_In. exact E. Qed.
