(* Result type with an explicit Panic outcome.
   Panic is produced exactly where the Rust code would unwind. *)
From Coq Require Export List NArith ZArith Lia Bool Arith.
Export ListNotations.

Inductive res (E A : Type) : Type :=
| Ok (a : A)
| Err (e : E)
| Panic.
Arguments Ok {E A} a.
Arguments Err {E A} e.
Arguments Panic {E A}.

Definition bind {E A B} (r : res E A) (f : A -> res E B) : res E B :=
  match r with
  | Ok a => f a
  | Err e => Err e
  | Panic => Panic
  end.

Definition map_err {E F A} (g : E -> F) (r : res E A) : res F A :=
  match r with
  | Ok a => Ok a
  | Err e => Err (g e)
  | Panic => Panic
  end.

Definition map_ok {E A B} (g : A -> B) (r : res E A) : res E B :=
  match r with
  | Ok a => Ok (g a)
  | Err e => Err e
  | Panic => Panic
  end.

Notation "'let*' x ':=' e1 'in' e2" := (bind e1 (fun x => e2))
  (at level 200, x pattern at level 0, e1 at level 100, e2 at level 200, right associativity).

Definition is_panic {E A} (r : res E A) : bool :=
  match r with Panic => true | _ => false end.
Definition is_ok {E A} (r : res E A) : bool :=
  match r with Ok _ => true | _ => false end.

Lemma bind_ok_inv {E A B} (r : res E A) (f : A -> res E B) b :
  bind r f = Ok b -> exists a, r = Ok a /\ f a = Ok b.
Proof. destruct r; simpl; intros H; try discriminate; eauto. Qed.

Lemma bind_not_panic {E A B} (r : res E A) (f : A -> res E B) :
  r <> Panic -> (forall a, r = Ok a -> f a <> Panic) -> bind r f <> Panic.
Proof. destruct r; simpl; intros H1 H2; auto; discriminate. Qed.
