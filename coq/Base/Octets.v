(* Octets are N with the side condition < 256; buffers are list N. *)
From QV Require Export Base.Res.

Definition octet := N.
Definition bytes := list N.

Definition is_octet (b : N) : Prop := (b < 256)%N.
Definition wf_bytes (l : bytes) : Prop := Forall is_octet l.
Definition octetb (b : N) : bool := (b <? 256)%N.
Definition wf_bytesb (l : bytes) : bool := forallb octetb l.

Lemma wf_bytesb_spec l : wf_bytesb l = true <-> wf_bytes l.
Proof.
  unfold wf_bytesb, wf_bytes. rewrite forallb_forall, Forall_forall.
  unfold octetb, is_octet. split; intros H x Hx; specialize (H x Hx).
  - apply N.ltb_lt; exact H.
  - apply N.ltb_lt; exact H.
Qed.

(* slice [a, b) of a list; Rust's &l[a..b] panics unless a <= b <= len *)
Definition slice {A} (l : list A) (a b : nat) : list A := firstn (b - a) (skipn a l).

Lemma slice_length {A} (l : list A) a b : a <= b -> b <= length l -> length (slice l a b) = b - a.
Proof. intros. unfold slice. rewrite firstn_length, skipn_length. lia. Qed.

Definition N_of_nat := N.of_nat.
Definition nat_of_N := N.to_nat.

(* ASCII lower-casing of one octet, u8::to_ascii_lowercase *)
Definition lower (b : N) : N := if ((65 <=? b) && (b <=? 90))%N then (b + 32)%N else b.
Definition upper (b : N) : N := if ((97 <=? b) && (b <=? 122))%N then (b - 32)%N else b.

Lemma lower_idem b : lower (lower b) = lower b.
Proof.
  unfold lower. destruct ((65 <=? b)%N && (b <=? 90)%N) eqn:E; auto.
  - apply andb_true_iff in E. destruct E as [E1 E2].
    apply N.leb_le in E1. apply N.leb_le in E2.
    destruct ((65 <=? b + 32)%N && (b + 32 <=? 90)%N) eqn:F; auto.
    apply andb_true_iff in F. destruct F as [F1 F2]. apply N.leb_le in F2. lia.
  - rewrite E. reflexivity.
Qed.

Lemma lower_octet b : is_octet b -> is_octet (lower b).
Proof.
  unfold is_octet, lower. intros H.
  destruct ((65 <=? b)%N && (b <=? 90)%N) eqn:E; auto.
  apply andb_true_iff in E. destruct E as [_ E2]. apply N.leb_le in E2. lia.
Qed.
