(* Model of /repo/src/message/tsig.rs (TSIG digest construction, signing, verification),
   of the TSIG part of /repo/src/rr/rdata/tsig.rs (RDATA layout, validate_as_tsig, TimeSigned)
   and of the TSIG branch of Writer::finish_with_mac (src/message/writer.rs).

   The authenticator (`Box<dyn Authenticator>`) is modelled by the octet string that has
   been fed to it: a sequence of `update` calls is the concatenation of their arguments
   (the streaming contract of the `digest::Mac` trait), `finalize` is [hmac alg key data].
   [hmac] is a Section variable: no statement depends on what HMAC computes.

   Names (`Name`, `LowercaseName`) are represented by their uncompressed wire form
   (`wire_repr()`), the only view of them this code uses besides equality.
   Every slice/index/unwrap/expect/assert of the Rust code that can fail is a [Panic]. *)
From QV Require Export Base.Res Base.Octets Base.ListX Gen.Consts Gen.TsigConsts Model.NameWire.

(* ---- integers on the wire ------------------------------------------------------- *)

(* u16::to_be_bytes *)
Definition be16 (n : N) : bytes := [(n / 256) mod 256; n mod 256]%N.
(* u32::to_be_bytes *)
Definition be32 (n : N) : bytes :=
  [(n / 16777216) mod 256; (n / 65536) mod 256; (n / 256) mod 256; n mod 256]%N.
(* big-endian value of an octet string (u16::from_be_bytes, u64::from_be_bytes) *)
Definition be_dec (s : bytes) : N := fold_left (fun acc b => acc * 256 + b)%N s 0%N.
(* `x.len() as u16` *)
Definition len_u16 (l : bytes) : N := (N.of_nat (length l) mod 65536)%N.

(* `&l[a..b]`: panics unless a <= b <= len *)
Definition get_range (l : bytes) (a b : nat) : option bytes :=
  if (a <=? b) && (b <=? length l) then Some (slice l a b) else None.
(* `&l[a..]` *)
Definition get_from (l : bytes) (a : nat) : option bytes :=
  if a <=? length l then Some (skipn a l) else None.
(* u16::from_be_bytes(l[a..a+2].try_into().unwrap()) *)
Definition get_u16 (l : bytes) (a : nat) : option N :=
  match get_range l a (a + 2) with Some s => Some (be_dec s) | None => None end.

Fixpoint bytes_eqb (a b : bytes) : bool :=
  match a, b with
  | [], [] => true
  | x :: a', y :: b' => (x =? y)%N && bytes_eqb a' b'
  | _, _ => false
  end.

(* `Name == Name`: same labels up to ASCII case.  On wire forms of valid names this is
   equality of the lower-cased wire forms (length octets are <= 63 and unaffected). *)
Definition name_eqb (a b : bytes) : bool := bytes_eqb (map lower a) (map lower b).

(* Box<Name> -> Box<LowercaseName> (make_ascii_lowercase on every label; length octets
   of a valid name are < 'A') *)
Definition to_lowercase_name (wire : bytes) : bytes := map lower wire.

(* ---- algorithms --------------------------------------------------------------------- *)

Inductive alg := HmacSha1 | HmacSha256.

Definition alg_name (a : alg) : bytes :=
  match a with HmacSha1 => HMAC_SHA1_NAME_WIRE | HmacSha256 => HMAC_SHA256_NAME_WIRE end.

Definition output_size (a : alg) : nat :=
  match a with HmacSha1 => N.to_nat SHA1_OUTPUT_SIZE | HmacSha256 => N.to_nat SHA256_OUTPUT_SIZE end.

(* Algorithm::from_name: lookup in the two-entry HashMap keyed by Name *)
Definition alg_from_name (n : bytes) : option alg :=
  if name_eqb n HMAC_SHA1_NAME_WIRE then Some HmacSha1
  else if name_eqb n HMAC_SHA256_NAME_WIRE then Some HmacSha256
  else None.

(* ---- TimeSigned ([u8; 6]) ------------------------------------------------------------- *)

(* TimeSigned::to_unix_time *)
Definition to_unix_time (ts : bytes) : N := be_dec ts.

Definition be48 (n : N) : bytes :=
  [(n / 1099511627776) mod 256; (n / 4294967296) mod 256; (n / 16777216) mod 256;
   (n / 65536) mod 256; (n / 256) mod 256; n mod 256]%N.

(* TimeSigned::try_from_unix_time (seconds : u64): None = UnrepresentableTimeError *)
Definition time_signed_of_unix (seconds : N) : option bytes :=
  if (seconds / 281474976710656 =? 0)%N then Some (be48 seconds) else None.

(* ---- errors ------------------------------------------------------------------------------ *)

Inductive verr := BadSig | BadTime | VFormErr.
Inductive from_read_err := FrFormErr | FrNotTsig.
Inductive rdata_err := RdInvalidName (e : name_err) | RdUnexpectedEom | RdOther.

(* ---- Variables trait ------------------------------------------------------------------- *)

Record tsig_vars := mkVars {
  v_key_name : bytes; v_algorithm : bytes; v_time_signed : bytes;
  v_fudge : N; v_error : N; v_other : bytes }.

Definition id_end : nat := N.to_nat ID_END.
Definition arcount_start : nat := N.to_nat ARCOUNT_START.
Definition arcount_end : nat := N.to_nat ARCOUNT_END.

(* add_modified_message: the octets fed to the authenticator *)
Definition add_modified_message {E} (message : bytes) (original_id : N) : res E bytes :=
  match get_range message id_end arcount_start with
  | None => Panic
  | Some flags_and_counts =>
    match get_range message arcount_start arcount_end with
    | None => Panic
    | Some ar =>
      let arcount := be_dec ar in
      if (arcount =? 0)%N then Panic          (* `- 1` on a u16: overflow check *)
      else match get_from message arcount_end with
           | None => Panic
           | Some rest => Ok (be16 original_id ++ flags_and_counts ++ be16 (arcount - 1) ++ rest)
           end
    end
  end.

(* add_tsig_timers *)
Definition add_tsig_timers (v : tsig_vars) : bytes := v_time_signed v ++ be16 (v_fudge v).

(* add_tsig_variables *)
Definition add_tsig_variables (v : tsig_vars) : bytes :=
  v_key_name v ++ TSIG_VARS_CLASS_TTL ++ v_algorithm v ++ add_tsig_timers v
  ++ be16 (v_error v) ++ be16 (len_u16 (v_other v)) ++ v_other v.

(* ---- TSIG RDATA (src/rr/rdata/tsig.rs) -------------------------------------------------- *)

(* serialize_tsig_unchecked *)
Definition serialize_tsig_unchecked (algorithm time_signed : bytes) (fudge : N) (mac : bytes)
           (original_id error : N) (other : bytes) : bytes :=
  algorithm ++ time_signed ++ be16 fudge ++ be16 (len_u16 mac) ++ mac
  ++ be16 original_id ++ be16 error ++ be16 (len_u16 other) ++ other.

(* required_len: None = RdataTooLongError (usize additions cannot overflow for in-memory slices) *)
Definition required_len (algorithm mac other : bytes) : option nat :=
  let len := length algorithm + N.to_nat TSIG_RDATA_FIXED_LEN + length mac + length other in
  if (N.of_nat len <=? 65535)%N then Some len else None.

(* Rdata::new_tsig *)
Definition new_tsig (algorithm time_signed : bytes) (fudge : N) (mac : bytes)
           (original_id error : N) (other : bytes) : option bytes :=
  match required_len algorithm mac other with
  | None => None
  | Some _ => Some (serialize_tsig_unchecked algorithm time_signed fudge mac original_id error other)
  end.

(* Rdata::validate_as_tsig *)
Definition validate_as_tsig (octets : bytes) : res rdata_err unit :=
  match validate_uncompressed_name octets false with
  | Panic => Panic
  | Err e => Err (RdInvalidName e)
  | Ok algorithm_len =>
    match get_u16 octets (algorithm_len + 8) with
    | None => Err RdOther
    | Some mac_size =>
      let mac_size := N.to_nat mac_size in
      match get_u16 octets (algorithm_len + mac_size + 14) with
      | None => Err RdOther
      | Some other_len =>
        let other_len := N.to_nat other_len in
        if algorithm_len + mac_size + other_len + 16 =? length octets then Ok tt else Err RdOther
      end
    end
  end.

(* ---- ReadTsigRr ----------------------------------------------------------------------------- *)

Record read_rr := mkReadRr {
  rr_owner : bytes; rr_type : N; rr_class : N; rr_ttl : N; rr_rdata : bytes }.

Record read_tsig := mkReadTsig {
  r_key_name : bytes; r_algorithm : bytes; r_mac_size : N; r_rdata : bytes }.

(* impl From<u32> for Ttl (src/rr/ttl.rs): RFC 2181 section 8, a TTL with the top bit set is 0;
   [rr_ttl] is the value after this conversion, as in ReadRr *)
Definition ttl_of_u32 (raw : N) : N := if (2147483647 <? raw)%N then 0%N else raw.

(* impl TryFrom<ReadRr> for ReadTsigRr *)
Definition read_tsig_try_from (rr : read_rr) : res from_read_err read_tsig :=
  if negb (rr_type rr =? TYPE_TSIG)%N then Err FrNotTsig
  else if negb (rr_class rr =? QCLASS_ANY)%N || negb (rr_ttl rr =? 0)%N then Err FrFormErr
  else match parse_uncompressed_name (rr_rdata rr) false with
       | Ok (algorithm, algo_len) =>
         match get_u16 (rr_rdata rr) (algo_len + 8) with
         | None => Panic
         | Some mac_size =>
           Ok (mkReadTsig (to_lowercase_name (rr_owner rr)) (to_lowercase_name (n_wire algorithm))
                          mac_size (rr_rdata rr))
         end
       | _ => Panic                                   (* .expect(...) *)
       end.

Definition r_algo_len (r : read_tsig) : nat := length (r_algorithm r).
Definition r_mac_len (r : read_tsig) : nat := N.to_nat (r_mac_size r).

Definition r_time_signed (r : read_tsig) : option bytes :=
  get_range (r_rdata r) (r_algo_len r) (r_algo_len r + 6).
Definition r_fudge (r : read_tsig) : option N := get_u16 (r_rdata r) (r_algo_len r + 6).
Definition r_mac (r : read_tsig) : option bytes :=
  get_range (r_rdata r) (r_algo_len r + 10) (r_algo_len r + r_mac_len r + 10).
Definition r_original_id (r : read_tsig) : option N :=
  get_u16 (r_rdata r) (r_algo_len r + r_mac_len r + 10).
Definition r_error (r : read_tsig) : option N :=
  get_u16 (r_rdata r) (r_algo_len r + r_mac_len r + 12).
Definition r_other (r : read_tsig) : option bytes :=
  get_from (r_rdata r) (r_algo_len r + r_mac_len r + 16).

Definition unwrap {E A} (o : option A) : res E A :=
  match o with Some a => Ok a | None => Panic end.

(* impl Variables for ReadTsigRr *)
Definition read_vars {E} (r : read_tsig) : res E tsig_vars :=
  let* ts := unwrap (r_time_signed r) in
  let* fudge := unwrap (r_fudge r) in
  let* error := unwrap (r_error r) in
  let* other := unwrap (r_other r) in
  Ok (mkVars (r_key_name r) (r_algorithm r) ts fudge error other).

(* check_mac_size *)
Definition check_mac_size (a : alg) (mac_size : N) : res verr unit :=
  let mac_size := N.to_nat mac_size in
  let half_output_size := (output_size a + 1) / 2 in
  if (output_size a <? mac_size) || (mac_size <? Nat.max (N.to_nat TSIG_MIN_MAC_SIZE) half_output_size)
  then Err VFormErr else Ok tt.

Definition u64_max : N := 18446744073709551615%N.

(* check_time: u64 saturating_sub / saturating_add *)
Definition check_time (time_signed : bytes) (fudge : N) (now : bytes) : res verr unit :=
  let time_signed_unix := to_unix_time time_signed in
  let now_unix := to_unix_time now in
  let time_window_start := if (time_signed_unix <? fudge)%N then 0%N else (time_signed_unix - fudge)%N in
  let time_window_end := N.min (time_signed_unix + fudge) u64_max in
  if (time_window_start <=? now_unix)%N && (now_unix <=? time_window_end)%N then Ok tt else Err BadTime.

Inductive vmode :=
| VRequest
| VResponse (request_mac : bytes)
| VSubsequent (prior_mac : bytes).

(* the `add_data_to_mac` closures of verify_request / verify_response / verify_subsequent *)
Definition read_digest (r : read_tsig) (message : bytes) (m : vmode) : res verr bytes :=
  match m with
  | VRequest =>
    let* oid := unwrap (r_original_id r) in
    let* mm := add_modified_message message oid in
    let* v := read_vars r in
    Ok (mm ++ add_tsig_variables v)
  | VResponse request_mac =>
    let* oid := unwrap (r_original_id r) in
    let* mm := add_modified_message message oid in
    let* v := read_vars r in
    Ok (be16 (len_u16 request_mac) ++ request_mac ++ mm ++ add_tsig_variables v)
  | VSubsequent prior_mac =>
    let* oid := unwrap (r_original_id r) in
    let* mm := add_modified_message message oid in
    let* v := read_vars r in
    Ok (be16 (len_u16 prior_mac) ++ prior_mac ++ mm ++ add_tsig_timers v)
  end.

(* digest::Mac::verify_truncated_left on the finalized value *)
Definition verify_truncated_left (full tag : bytes) (out_size : nat) : bool :=
  let n := length tag in
  if (n =? 0) || (out_size <? n) then false else bytes_eqb (firstn n full) tag.

Section WithHmac.
Variable hmac : alg -> bytes -> bytes -> bytes.

(* verification_core *)
Definition verification_core (r : read_tsig) (digest : res verr bytes) (a : alg) (key now : bytes)
  : res verr unit :=
  if negb (name_eqb (r_algorithm r) (alg_name a)) then Panic      (* assert_eq! *)
  else
    let* _ := check_mac_size a (r_mac_size r) in
    let* d := digest in
    let* mac := unwrap (r_mac r) in
    if verify_truncated_left (hmac a key d) mac (output_size a) then
      let* ts := unwrap (r_time_signed r) in
      let* fudge := unwrap (r_fudge r) in
      check_time ts fudge now
    else Err BadSig.

(* verify_request / verify_response / verify_subsequent *)
Definition verify (r : read_tsig) (message : bytes) (m : vmode) (a : alg) (key now : bytes)
  : res verr unit :=
  match m with
  | VResponse request_mac =>
    if (65535 <? N.of_nat (length request_mac))%N then Panic                       (* assert! *)
    else verification_core r (read_digest r message m) a key now
  | _ => verification_core r (read_digest r message m) a key now
  end.

(* ---- PreparedTsigRr ---------------------------------------------------------------------- *)

Record prepared := mkPrepared {
  p_key_name : bytes; p_time_signed : bytes; p_fudge : N; p_original_id : N;
  p_error : N; p_server_time : bytes }.

(* PreparedTsigRr::other *)
Definition p_other (p : prepared) : bytes :=
  if (p_error p =? XRCODE_BADTIME)%N then p_server_time p else [].

(* impl Variables for (&LowercaseName, &PreparedTsigRr) *)
Definition prepared_vars (algorithm : bytes) (p : prepared) : tsig_vars :=
  mkVars (p_key_name p) algorithm (p_time_signed p) (p_fudge p) (p_error p) (p_other p).

(* PreparedTsigRr::new_from_read *)
Definition new_from_read {E} (read : read_tsig) (time_signed : bytes) (fudge error : N) : res E prepared :=
  let* ts_st :=
     if (error =? XRCODE_BADTIME)%N
     then (let* rts := unwrap (r_time_signed read) in Ok (rts, time_signed))
     else Ok (time_signed, time_signed) in
  let* oid := unwrap (r_original_id read) in
  Ok (mkPrepared (r_key_name read) (fst ts_st) fudge oid error (snd ts_st)).

(* unsigned_len / signed_len *)
Definition unsigned_len (p : prepared) (algorithm : bytes) : nat :=
  let len := length (p_key_name p) + length algorithm + N.to_nat TSIG_UNSIGNED_FIXED_LEN in
  if (p_error p =? XRCODE_BADTIME)%N then len + N.to_nat TSIG_BADTIME_OTHER_LEN else len.
Definition signed_len (p : prepared) (a : alg) : nat := unsigned_len p (alg_name a) + output_size a.

(* serialize_rdata: .expect on RdataTooLongError *)
Definition serialize_rdata {E} (p : prepared) (algorithm mac : bytes) : res E bytes :=
  unwrap (new_tsig algorithm (p_time_signed p) (p_fudge p) mac (p_original_id p) (p_error p) (p_other p)).

Inductive smode :=
| SRequest
| SResponse (request_mac : bytes)
| SSubsequent (prior_mac : bytes).

(* the octets fed to the authenticator by sign_request / sign_response / sign_subsequent *)
Definition sign_digest (p : prepared) (message : bytes) (m : smode) (a : alg) : res verr bytes :=
  match m with
  | SRequest =>
    let* mm := add_modified_message message (p_original_id p) in
    Ok (mm ++ add_tsig_variables (prepared_vars (alg_name a) p))
  | SResponse request_mac =>
    if (65535 <? N.of_nat (length request_mac))%N then Panic
    else let* mm := add_modified_message message (p_original_id p) in
         Ok (be16 (len_u16 request_mac) ++ request_mac ++ mm
             ++ add_tsig_variables (prepared_vars (alg_name a) p))
  | SSubsequent prior_mac =>
    if (65535 <? N.of_nat (length prior_mac))%N then Panic
    else let* mm := add_modified_message message (p_original_id p) in
         Ok (be16 (len_u16 prior_mac) ++ prior_mac ++ mm
             ++ add_tsig_timers (prepared_vars (alg_name a) p))
  end.

(* sign_request / sign_response / sign_subsequent: (RDATA, MAC) *)
Definition sign (p : prepared) (message : bytes) (m : smode) (a : alg) (key : bytes)
  : res verr (bytes * bytes) :=
  let* d := sign_digest p message m a in
  let mac := hmac a key d in
  let* rdata := serialize_rdata p (alg_name a) mac in
  Ok (rdata, mac).

(* PreparedTsigRr::unsigned *)
Definition unsigned (p : prepared) (algorithm : bytes) : res verr bytes :=
  serialize_rdata p algorithm [].

(* ---- Writer: TsigMode, set_tsig's reservation, the TSIG branch of finish_with_mac ------ *)

Inductive tsig_mode :=
| TmRequest (a : alg) (key : bytes)
| TmResponse (a : alg) (request_mac key : bytes)
| TmSubsequent (a : alg) (prior_mac key : bytes)
| TmUnsigned (algorithm : bytes).

Definition reserved_len (mode : tsig_mode) (rr : prepared) : nat :=
  match mode with
  | TmRequest a _ | TmResponse a _ _ | TmSubsequent a _ _ => signed_len rr a
  | TmUnsigned algorithm => unsigned_len rr algorithm
  end.

(* finish_with_mac, `if let Some(tsig) = self.tsig.take()`: [message] is octets[0..cursor]
   with the final counts already written; result: TSIG RDATA and the MAC, if signed *)
Definition finish_tsig (message : bytes) (mode : tsig_mode) (rr : prepared)
  : res verr (bytes * option bytes) :=
  match mode with
  | TmRequest a key =>
    let* (rdata, mac) := sign rr message SRequest a key in Ok (rdata, Some mac)
  | TmResponse a request_mac key =>
    let* (rdata, mac) := sign rr message (SResponse request_mac) a key in Ok (rdata, Some mac)
  | TmSubsequent a prior_mac key =>
    let* (rdata, mac) := sign rr message (SSubsequent prior_mac) a key in Ok (rdata, Some mac)
  | TmUnsigned algorithm =>
    let* rdata := unsigned rr algorithm in Ok (rdata, None)
  end.

(* Writer::set_edns / set_extended_rcode state kept until finish: `struct Edns` *)
Record edns := mkEdns { e_udp_payload_size : N; e_extended_rcode_upper_bits : N }.

(* the OPT RR finish_with_mac appends through add_rr: root owner (written uncompressed: wire length 1),
   TYPE OPT, CLASS = UDP payload size, TTL = extended_rcode_upper_bits << 24 (written as is), no RDATA *)
Definition opt_rr (e : edns) : bytes :=
  [0%N] ++ be16 TYPE_OPT ++ be16 (e_udp_payload_size e)
  ++ be32 (e_extended_rcode_upper_bits e * 16777216) ++ be16 0.

(* finish_with_mac after the counts have been written: [body] is octets[0..cursor] at that point
   (ARCOUNT already counts the OPT and TSIG RRs, set_edns / set_tsig incremented it).  First the OPT
   RR is appended, THEN the TSIG branch signs octets[0..cursor], i.e. everything before the TSIG RR,
   the OPT RR included.  Result: the message before the TSIG RR, and the TSIG RDATA / MAC if any. *)
Definition finish_tail (body : bytes) (e : option edns) (tsig : option (tsig_mode * prepared))
  : res verr (bytes * option (bytes * option bytes)) :=
  let message := match e with Some e' => body ++ opt_rr e' | None => body end in
  match tsig with
  | None => Ok (message, None)
  | Some (mode, rr) =>
    let* (rdata, mac) := finish_tsig message mode rr in
    Ok (message, Some (rdata, mac))
  end.

(* the TSIG RR that finish_with_mac appends when the owner is written uncompressed
   (the Writer may replace a suffix of the owner by a compression pointer) *)
Definition tsig_rr_uncompressed (rr : prepared) (rdata : bytes) : bytes :=
  p_key_name rr ++ be16 TYPE_TSIG ++ be16 QCLASS_ANY ++ be32 0 ++ be16 (len_u16 rdata) ++ rdata.

End WithHmac.
