(* Model of src/db/zone/validation.rs: validate / scan_node / check_apex_ns_address /
   check_delegation_ns_address / check_glue / check_mx_address / class_has_addrs / addrs_found,
   run against the zone model of Model/ZoneTree.v (the Zone trait methods it calls are
   soa, ns, class, glue_policy, name, iter_by_node, lookup_addrs).  No proofs here.

   * The HashSet<ValidationIssue> is a list (consumers compare as sets; ValidationIssue's Eq
     compares names case-insensitively, results are compared after lower-casing names).
   * Name::try_from_uncompressed_all on RDATA octets is the Section variable [parse]; its real
     instance is Model/ZoneReal.v [parse_real] (C14's parse_uncompressed_name + label access), which
     the runner uses and for which Proofs/ZoneRealP.v closes the theorems.
   * `?` on InvalidRdata aborts the whole validation: [collect] stops at the first error. *)
From QV Require Import Base.Res Base.Octets Gen.ZoneConsts Model.ZoneTree.

Inductive issue :=
| MissingApexSoa
| TooManyApexSoas
| MissingApexNs
| MissingNsAddress (n : name)
| MissingMxAddress (n : name)
| MissingGlue (n : name)
| DuplicateCname (n : name)
| OtherRecordsAtCname (n : name)
| NsAtWildcard (n : name).

(* ValidationIssue::is_error *)
Definition issue_is_error (i : issue) : bool :=
  match i with MissingMxAddress _ | NsAtWildcard _ => false | _ => true end.

(* `for x in xs { ...f(x)?... }` accumulating issues *)
Fixpoint collect {A} (f : A -> res zone_err (list issue)) (l : list A) : res zone_err (list issue) :=
  match l with
  | [] => Ok []
  | x :: l' => let* a := f x in let* b := collect f l' in Ok (a ++ b)
  end.

(* impl PartialEq for Name *)
Definition name_eq (a b : name) : bool :=
  (length a =? length b) && forallb (fun p => label_eqb (fst p) (snd p)) (combine a b).

Definition class_has_addrs (cls : N) : bool := (cls =? CLASS_IN)%N || (cls =? CLASS_CH)%N.

Definition is_some {A} (o : option A) : bool := match o with Some _ => true | None => false end.

Definition addrs_found (cls : N) (a aaaa : option single_rrset) : bool :=
  is_some a || ((cls =? CLASS_IN)%N && is_some aaaa).

Section V.
Variable parse : bytes -> option name.

Definition check_apex_ns_address (z : zone) (n : name) : res zone_err (list issue) :=
  let* r := zone_lookup_addrs z n false false in
  Ok match r with
     | AFound a b _ => if addrs_found (z_class z) a b then [] else [MissingNsAddress n]
     | ANxDomain => [MissingNsAddress n]
     | AReferral _ _ => []
     | AWrongZone => []
     end.

Definition check_glue (z : zone) (n : name) : res zone_err (list issue) :=
  let* r := zone_lookup_addrs z n false true in
  Ok match r with
     | AFound a b _ => if addrs_found (z_class z) a b then [] else [MissingGlue n]
     | _ => [MissingGlue n]
     end.

Definition check_delegation_ns_address (z : zone) (n child : name) : res zone_err (list issue) :=
  let* r := zone_lookup_addrs z n false false in
  match r with
  | AFound a b _ => Ok (if addrs_found (z_class z) a b then [] else [MissingNsAddress n])
  | AReferral c _ =>
    if z_wide z then check_glue z n
    else if name_eq c child then check_glue z n else Ok []
  | ANxDomain => Ok [MissingNsAddress n]
  | AWrongZone => Ok []
  end.

Definition check_mx_address (z : zone) (n : name) : res zone_err (list issue) :=
  let* r := zone_lookup_addrs z n false false in
  Ok match r with
     | AFound a b _ => if addrs_found (z_class z) a b then [] else [MissingMxAddress n]
     | ANxDomain => [MissingMxAddress n]
     | AReferral _ _ => []
     | AWrongZone => []
     end.

(* Name::is_wildcard: self[0].is_asterisk() *)
Definition is_wildcard (n : name) : res zone_err bool :=
  let* l := name_index n 0 in Ok (label_eqb l ASTERISK_LABEL).

Definition scan_rrset (z : zone) (owner : name) (n_rrsets : nat) (rs : rrset) : res zone_err (list issue) :=
  if (rs_type rs =? TYPE_CNAME)%N then
    Ok ((if negb (n_rrsets =? 1) then [OtherRecordsAtCname owner] else []) ++
        (if negb (length (rs_rdatas rs) =? 1) then [DuplicateCname owner] else []))
  else if (rs_type rs =? TYPE_MX)%N then
    if class_has_addrs (z_class z) then
      collect (fun rd =>
                 match (if 2 <=? length rd then parse (skipn 2 rd) else None) with
                 | Some n => check_mx_address z n
                 | None => Err InvalidRdata
                 end) (rs_rdatas rs)
    else Ok []
  else if (rs_type rs =? TYPE_NS)%N then
    let* w := is_wildcard owner in
    let* rest :=
      if negb (name_len owner =? name_len (zone_name z)) && class_has_addrs (z_class z) then
        collect (fun rd =>
                   match parse rd with
                   | Some n => check_delegation_ns_address z n owner
                   | None => Err InvalidRdata
                   end) (rs_rdatas rs)
      else Ok [] in
    Ok ((if w then [NsAtWildcard owner] else []) ++ rest)
  else Ok [].

Definition scan_node (z : zone) (owner : name) (rrsets : rrset_list) : res zone_err (list issue) :=
  collect (scan_rrset z owner (length rrsets)) rrsets.

Definition zone_validate (z : zone) : res zone_err (list issue) :=
  let soa_i :=
    match zone_soa z with
    | Some (_, rds) => if negb (length rds =? 1) then [TooManyApexSoas] else []
    | None => [MissingApexSoa]
    end in
  let* ns_i :=
    match zone_ns z with
    | Some (_, rds) =>
      if class_has_addrs (z_class z) then
        collect (fun rd =>
                   match parse rd with
                   | Some n => check_apex_ns_address z n
                   | None => Err InvalidRdata
                   end) rds
      else Ok []
    | None => Ok [MissingApexNs]
    end in
  let* node_i := collect (fun nd => scan_node z (fst nd) (snd nd)) (zone_iter_by_node z) in
  Ok (soa_i ++ ns_i ++ node_i).

End V.

(* A simplified stand-in for Name::try_from_uncompressed_all (first wave's runner instance; used only by
   the example c21_example now): labels of 1..63 octets, a terminating zero octet that is the last
   octet, at most 255 octets in all. *)
Fixpoint parse_labels (fuel : nat) (b : bytes) : option name :=
  match fuel with
  | 0 => None
  | S f =>
    match b with
    | [] => None
    | len :: rest =>
      if (len =? 0)%N then (match rest with [] => Some [] | _ => None end)
      else if (63 <? len)%N then None
      else if length rest <? N.to_nat len then None
      else match parse_labels f (skipn (N.to_nat len) rest) with
           | Some ls => Some (firstn (N.to_nat len) rest :: ls)
           | None => None
           end
    end
  end.
Definition parse_name_simple (b : bytes) : option name :=
  if 255 <? length b then None else parse_labels (S (length b)) b.
