(* C30 — executable model of the TCP connection loop and the UDP loops of the two I/O
   providers: src/io/blocking.rs (handle_tcp_connection, run_udp_worker) and
   src/io/tokio.rs (handle_tcp_connection + read_message_over_tcp, run_udp_receiver).

   The two TCP loops are the same automaton (tokio.rs says "adapted from the blocking I/O
   provider"): same buffer, same n_read / received_len_opt bookkeeping, same leftover
   handling.  They differ only in how a timeout reaches the loop, which is environment
   behaviour here:
     blocking: per-read socket timeout (WouldBlock/TimedOut), EINTR handled by hand, and
               compute_timeout(deadline) re-evaluated after every successful read — an expired
               deadline closes the connection even if that read completed the message
               ([expired = true] on the event);
     tokio:    one tokio::time::timeout around read_message_over_tcp — a [RdTimeout] event
               at some read; never [RdIntr], never [expired = true]   ([tokio_events]).
   So there is ONE model, [conn_loop], over the list of read events the socket delivers.

   No proofs in this file. *)
From QV Require Import Base.Res Base.Octets Base.ListX Gen.IoConsts.

Inductive fr_err := OutOfFuel.

(* What one call of socket.read(&mut received_buf[n_read..]) does. *)
Inductive rd_event :=
| RdData (s : bytes) (expired : bool)  (* the kernel has the octets [s] queued: Ok(min(|s|, space));
                                          expired: the per-message deadline has passed when the read returns *)
| RdEof                                (* Ok(0): the peer closed its sending side *)
| RdTimeout                            (* WouldBlock / TimedOut / tokio Elapsed *)
| RdIntr (expired : bool)              (* Interrupted (blocking provider only) *)
| RdErr.                               (* any other I/O error *)

Inductive close_reason :=
| ClEof | ClTimeout | ClNoResponse | ClShutdown | ClIoError
| ClBlocked.  (* model only: the event list is exhausted = the read would block for ever *)

(* buf[off .. off+|data|] = data  (the read system call filling the slice) *)
Definition buf_write (buf : bytes) (off : nat) (data : bytes) : bytes :=
  firstn off buf ++ data ++ skipn (off + length data) buf.

(* buf.copy_within(a..b, 0) *)
Definition copy_within0 (buf : bytes) (a b : nat) : bytes :=
  slice buf a b ++ skipn (b - a) buf.

(* u16::from_be_bytes([h, l]) as usize *)
Definition be16 (h l : N) : nat := N.to_nat (h * 256 + l).

(* u16::to_be_bytes(n as u16) *)
Definition to_be16 (n : nat) : bytes :=
  let m := (N.of_nat n mod 65536)%N in [(m / 256)%N; (m mod 256)%N].

Definition is_stop (e : rd_event) : bool :=
  match e with RdData _ _ => false | RdIntr false => false | _ => true end.

(* close_after_draining (the repaired close after a response-less request): shutdown(Write),
   then read into the whole buffer and discard until the peer closes, the deadline passes or
   an error occurs.  Nothing is written any more; however it ends, the connection is closed
   because of the response-less request.  (Before the fix the socket was dropped at once; with
   pipelined octets unread the kernel then reset the connection and destroyed responses that
   had been written but not yet delivered — see docs/C30.md.) *)
Fixpoint drain_close (evs : list rd_event) : close_reason :=
  match evs with
  | RdData (_ :: _) false :: evs' => drain_close evs'
  | RdIntr false :: evs' => drain_close evs'
  | _ => ClNoResponse
  end.

Section Tcp.
  (* Server::handle_message(msg, ReceivedInfo{client_ip, Tcp}, &mut response_buf[2..]) as a
     function of the message alone: Some resp = Response::Single(|resp|) with resp written
     at the start of the buffer, None = Response::None. *)
  Variable handler : bytes -> option bytes.
  Variable cap : nat.    (* received_buf.len() *)
  Variable rcap : nat.   (* response_buf.len() *)
  Variable shutting_down : nat -> bool.  (* is_shutting_down() observed after the k-th response *)

  Definition R := res fr_err (list bytes * close_reason).
  Definition K := bytes -> nat -> option nat -> nat -> list rd_event -> R.

  (* "Do the next read" and "Prepare for the next iteration". *)
  Definition do_read (rec : K) (buf : bytes) (n_read : nat) (lo : option nat) (k : nat)
             (evs : list rd_event) : R :=
    if cap <? n_read then Panic                       (* &mut received_buf[n_read..] *)
    else match evs with
    | [] => Ok ([], ClBlocked)
    | RdTimeout :: _ => Ok ([], ClTimeout)
    | RdErr :: _ => Ok ([], ClIoError)
    | RdEof :: _ => Ok ([], ClEof)
    | RdIntr expired :: evs' =>
        if expired then Ok ([], ClTimeout) else rec buf n_read lo k evs'
    | RdData s expired :: evs' =>
        let n := Nat.min (length s) (cap - n_read) in
        if n =? 0 then Ok ([], ClEof)                 (* n_read_this_time == 0 *)
        else
          let buf' := buf_write buf n_read (firstn n s) in
          if expired then Ok ([], ClTimeout)          (* compute_timeout(deadline) = None *)
          else rec buf' (n_read + n) lo k
                   (if n <? length s then RdData (skipn n s) false :: evs' else evs')
    end.

  (* "Process the DNS message and write the response, if any", then the leftover handling. *)
  Definition process (rec : K) (buf : bytes) (n_read : nat) (L : nat) (k : nat)
             (evs : list rd_event) : R :=
    if cap <? L + 2 then Panic                        (* &received_buf[2..received_len + 2] *)
    else if rcap <? 2 then Panic                      (* &mut response_buf[2..] *)
    else if (N.of_nat (rcap - 2) <? 65535)%N then Panic  (* "the response buffer is not large enough" *)
    else match handler (slice buf 2 (L + 2)) with
    | None => Ok ([], drain_close evs)
    | Some resp =>
        if rcap <? 2 + length resp then Panic         (* &response_buf[0..2 + response_len] *)
        else
          let w := to_be16 (length resp) ++ resp in   (* one write_all *)
          if shutting_down k then Ok ([w], ClShutdown)
          else
            let '(buf', n') :=
              if L + 2 <? n_read then (copy_within0 buf (L + 2) n_read, n_read - (L + 2))
              else (buf, 0) in
            map_ok (fun '(ws, c) => (w :: ws, c)) (rec buf' n' None (S k) evs)
    end.

  (* One pass through the head of the inner loop. *)
  Definition conn_step (rec : K) (buf : bytes) (n_read : nat) (lo : option nat) (k : nat)
             (evs : list rd_event) : R :=
    match lo with
    | Some L => if L + 2 <=? n_read then process rec buf n_read L k evs
                else do_read rec buf n_read lo k evs
    | None =>
        if 2 <=? n_read then
          match nth_error buf 0, nth_error buf 1 with
          | Some h, Some l =>
              let L := be16 h l in
              if L + 2 <=? n_read then process rec buf n_read L k evs
              else do_read rec buf n_read (Some L) k evs
          | _, _ => Panic
          end
        else do_read rec buf n_read None k evs
    end.

  Fixpoint conn_loop (fuel : nat) (buf : bytes) (n_read : nat) (lo : option nat) (k : nat)
           (evs : list rd_event) : R :=
    match fuel with
    | O => Err OutOfFuel
    | S f => conn_step (conn_loop f) buf n_read lo k evs
    end.

  Definition ev_bytes (e : rd_event) : nat :=
    match e with RdData s _ => length s | _ => 0 end.
  Definition evs_bytes (evs : list rd_event) : nat := fold_right (fun e a => ev_bytes e + a) 0 evs.

  (* every iteration either consumes an event, or moves at least one queued octet into the
     buffer, or removes a message (>= 2 octets) from the buffer *)
  Definition tcp_fuel (evs : list rd_event) : nat := S (2 * evs_bytes evs + length evs).

  Definition run_tcp (evs : list rd_event) : R :=
    conn_loop (tcp_fuel evs) (repeat 0%N cap) 0 None 0 evs.
End Tcp.

(* The two providers: the same loop with the buffer sizes each source file allocates
   (Gen/IoConsts.v is re-extracted from src/io/blocking.rs and src/io/tokio.rs on every run). *)
Definition run_tcp_blocking (handler : bytes -> option bytes) (sd : nat -> bool) (evs : list rd_event) :=
  run_tcp handler (N.to_nat TCP_RECV_BUF_LEN_BLOCKING) (N.to_nat TCP_RESP_BUF_LEN_BLOCKING) sd evs.
Definition run_tcp_tokio (handler : bytes -> option bytes) (sd : nat -> bool) (evs : list rd_event) :=
  run_tcp handler (N.to_nat TCP_RECV_BUF_LEN_TOKIO) (N.to_nat TCP_RESP_BUF_LEN_TOKIO) sd evs.

(* Event lists the Tokio provider can see. *)
Definition tokio_event (e : rd_event) : bool :=
  match e with RdData _ true => false | RdIntr _ => false | _ => true end.
Definition tokio_events (evs : list rd_event) : bool := forallb tokio_event evs.

(* ------------------------------------------------------------------ UDP *)

Record dgram := { dg_payload : bytes; dg_src : N; dg_dst : N }.
  (* dg_src: the sender's socket address; dg_dst: the local address it was sent to
     (LocalAddr of socket.recv), both opaque here *)
Record usend := { us_payload : bytes; us_to : N; us_from : N }.

Inductive ud_event := UdRecv (d : dgram) | UdTimeout | UdIntr | UdErr.

Section Udp.
  Variable handler : bytes -> option bytes.  (* handle_message(.., Udp, ..) on the datagram alone *)
  Variable psize : nat.                      (* server.edns_udp_payload_size() as usize: both buffers *)

  (* body shared by blocking.rs run_udp_worker and the task spawned by tokio.rs run_udp_receiver *)
  Definition udp_one (d : dgram) : res fr_err (list usend) :=
    let received := firstn psize (dg_payload d) in    (* recv into a psize-octet buffer truncates *)
    match handler received with
    | None => Ok []
    | Some resp =>
        if psize <? length resp then Panic            (* &response_buf[0..response_len] *)
        else Ok [{| us_payload := resp; us_to := dg_src d; us_from := dg_dst d |}]
    end.

  (* blocking.rs run_udp_worker: one worker, events in order; [sd i] = is_shutting_down()
     at the top of iteration i.  An I/O error of recv ends the task (it is respawned by the
     thread group: a new run on the remaining events); send errors are logged and ignored. *)
  Fixpoint udp_blocking (sd : nat -> bool) (i : nat) (evs : list ud_event) : res fr_err (list usend) :=
    match evs with
    | [] => Ok []
    | e :: evs' =>
        if sd i then Ok []
        else match e with
        | UdTimeout | UdIntr => udp_blocking sd (S i) evs'
        | UdErr => Ok []
        | UdRecv d =>
            let* out := udp_one d in
            let* rest := udp_blocking sd (S i) evs' in
            Ok (out ++ rest)
        end
    end.

  (* tokio.rs run_udp_receiver: every received datagram is handled in its own spawned task
     with fresh buffers; the result lists the tasks in spawn order (the order in which their
     sends reach the wire is the scheduler's). *)
  Fixpoint udp_tokio (evs : list ud_event) : list (res fr_err (list usend)) :=
    match evs with
    | [] => []
    | UdRecv d :: evs' => udp_one d :: udp_tokio evs'
    | UdErr :: _ => []
    | _ :: evs' => udp_tokio evs'
    end.
End Udp.
