(* Model of /repo/src/rr/rdata_set.rs: RdataSetOwned (a Vec<u8> of length-prefixed
   RDATA, u16 in NATIVE byte order), its iterator, insert and from_iter.
   The byte order is a parameter [be]; nothing observable depends on it. *)
From QV Require Export Model.RdataM.

(* u16::to_ne_bytes / from_ne_bytes *)
Definition enc16 (be : bool) (n : N) : bytes :=
  if be then [(n / 256)%N; (n mod 256)%N] else [(n mod 256)%N; (n / 256)%N].
Definition dec16 (be : bool) (a b : N) : N := if be then (a * 256 + b)%N else (b * 256 + a)%N.

(* Iter::next: Some (rdata, rest of the cursor) | None *)
Definition iter_next (be : bool) (cursor : bytes) : option (bytes * bytes) :=
  match get_range cursor 0 2 with
  | Some [a; b] =>
    let len := N.to_nat (dec16 be a b) in
    match get_range cursor 2 (len + 2) with
    | Some rdata => Some (rdata, skipn (len + 2) cursor)
    | None => None
    end
  | _ => None
  end.

(* the whole iteration (fused: stops at the first None) *)
Fixpoint iter_all (fuel : nat) (be : bool) (cursor : bytes) : list bytes :=
  match fuel with
  | O => []
  | S f =>
    match iter_next be cursor with
    | Some (rdata, rest) => rdata :: iter_all f be rest
    | None => []
    end
  end.
Definition set_iter (be : bool) (inner : bytes) : list bytes := iter_all (S (length inner)) be inner.

(* the `for existing_rdata in self.iter()` loop of insert: true = an equal member exists *)
Fixpoint any_equal (c t : N) (rdata : bytes) (existing : list bytes) : res rd_err bool :=
  match existing with
  | [] => Ok false
  | x :: r =>
    let* e := equals c t rdata x in
    if e then Ok true else any_equal c t rdata r
  end.

(* RdataSetOwned::insert: new inner buffer and whether the RDATA was inserted *)
Definition set_insert (be : bool) (c t : N) (inner rdata : bytes) : res rd_err (bytes * bool) :=
  let* dup := any_equal c t rdata (set_iter be inner) in
  if dup then Ok (inner, false)
  else Ok (inner ++ enc16 be (N.of_nat (length rdata) mod 65536) ++ rdata, true).

(* RdataSetOwned::from_iter *)
Fixpoint from_iter_loop (be : bool) (c t : N) (acc : option bytes) (rdatas : list bytes)
  : res rd_err (option bytes) :=
  match rdatas with
  | [] => Ok acc
  | r :: rest =>
    let inner := match acc with Some i => i | None => [] end in
    let* (inner', _) := set_insert be c t inner r in
    from_iter_loop be c t (Some inner') rest
  end.
Definition from_iter (be : bool) (c t : N) (rdatas : list bytes) : res rd_err (option bytes) :=
  from_iter_loop be c t None rdatas.
