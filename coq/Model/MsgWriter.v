(* Model of /repo/src/message/writer.rs (the DNS message [Writer]) together with the RDATA
   component iterator of src/rr/rdata/mod.rs and [Ttl::from] of src/rr/ttl.rs.

   Same control flow and arithmetic as the Rust code.  Every slice/index/unwrap/usize
   subtraction that can fail is a [Panic] branch.  A Rust [Name] is modelled by the list of
   its non-root labels ([wname]); its accessors are [nm_len], [nm_wire], [nm_wire_to].
   A failing internal step returns the writer state it leaves behind ([Err (e, w')]),
   because [with_rollback] restores only some of the fields.

   Not modelled: the three signing TSIG modes (HMAC); only [TsigMode::Unsigned].
   usize additions are not checked for overflow (all operands are bounded by buffer sizes). *)
From QV Require Export Base.Res Base.Octets Gen.Consts Gen.WriterTab Model.NameWire.

(* ---------------------------------------------------------------- names *)

Definition wname := list bytes.                       (* non-root labels *)
Definition nm_len (n : wname) : nat := S (length n).   (* Name::len(): labels incl. root *)
Definition nm_lwire (ls : list bytes) : bytes := flat_map (fun l => N.of_nat (length l) :: l) ls.
Definition nm_wire (n : wname) : bytes := nm_lwire n ++ [0%N].   (* Name::wire_repr() *)
(* Name::wire_repr_to(k): panics if k > len *)
Definition nm_wire_to (n : wname) (k : nat) : option bytes :=
  if k =? nm_len n then Some (nm_wire n)
  else if nm_len n <? k then None
  else Some (nm_lwire (firstn k n)).
Definition nm_lower (n : wname) : wname := map (map lower) n.

(* labels of an uncompressed wire form (what Name::labels() yields for a parsed Box<Name>) *)
Fixpoint wire_labels (fuel : nat) (w : bytes) : list bytes :=
  match fuel with
  | O => []
  | S f =>
    match w with
    | [] => []
    | l :: r => if (l =? 0)%N then []
                else firstn (N.to_nat l) r :: wire_labels f (skipn (N.to_nat l) r)
    end
  end.
Definition labels_of_name (nm : name) : wname := wire_labels (length (n_wire nm)) (n_wire nm).

(* ---------------------------------------------------------------- state *)

Inductive werr :=
| CountOverflow | Truncation | OutOfOrder | InvalidRdata | NotEdns | AlreadyEdns
| ExtendedRcodeOverflow | NotTsig | AlreadyTsig | NotSignedTsig
| WOutOfFuel.     (* model only *)

Inductive section := SecQuestion | SecAnswer | SecAuthority | SecAdditional.
Inductive cmode := Standard | CasePreserving | Disabled.

Record prior := mkPrior { p_ptr : nat; p_len : nat }.       (* HintPointer (1..=16383), name.len() as u8 *)
Record ednsr := mkEdns { e_udp : N; e_upper : N }.
(* Tsig { mode: Unsigned{algorithm}, reserved_len, rr: PreparedTsigRr } *)
Record tsigr := mkTsig {
  t_alg : wname; t_reserved : nat; t_key : wname; t_time : bytes; t_fudge : N;
  t_origid : N; t_error : N; t_server_time : bytes }.

Record writer := mkW {
  w_buf : bytes; w_cursor : nat; w_limit : nat; w_avail : nat; w_rr_start : nat;
  w_section : section; w_qd : N; w_an : N; w_ns : N; w_ar : N;
  w_qname : option prior; w_mro : option prior; w_mrn : option prior;
  w_mode : cmode; w_edns : option ednsr; w_tsig : option tsigr }.

Definition set_buf w x := mkW x (w_cursor w) (w_limit w) (w_avail w) (w_rr_start w) (w_section w) (w_qd w) (w_an w) (w_ns w) (w_ar w) (w_qname w) (w_mro w) (w_mrn w) (w_mode w) (w_edns w) (w_tsig w).
Definition set_cursor w x := mkW (w_buf w) x (w_limit w) (w_avail w) (w_rr_start w) (w_section w) (w_qd w) (w_an w) (w_ns w) (w_ar w) (w_qname w) (w_mro w) (w_mrn w) (w_mode w) (w_edns w) (w_tsig w).
Definition set_limit_avail w l a := mkW (w_buf w) (w_cursor w) l a (w_rr_start w) (w_section w) (w_qd w) (w_an w) (w_ns w) (w_ar w) (w_qname w) (w_mro w) (w_mrn w) (w_mode w) (w_edns w) (w_tsig w).
Definition set_avail w a := set_limit_avail w (w_limit w) a.
Definition set_rr_start w x := mkW (w_buf w) (w_cursor w) (w_limit w) (w_avail w) x (w_section w) (w_qd w) (w_an w) (w_ns w) (w_ar w) (w_qname w) (w_mro w) (w_mrn w) (w_mode w) (w_edns w) (w_tsig w).
Definition set_section w x := mkW (w_buf w) (w_cursor w) (w_limit w) (w_avail w) (w_rr_start w) x (w_qd w) (w_an w) (w_ns w) (w_ar w) (w_qname w) (w_mro w) (w_mrn w) (w_mode w) (w_edns w) (w_tsig w).
Definition set_counts w qd an ns ar := mkW (w_buf w) (w_cursor w) (w_limit w) (w_avail w) (w_rr_start w) (w_section w) qd an ns ar (w_qname w) (w_mro w) (w_mrn w) (w_mode w) (w_edns w) (w_tsig w).
Definition set_qname w x := mkW (w_buf w) (w_cursor w) (w_limit w) (w_avail w) (w_rr_start w) (w_section w) (w_qd w) (w_an w) (w_ns w) (w_ar w) x (w_mro w) (w_mrn w) (w_mode w) (w_edns w) (w_tsig w).
Definition set_mro w x := mkW (w_buf w) (w_cursor w) (w_limit w) (w_avail w) (w_rr_start w) (w_section w) (w_qd w) (w_an w) (w_ns w) (w_ar w) (w_qname w) x (w_mrn w) (w_mode w) (w_edns w) (w_tsig w).
Definition set_mrn w x := mkW (w_buf w) (w_cursor w) (w_limit w) (w_avail w) (w_rr_start w) (w_section w) (w_qd w) (w_an w) (w_ns w) (w_ar w) (w_qname w) (w_mro w) x (w_mode w) (w_edns w) (w_tsig w).
Definition set_mode w x := mkW (w_buf w) (w_cursor w) (w_limit w) (w_avail w) (w_rr_start w) (w_section w) (w_qd w) (w_an w) (w_ns w) (w_ar w) (w_qname w) (w_mro w) (w_mrn w) x (w_edns w) (w_tsig w).
Definition set_edns_f w x := mkW (w_buf w) (w_cursor w) (w_limit w) (w_avail w) (w_rr_start w) (w_section w) (w_qd w) (w_an w) (w_ns w) (w_ar w) (w_qname w) (w_mro w) (w_mrn w) (w_mode w) x (w_tsig w).
Definition set_tsig_f w x := mkW (w_buf w) (w_cursor w) (w_limit w) (w_avail w) (w_rr_start w) (w_section w) (w_qd w) (w_an w) (w_ns w) (w_ar w) (w_qname w) (w_mro w) (w_mrn w) (w_mode w) (w_edns w) x.

(* internal steps: the state left behind travels with the error *)
Definition M (A : Type) := res (werr * writer) (A * writer).
Definition lift {A} (r : res werr A) (w : writer) : M A :=
  match r with Ok a => Ok (a, w) | Err e => Err (e, w) | Panic => Panic end.

(* ---------------------------------------------------------------- octets *)

Definition header_size : nat := N.to_nat HEADER_SIZE.
Definition pointer_max : nat := N.to_nat POINTER_MAX.
Definition opt_record_size : nat := N.to_nat OPT_RECORD_SIZE.
Definition hint_vec_size : nat := N.to_nat HINT_POINTER_VEC_SIZE.

Definition be16 (v : N) : bytes := [(v / 256) mod 256; v mod 256]%N.
Definition be32 (v : N) : bytes :=
  [(v / 16777216) mod 256; (v / 65536) mod 256; (v / 256) mod 256; v mod 256]%N.

(* self.octets[position..position + data.len()].copy_from_slice(data) *)
Definition buf_write (b : bytes) (pos : nat) (data : bytes) : option bytes :=
  if pos + length data <=? length b
  then Some (firstn pos b ++ data ++ skipn (pos + length data) b) else None.

(* Writer::write / write_u16: "performs no bounds checking" = the slice index panics *)
Definition w_write (w : writer) (pos : nat) (data : bytes) : res werr writer :=
  match buf_write (w_buf w) pos data with
  | Some b => Ok (set_buf w b)
  | None => Panic
  end.

(* self.octets[i] op= ... on a header octet *)
Definition w_modify (w : writer) (i : N) (f : N -> N) : res werr writer :=
  match nth_error (w_buf w) (N.to_nat i) with
  | Some x => w_write w (N.to_nat i) [f x]
  | None => Panic
  end.
Definition set_bit (mask : N) (v : bool) (x : N) : N :=
  if v then N.lor x mask else N.land x (255 - mask).
Definition w_set_flag (w : writer) (byte mask : N) (v : bool) : res werr writer :=
  w_modify w byte (set_bit mask v).

(* try_push: `self.available - self.cursor` is a checked usize subtraction *)
Definition try_push (data : bytes) (w : writer) : M unit :=
  if w_avail w <? w_cursor w then Panic
  else if length data <=? w_avail w - w_cursor w then
    match w_write w (w_cursor w) data with
    | Ok w' => Ok (tt, set_cursor w' (w_cursor w + length data))
    | Err e => Err (e, w)
    | Panic => Panic
    end
  else Err (Truncation, w).
Definition try_push_u16 (v : N) := try_push (be16 v).
Definition try_push_u32 (v : N) := try_push (be32 v).

(* HintPointer::new *)
Definition hp_new (c : nat) : option nat :=
  if (c <=? pointer_max) && negb (c =? 0) then Some c else None.
(* PriorName::new(pointer, name): len = name.len() as u8 *)
Definition prior_new (p : nat) (n : wname) : prior := mkPrior p (nm_len n mod 256).
(* 0xc000 | pointer.get() *)
Definition ptr_word (p : nat) : N := N.lor 49152 (N.of_nat p).

(* ---------------------------------------------------------------- names into the message *)

Definition write_uncompressed_name (n : wname) (w : writer) : M (option prior) :=
  let pointer := hp_new (w_cursor w) in
  let* (_, w1) := try_push (nm_wire n) w in
  Ok (option_map (fun p => prior_new p n) pointer, w1).

(* move_to_next_real_label: follows pointers until a non-pointer label octet *)
Fixpoint next_real (fuel : nat) (b : bytes) (p : nat) : res werr nat :=
  match fuel with
  | O => Err WOutOfFuel
  | S f =>
    match nth_error b p with
    | None => Panic
    | Some len =>
      if is_pointer_octet len then
        match nth_error b (p + 1) with
        | None => Panic
        | Some lo =>
          (* ((len & 0x3f) << 8) | lo *)
          let nxt := N.to_nat (N.land len 63 * 256 + lo) in
          if nxt <? p then next_real f b nxt
          else Panic       (* "invalid pointer found during compression; this is a bug" *)
        end
      else Ok p
    end
  end.
Definition move_to_next_real_label (b : bytes) (p : nat) : res werr nat := next_real (S p) b p.

Record pctx := mkCtx { c_start : nat; c_ptr : nat; c_match : option (nat * nat) }.

Fixpoint skip_labels (n : nat) (b : bytes) (p : nat) : res werr nat :=
  match n with
  | O => Ok p
  | S n' =>
    match nth_error b p with
    | None => Panic
    | Some l =>
      let* p2 := move_to_next_real_label b (p + (N.to_nat l + 1)) in
      skip_labels n' b p2
    end
  end.

Definition build_prior_ctx (b : bytes) (clen : nat) (pr : prior) : res werr pctx :=
  let* p := (if clen <? p_len pr then skip_labels (p_len pr - clen) b (p_ptr pr)
             else Ok (p_ptr pr)) in
  Ok (mkCtx (clen - p_len pr) p None).

Definition opt_build (b : bytes) (clen : nat) (o : option prior) : res werr (option pctx) :=
  match o with
  | None => Ok None
  | Some pr => let* c := build_prior_ctx b clen pr in Ok (Some c)
  end.

(* [u8]::eq / eq_ignore_ascii_case *)
Fixpoint bytes_eqb (a b : bytes) : bool :=
  match a, b with
  | [], [] => true
  | x :: a', y :: b' => (x =? y)%N && bytes_eqb a' b'
  | _, _ => false
  end.
Definition labels_equal (case_preserving : bool) (a b : bytes) : bool :=
  if case_preserving then bytes_eqb a b else bytes_eqb (map lower a) (map lower b).

Definition step_ctx (b : bytes) (cp : bool) (column : nat) (lab : bytes) (c : pctx)
  : res werr pctx :=
  if column <? c_start c then Ok c
  else
    match nth_error b (c_ptr c) with
    | None => Panic
    | Some l =>
      let e := c_ptr c + 1 + N.to_nat l in
      if length b <? e then Panic
      else
        let prior_label := slice b (c_ptr c + 1) e in
        let m := match hp_new (c_ptr c) with
                 | Some pp =>
                   if labels_equal cp lab prior_label
                   then match c_match c with Some x => Some x | None => Some (column, pp) end
                   else None
                 | None => None
                 end in
        let* p2 := move_to_next_real_label b e in
        Ok (mkCtx (c_start c) p2 m)
    end.

Definition opt_step (b : bytes) (cp : bool) (column : nat) (lab : bytes) (o : option pctx)
  : res werr (option pctx) :=
  match o with
  | None => Ok None
  | Some c => let* c' := step_ctx b cp column lab c in Ok (Some c')
  end.

Definition dedupe (cs : option pctx * option pctx) : option pctx * option pctx :=
  match cs with
  | (Some a, Some b) =>
    if c_ptr a =? c_ptr b then
      match c_match a, c_match b with
      | Some (sa, _), Some (sb, _) => if sa <=? sb then (Some a, None) else (None, Some b)
      | Some _, None => (Some a, None)
      | None, Some _ => (None, Some b)
      | None, None => (Some a, None)
      end
    else cs
  | _ => cs
  end.

Fixpoint scan (b : bytes) (cp : bool) (column : nat) (labs : list bytes)
         (cs : option pctx * option pctx) : res werr (option pctx * option pctx) :=
  match labs with
  | [] => Ok cs
  | lab :: rest =>
    let '(c0, c1) := dedupe cs in
    let* c0' := opt_step b cp column lab c0 in
    let* c1' := opt_step b cp column lab c1 in
    scan b cp (S column) rest (c0', c1')
  end.

Definition ctx_match (o : option pctx) : option (nat * nat) :=
  match o with Some c => c_match c | None => None end.
Definition longest_match (cs : option pctx * option pctx) : option (nat * nat) :=
  match ctx_match (fst cs), ctx_match (snd cs) with
  | Some a, Some b => if fst b <? fst a then Some b else Some a
  | Some a, None => Some a
  | None, Some b => Some b
  | None, None => None
  end.

Definition or_else {A} (a b : option A) : option A := match a with Some _ => a | None => b end.

Definition write_compressed_unhinted_name (n : wname) (w : writer) : M (option prior) :=
  let owner_or_qname := or_else (w_mro w) (w_qname w) in
  match owner_or_qname, w_mrn w with
  | None, None => write_uncompressed_name n w
  | _, _ =>
    let cp := match w_mode w with CasePreserving => true | _ => false end in
    let* (cs, _) := lift (let* c0 := opt_build (w_buf w) (nm_len n) owner_or_qname in
                          let* c1 := opt_build (w_buf w) (nm_len n) (w_mrn w) in
                          scan (w_buf w) cp 0 n (c0, c1)) w in
    match longest_match cs with
    | Some (start_column, pp) =>
      if start_column =? 0 then
        let* (_, w1) := try_push_u16 (ptr_word pp) w in
        Ok (Some (prior_new pp n), w1)
      else
        let pointer := hp_new (w_cursor w) in
        match nm_wire_to n start_column with
        | None => Panic
        | Some pre =>
          let* (_, w1) := try_push pre w in
          let* (_, w2) := try_push_u16 (ptr_word pp) w1 in
          Ok (option_map (fun p => prior_new p n) pointer, w2)
        end
    | None => write_uncompressed_name n w
    end
  end.

Definition write_unhinted_name (n : wname) (w : writer) : M (option prior) :=
  match w_mode w with
  | Disabled => write_uncompressed_name n w
  | _ => if 2 <? length (nm_wire n) then write_compressed_unhinted_name n w
         else write_uncompressed_name n w
  end.

Inductive hint := HQname | HOwner | HRdata | HExplicit (p : nat) | HNone.

Definition push_prior_ptr (pr : prior) (w : writer) : M (option prior) :=
  let* (_, w1) := try_push_u16 (ptr_word (p_ptr pr)) w in Ok (Some pr, w1).

Definition write_hinted_name (h : hint) (n : wname) (w : writer) : M (option prior) :=
  match w_mode w with
  | Disabled => write_uncompressed_name n w
  | _ =>
    if length (nm_wire n) <=? 2 then write_uncompressed_name n w
    else match w_mode w with
    | CasePreserving => write_compressed_unhinted_name n w
    | _ =>
      match h with
      | HQname => match w_qname w with
                  | Some pr => push_prior_ptr pr w
                  | None => write_compressed_unhinted_name n w end
      | HOwner => match w_mro w with
                  | Some pr => push_prior_ptr pr w
                  | None => write_compressed_unhinted_name n w end
      | HRdata => match w_mrn w with
                  | Some pr => push_prior_ptr pr w
                  | None => write_compressed_unhinted_name n w end
      | HExplicit p => if p <? w_cursor w then push_prior_ptr (prior_new p n) w
                       else write_compressed_unhinted_name n w
      | HNone => write_compressed_unhinted_name n w
      end
    end
  end.

(* ---------------------------------------------------------------- RDATA components *)

Fixpoint lookup_ctypes (tab : list (N * option N * list ctype)) (class ty : N) : list ctype :=
  match tab with
  | [] => []
  | (t, g, cts) :: rest =>
    if (t =? ty)%N && match g with None => true | Some c => (c =? class)%N end then cts
    else lookup_ctypes rest class ty
  end.
Definition component_types (class ty : N) : list ctype := lookup_ctypes COMPONENT_TABLE class ty.

(* HintPointerVec::push: silently dropped when full *)
Definition hvec := list (option nat).
Definition hv_push (v : option hvec) (x : option prior) : option hvec :=
  match v with
  | None => None
  | Some l => if length l <? hint_vec_size then Some (l ++ [option_map p_ptr x]) else Some l
  end.

(* the `for component in rdata.components(class, rr_type)` loop of add_rr; the iterator is
   lazy, so an invalid later component is only seen after the earlier ones were written *)
Fixpoint write_components (cts : list ctype) (rdata : bytes) (v : option hvec) (w : writer)
  : M (option hvec) :=
  match cts with
  | [] => if length rdata =? 0 then Ok (v, w)
          else let* (_, w1) := try_push rdata w in Ok (v, w1)
  | CtFixed n :: rest =>
    if length rdata <? n then Err (InvalidRdata, w)
    else let* (_, w1) := try_push (firstn n rdata) w in
         write_components rest (skipn n rdata) v w1
  | ct :: rest =>
    match parse_uncompressed_name rdata false with
    | Panic => Panic
    | Err _ => Err (InvalidRdata, w)
    | Ok (nm, len) =>
      let n := labels_of_name nm in
      let* (pr, w1) := (match ct with
                        | CtCompressible => write_unhinted_name n w
                        | _ => write_uncompressed_name n w end) in
      let w2 := set_mrn w1 pr in
      write_components rest (skipn len rdata) (hv_push v pr) w2
    end
  end.

(* ---------------------------------------------------------------- add_rr / add_rrset *)

Definition add_rr (h : hint) (owner : wname) (ty class ttl : N) (rdata : bytes)
           (v : option hvec) (w : writer) : M (option hvec) :=
  let* (pr, w1) := write_hinted_name h owner w in
  let w1 := set_mro w1 pr in
  let* (_, w2) := try_push_u16 ty w1 in
  let* (_, w3) := try_push_u16 class w2 in
  let* (_, w4) := try_push_u32 ttl w3 in
  if w_avail w4 <? w_cursor w4 then Panic
  else if w_avail w4 - w_cursor w4 <? 2 then Err (Truncation, w4)
  else
    let rdlength_start := w_cursor w4 in
    let w5 := set_cursor w4 (w_cursor w4 + 2) in
    let* (v', w6) := write_components (component_types class ty) rdata v w5 in
    if w_cursor w6 <? rdlength_start + 2 then Panic
    else
      let rdlength := w_cursor w6 - rdlength_start - 2 in
      let* (w7, _) := lift (w_write w6 rdlength_start (be16 (N.of_nat rdlength mod 65536))) w6 in
      Ok (v', w7).

Fixpoint add_rrset_loop (h : hint) (owner : wname) (ty class ttl : N) (rdatas : list bytes)
         (v : option hvec) (n_added : nat) (w : writer) : M (option hvec * nat) :=
  match rdatas with
  | [] => Ok ((v, n_added), w)
  | rd :: rest =>
    let* (v', w1) := add_rr h owner ty class ttl rd v w in
    add_rrset_loop HOwner owner ty class ttl rest v' (S n_added) w1
  end.

Definition checked_add16 (a b : N) : option N :=
  if (65535 <? a + b)%N then None else Some (a + b)%N.

Definition with_rollback {A} (f : writer -> M A) (w : writer) : M A :=
  match f w with
  | Ok r => Ok r
  | Err (e, w') =>
    Err (e, set_mrn (set_mro (set_qname (set_cursor (set_section w' (w_section w)) (w_cursor w))
                                        (w_qname w)) (w_mro w)) (w_mrn w))
  | Panic => Panic
  end.

Definition change_section (target : section) (w : writer) : M unit :=
  match target, w_section w with
  | SecAnswer, SecQuestion => Ok (tt, set_section w SecAnswer)
  | SecAnswer, SecAnswer => Ok (tt, w)
  | SecAuthority, (SecQuestion | SecAnswer) => Ok (tt, set_section w SecAuthority)
  | SecAuthority, SecAuthority => Ok (tt, w)
  | SecAdditional, _ => Ok (tt, set_section w SecAdditional)
  | _, _ => Err (OutOfOrder, w)
  end.

Definition sec_count (s : section) (w : writer) : N :=
  match s with SecAnswer => w_an w | SecAuthority => w_ns w | SecAdditional => w_ar w
             | SecQuestion => w_qd w end.
Definition set_sec_count (s : section) (w : writer) (x : N) : writer :=
  match s with
  | SecAnswer => set_counts w (w_qd w) x (w_ns w) (w_ar w)
  | SecAuthority => set_counts w (w_qd w) (w_an w) x (w_ar w)
  | SecAdditional => set_counts w (w_qd w) (w_an w) (w_ns w) x
  | SecQuestion => set_counts w x (w_an w) (w_ns w) (w_ar w)
  end.

(* Ttl::from(u32) *)
Definition ttl_from (raw : N) : N := if (TTL_MAX <? raw)%N then 0%N else raw.

(* add_{answer,authority,additional}_rr *)
Definition add_section_rr (s : section) (h : hint) (owner : wname) (ty class ttl : N)
           (rdata : bytes) (v : option hvec) : writer -> M (option hvec) :=
  with_rollback (fun w =>
    let* (_, w1) := change_section s w in
    let* (v', w2) := add_rr h owner ty class ttl rdata v w1 in
    match checked_add16 (sec_count s w2) 1 with
    | Some c => Ok (v', set_sec_count s w2 c)
    | None => Err (CountOverflow, w2)
    end).

Definition add_section_rrset (s : section) (h : hint) (owner : wname) (ty class ttl : N)
           (rdatas : list bytes) (v : option hvec) : writer -> M (option hvec) :=
  with_rollback (fun w =>
    let* (_, w1) := change_section s w in
    let* (r, w2) := add_rrset_loop h owner ty class ttl rdatas v 0 w1 in
    let '(v', n_added) := r in
    if (65535 <? N.of_nat n_added)%N then Err (CountOverflow, w2)
    else match checked_add16 (sec_count s w2) (N.of_nat n_added) with
         | Some c => Ok (v', set_sec_count s w2 c)
         | None => Err (CountOverflow, w2)
         end).

Definition add_question (qname : wname) (qtype qclass : N) (w : writer) : M unit :=
  match w_section w with
  | SecQuestion =>
    match checked_add16 (w_qd w) 1 with
    | Some new_qd =>
      let* (_, w1) := with_rollback (fun w =>
          let* (pr, w1) := write_unhinted_name qname w in
          let w1 := if (w_qd w1 =? 0)%N then set_qname w1 pr else w1 in
          let* (_, w2) := try_push_u16 qtype w1 in
          try_push_u16 qclass w2) w in
      Ok (tt, set_rr_start (set_counts w1 new_qd (w_an w1) (w_ns w1) (w_ar w1)) (w_cursor w1))
    | None => Err (CountOverflow, w)
    end
  | _ => Err (OutOfOrder, w)
  end.

(* ---------------------------------------------------------------- construction, limits *)

Definition writer_new (buf : bytes) (limit : nat) : res werr writer :=
  let limit := Nat.min limit (length buf) in
  if limit <? header_size then Err Truncation
  else if length buf <? header_size then Panic
  else Ok (mkW (repeat 0%N header_size ++ skipn header_size buf) header_size limit limit
               header_size SecQuestion 0 0 0 0 None None None Standard None None).

Definition set_limit (new_limit : nat) (w : writer) : res werr writer :=
  if w_limit w <=? new_limit then
    let nl := Nat.min new_limit (length (w_buf w)) in
    if nl <? w_limit w then Panic
    else Ok (set_limit_avail w nl (w_avail w + (nl - w_limit w)))
  else
    if w_cursor w + w_limit w <? w_avail w then Panic
    else
      let nl := Nat.max new_limit (w_cursor w + w_limit w - w_avail w) in
      if w_limit w <? nl then Panic
      else let decrease := w_limit w - nl in
           if w_avail w <? decrease then Panic
           else Ok (set_limit_avail w nl (w_avail w - decrease)).

(* ---------------------------------------------------------------- header *)

Definition set_id (id : N) (w : writer) : res werr writer := w_write w (N.to_nat ID_START) (be16 id).
Definition set_qr := fun v w => w_set_flag w QR_BYTE QR_MASK v.
Definition set_aa := fun v w => w_set_flag w AA_BYTE AA_MASK v.
Definition set_tc := fun v w => w_set_flag w TC_BYTE TC_MASK v.
Definition set_rd := fun v w => w_set_flag w RD_BYTE RD_MASK v.
Definition set_ra := fun v w => w_set_flag w RA_BYTE RA_MASK v.
(* octets[OPCODE_BYTE] &= !OPCODE_MASK; octets[OPCODE_BYTE] |= opcode << OPCODE_SHIFT *)
Definition set_opcode (op : N) (w : writer) : res werr writer :=
  w_modify w OPCODE_BYTE (fun x => N.lor (N.land x (255 - OPCODE_MASK))
                                         ((op * 2 ^ OPCODE_SHIFT) mod 256)).
Definition clear_upper (w : writer) : writer :=
  match w_edns w with
  | Some e => set_edns_f w (Some (mkEdns (e_udp e) 0))
  | None => w
  end.
Definition set_rcode (rc : N) (w : writer) : res werr writer :=
  let* w1 := w_modify w RCODE_BYTE (fun x => N.lor (N.land x (255 - RCODE_MASK)) rc) in
  Ok (clear_upper w1).
Definition set_extended_rcode (raw : N) (w : writer) : M unit :=
  match w_edns w with
  | Some e =>
    if (4095 <? raw)%N then Err (ExtendedRcodeOverflow, w)
    else
      let* (w1, _) := lift (w_modify w RCODE_BYTE
                         (fun x => N.lor (N.land x (255 - RCODE_MASK)) (N.land (raw mod 256) RCODE_MASK))) w in
      Ok (tt, set_edns_f w1 (Some (mkEdns (e_udp e) ((raw / 16) mod 256))))
  | None => Err (NotEdns, w)
  end.

(* the getters, in the order id qr opcode aa tc rd ra rcode extended_rcode qd an ns ar *)
Definition hdr_octet (w : writer) (i : N) : res werr N :=
  match nth_error (w_buf w) (N.to_nat i) with Some x => Ok x | None => Panic end.
Definition flag_of (x mask : N) : N := if (N.land x mask =? 0)%N then 0%N else 1%N.
Definition getters (w : writer) : res werr (list N) :=
  let* b0 := hdr_octet w ID_START in
  let* b1 := hdr_octet w (ID_START + 1) in
  let* qr := hdr_octet w QR_BYTE in
  let* opc := hdr_octet w OPCODE_BYTE in
  let* aa := hdr_octet w AA_BYTE in
  let* tc := hdr_octet w TC_BYTE in
  let* rd := hdr_octet w RD_BYTE in
  let* ra := hdr_octet w RA_BYTE in
  let* rcb := hdr_octet w RCODE_BYTE in
  let rc := N.land rcb RCODE_MASK in
  let xrc := match w_edns w with
             | Some e => N.lor (e_upper e * 16) rc
             | None => rc end in
  Ok [b0 * 256 + b1; flag_of qr QR_MASK; N.land opc OPCODE_MASK / 2 ^ OPCODE_SHIFT;
      flag_of aa AA_MASK; flag_of tc TC_MASK; flag_of rd RD_MASK; flag_of ra RA_MASK;
      rc; xrc; w_qd w; w_an w; w_ns w; w_ar w]%N.

(* ---------------------------------------------------------------- clear_rrs, EDNS, TSIG *)

Definition clear_rrs (w : writer) : writer :=
  let ar := ((if w_edns w then 1 else 0) + (if w_tsig w then 1 else 0))%N in
  set_mrn (set_mro (set_section (set_cursor (set_counts w (w_qd w) 0 0 ar) (w_rr_start w))
                                SecQuestion) None) None.

Definition set_edns (udp : N) (w : writer) : M unit :=
  match w_edns w with
  | Some _ => Err (AlreadyEdns, w)
  | None =>
    if w_avail w <? w_cursor w + opt_record_size then Err (Truncation, w)
    else match checked_add16 (w_ar w) 1 with
         | Some ar =>
           Ok (tt, set_edns_f (set_avail (set_counts w (w_qd w) (w_an w) (w_ns w) ar)
                                         (w_avail w - opt_record_size))
                              (Some (mkEdns udp 0)))
         | None => Err (CountOverflow, w)
         end
  end.

Definition badtime : N := 18.
(* PreparedTsigRr::unsigned_len *)
Definition tsig_unsigned_len (key alg : wname) (error : N) : nat :=
  length (nm_wire key) + length (nm_wire alg) + 26 + (if (error =? badtime)%N then 6 else 0).

Definition set_tsig (alg key : wname) (time : bytes) (fudge origid error : N) (stime : bytes)
           (w : writer) : M unit :=
  match w_tsig w with
  | Some _ => Err (AlreadyTsig, w)
  | None =>
    let reserved := tsig_unsigned_len key alg error in
    if w_avail w <? w_cursor w + reserved then Err (Truncation, w)
    else match checked_add16 (w_ar w) 1 with
         | Some ar =>
           Ok (tt, set_tsig_f (set_avail (set_counts w (w_qd w) (w_an w) (w_ns w) ar)
                                         (w_avail w - reserved))
                              (Some (mkTsig alg reserved key time fudge origid error stime)))
         | None => Err (CountOverflow, w)
         end
  end.

Definition update_time_signed (time : bytes) (w : writer) : M unit :=
  match w_tsig w with
  | Some t => Ok (tt, set_tsig_f w (Some (mkTsig (t_alg t) (t_reserved t) (t_key t) time (t_fudge t)
                                                 (t_origid t) (t_error t) (t_server_time t))))
  | None => Err (NotTsig, w)
  end.

(* PreparedTsigRr::unsigned -> serialize_tsig_unchecked with an empty MAC *)
Definition tsig_unsigned_rdata (t : tsigr) : bytes :=
  let other := if (t_error t =? badtime)%N then t_server_time t else [] in
  nm_wire (t_alg t) ++ t_time t ++ be16 (t_fudge t) ++ be16 0 ++ be16 (t_origid t)
          ++ be16 (t_error t) ++ be16 (N.of_nat (length other)) ++ other.

(* .unwrap() of the add_rr results in finish *)
Definition unwrap_w {A} (r : M A) : res werr writer :=
  match r with Ok (_, w) => Ok w | _ => Panic end.

Definition qclass_any : N := 255.

(* finish_with_mac for TsigMode::Unsigned / no TSIG: final length and the buffer.
   After the fix: commit the OPT TTL is written as the raw 32-bit value
   (upper bits of the extended RCODE << 24), not through Ttl::from. *)
Definition finish_gen (opt_ttl : N -> N) (w : writer) : res werr (nat * bytes) :=
  let* w := w_write w (N.to_nat QDCOUNT_START) (be16 (w_qd w)) in
  let* w := w_write w (N.to_nat ANCOUNT_START) (be16 (w_an w)) in
  let* w := w_write w (N.to_nat NSCOUNT_START) (be16 (w_ns w)) in
  let* w := w_write w (N.to_nat ARCOUNT_START) (be16 (w_ar w)) in
  let* w := match w_edns w with
            | Some e =>
              let w := set_avail w (w_avail w + opt_record_size) in
              unwrap_w (add_rr HNone [] TYPE_OPT (e_udp e) (opt_ttl (e_upper e * 16777216)%N) [] None w)
            | None => Ok w
            end in
  let* w := match w_tsig w with
            | Some t =>
              let rdata := tsig_unsigned_rdata t in
              let w := set_avail (set_tsig_f w None) (w_avail w + t_reserved t) in
              unwrap_w (add_rr HNone (t_key t) TYPE_TSIG qclass_any (ttl_from 0) rdata None w)
            | None => Ok w
            end in
  Ok (w_cursor w, w_buf w).

Definition finish := finish_gen (fun x => x).
(* the code as it was before the fix: commit *)
Definition finish_prefix := finish_gen ttl_from.

(* ---------------------------------------------------------------- templates *)

(* into_template + try_from_template(new buffer): reserved = limit - available *)
Definition retemplate (newbuf : bytes) (w : writer) : res werr writer :=
  if length (w_buf w) <? w_cursor w then Panic                (* self.octets[0..self.cursor] *)
  else if w_limit w <? w_avail w then Panic                    (* self.limit - self.available *)
  else
    let reserved := w_limit w - w_avail w in
    let cursor := w_cursor w in
    if length newbuf <? cursor + reserved then Err Truncation
    else
      let limit := Nat.min (w_limit w) (length newbuf) in
      if limit <? reserved then Panic
      else if length newbuf <? cursor then Panic
      else Ok (set_limit_avail (set_buf w (firstn cursor (w_buf w) ++ skipn cursor newbuf))
                               limit (limit - reserved)).

(* try_from_template_as_tsig_subsequent: only the two failing paths exist without a signing mode *)
Definition template_subsequent_err (w : writer) : werr :=
  match w_tsig w with Some _ => NotSignedTsig | None => NotTsig end.

(* ---------------------------------------------------------------- operation language *)

Inductive hintsrc := HsQname | HsOwner | HsRdata | HsReg (reg idx : nat) | HsNone.

Inductive wop :=
| OSetId (v : N) | OSetQr (b : bool) | OSetOpcode (v : N) | OSetAa (b : bool) | OSetTc (b : bool)
| OSetRd (b : bool) | OSetRa (b : bool) | OSetRcode (v : N) | OSetXrcode (v : N)
| OAddQuestion (n : wname) (qtype qclass : N)
| OAddRr (s : section) (h : hintsrc) (n : wname) (ty class ttl : N) (rdata : bytes) (vec : bool)
| OAddRrset (s : section) (h : hintsrc) (n : wname) (ty class ttl : N) (rdatas : list bytes) (vec : bool)
| OSetLimit (l : nat) | OSetMode (m : cmode) | OSetEdns (udp : N)
| OSetTsig (alg key : wname) (time : bytes) (fudge origid error : N) (stime : bytes)
| OUpdateTime (time : bytes) | OClearRrs
| OTemplate (newbuf : bytes) | OTemplateSubsequent
| OGet.

(* outcome of one operation as the caller sees it *)
Inductive outcome := RUnit | RErr (e : werr) | RVals (l : list N).

Record dstate := mkD { d_w : writer; d_regs : list hvec }.

(* HintedName::from_hint_pointer_vec *)
Definition resolve_hint (regs : list hvec) (h : hintsrc) : hint :=
  match h with
  | HsQname => HQname | HsOwner => HOwner | HsRdata => HRdata | HsNone => HNone
  | HsReg r i => match nth_error regs r with
                 | Some v => match nth_error v i with
                             | Some (Some p) => HExplicit p
                             | _ => HNone end
                 | None => HNone end
  end.

Definition of_M {A} (d : dstate) (r : M A) : res werr (dstate * outcome) :=
  match r with
  | Ok (_, w) => Ok (mkD w (d_regs d), RUnit)
  | Err (e, w) => Ok (mkD w (d_regs d), RErr e)
  | Panic => Panic
  end.
Definition of_R (d : dstate) (r : res werr writer) : res werr (dstate * outcome) :=
  match r with
  | Ok w => Ok (mkD w (d_regs d), RUnit)
  | Err e => Ok (d, RErr e)
  | Panic => Panic
  end.
Definition of_Mv (d : dstate) (vec : bool) (r : M (option hvec)) : res werr (dstate * outcome) :=
  match r with
  | Ok (v, w) => Ok (mkD w (d_regs d ++ match v with Some l => [l] | None => [] end), RUnit)
  | Err (e, w) => Ok (mkD w (d_regs d ++ if vec then [[]] else []), RErr e)
  | Panic => Panic
  end.

(* One operation.  A failed RR operation hands back an unusable (cleared) vector to the
   register file: the caller's vector may hold pointers of the rolled-back attempt, which the
   API contract forbids using. *)
Definition step (d : dstate) (o : wop) : res werr (dstate * outcome) :=
  let w := d_w d in
  match o with
  | OSetId v => of_R d (set_id v w)
  | OSetQr b => of_R d (set_qr b w)
  | OSetOpcode v => of_R d (set_opcode v w)
  | OSetAa b => of_R d (set_aa b w)
  | OSetTc b => of_R d (set_tc b w)
  | OSetRd b => of_R d (set_rd b w)
  | OSetRa b => of_R d (set_ra b w)
  | OSetRcode v => of_R d (set_rcode v w)
  | OSetXrcode v => of_M d (set_extended_rcode v w)
  | OAddQuestion n qt qc => of_M d (add_question n qt qc w)
  | OAddRr s h n ty cl ttl rd vec =>
    of_Mv d vec (add_section_rr s (resolve_hint (d_regs d) h) n ty cl (ttl_from ttl) rd
                                (if vec then Some [] else None) w)
  | OAddRrset s h n ty cl ttl rds vec =>
    of_Mv d vec (add_section_rrset s (resolve_hint (d_regs d) h) n ty cl (ttl_from ttl) rds
                                   (if vec then Some [] else None) w)
  | OSetLimit l => of_R d (set_limit l w)
  | OSetMode m => Ok (mkD (set_mode w m) (d_regs d), RUnit)
  | OSetEdns udp => of_M d (set_edns udp w)
  | OSetTsig alg key time fudge origid error stime =>
    of_M d (set_tsig (nm_lower alg) (nm_lower key) time fudge origid error stime w)
  | OUpdateTime t => of_M d (update_time_signed t w)
  | OClearRrs => Ok (mkD (clear_rrs w) (d_regs d), RUnit)
  | OTemplate nb => of_R d (retemplate nb w)
  | OTemplateSubsequent => Ok (d, RErr (template_subsequent_err w))
  | OGet => let* l := getters w in Ok (d, RVals l)
  end.

(* A failed OTemplate consumed the writer: the run stops there. *)
Definition stops (o : wop) (r : outcome) : bool :=
  match o, r with OTemplate _, RErr _ => true | _, _ => false end.

Fixpoint run (d : dstate) (ops : list wop) : res werr (dstate * list outcome * bool) :=
  match ops with
  | [] => Ok (d, [], true)
  | o :: rest =>
    let* (d1, r) := step d o in
    if stops o r then Ok (d1, [r], false)
    else let* (x, alive) := run d1 rest in
         let '(d2, rs) := x in Ok (d2, r :: rs, alive)
  end.

(* what the caller has seen when an operation panics: the outcomes before it, the vectors so far *)
Fixpoint run_trace (d : dstate) (ops : list wop) : list outcome * list hvec :=
  match ops with
  | [] => ([], d_regs d)
  | o :: rest =>
    match step d o with
    | Ok (d1, r) =>
      if stops o r then ([r], d_regs d1)
      else let (rs, g) := run_trace d1 rest in (r :: rs, g)
    | _ => ([], d_regs d)
    end
  end.

Record run_result := mkRR {
  rr_outcomes : list outcome; rr_regs : list hvec;
  rr_final : option (nat * bytes) }.       (* None: the writer was consumed by a failed template *)

Definition run_writer_gen (fin : writer -> res werr (nat * bytes))
           (buf : bytes) (limit : nat) (ops : list wop) : res werr run_result :=
  let* w0 := writer_new buf limit in
  let* (x, alive) := run (mkD w0 []) ops in
  let '(d, rs) := x in
  if alive then let* f := fin (d_w d) in Ok (mkRR rs (d_regs d) (Some f))
  else Ok (mkRR rs (d_regs d) None).

Definition panic_trace (buf : bytes) (limit : nat) (ops : list wop) : list outcome * list hvec :=
  match writer_new buf limit with
  | Ok w0 => run_trace (mkD w0 []) ops
  | _ => ([], [])
  end.

Definition run_writer := run_writer_gen finish.
Definition run_writer_prefix := run_writer_gen finish_prefix.
