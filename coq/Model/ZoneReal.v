(* The REAL instances of the two parameters of the zone-store models (Model/ZoneTree.v,
   Model/ZoneValid.v), built from the models those functions have elsewhere in this development:

   * [req_real]   = Rdata::equals                      — Model/RdataM.v [equals] (C19)
   * [parse_real] = Name::try_from_uncompressed_all    — Model/NameWire.v [parse_uncompressed_name]
                    with use_all = true (C14), followed by the passage from the Rust [Name]
                    (label offsets + wire form) to the label-list view the zone model works on,
                    through [label_at] (what Index<usize> for Name computes) for every non-root label.

   No proofs here.  [RdataM.equals] and [parse_uncompressed_name] are panic-faithful ([res]); the
   zone model takes total functions, so a [Panic]/[Err] of [equals] is mapped to [false] and a
   [Panic] inside the parser/label access to [None].  Proofs/ZoneRealP.v shows these branches are
   never taken on octet strings ([equals_req_real], [parse_real_faithful]); the runner
   (ocaml/run_zone.ml) turns them into a failure of the run instead. *)
From QV Require Import Base.Res Base.Octets Model.ZoneTree.
From QV Require Model.NameWire Model.RdataM.

(* rdata.equals(existing, class, rr_type) *)
Definition req_real (c t : N) (a b : bytes) : bool :=
  match RdataM.equals c t a b with Ok v => v | _ => false end.

(* labels [i], [i+1], ..., [i+n-1] of a Name *)
Fixpoint labels_from (nm : NameWire.name) (i n : nat) : option (list label) :=
  match n with
  | 0 => Some []
  | S n' =>
    match NameWire.label_at nm i with
    | Ok l => option_map (cons l) (labels_from nm (S i) n')
    | _ => None
    end
  end.

(* the non-root labels: Name::len() - 1 of them (the offsets array has one entry per label, root included) *)
Definition name_labels (nm : NameWire.name) : option name :=
  labels_from nm 0 (length (NameWire.n_offsets nm) - 1).

(* Name::try_from_uncompressed_all(octets).ok(), in the label-list view *)
Definition parse_real (rd : bytes) : option name :=
  match NameWire.parse_uncompressed_name rd true with
  | Ok (nm, _) => name_labels nm
  | _ => None
  end.
