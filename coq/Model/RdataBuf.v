(* src/rr/rdata_set.rs at the level of the octet buffer: RdataSetOwned { inner: Vec<u8> } holds
   every RDATA preceded by its length `rdata.len() as u16` in native byte order (modelled
   little-endian; the order is internal: writer and reader use the same), RdataSet::iter walks it
   with a cursor.  Proofs/RdataBufP.v shows that this is the list model used by Model/ZoneTree.v
   ([rdataset_insert], [list bytes]) for RDATA of at most 65535 octets (the Rdata type's invariant).
   No proofs here. *)
From QV Require Import Base.Res Base.Octets Model.ZoneTree.

(* (n as u16).to_ne_bytes() *)
Definition u16_ne_bytes (n : nat) : bytes := [N.of_nat (n mod 256); N.of_nat ((n / 256) mod 256)].

(* From<&Rdata> for RdataSetOwned *)
Definition buf_from (rd : bytes) : bytes := u16_ne_bytes (length rd) ++ rd.

(* Iter::next: cursor.get(0..2)?, len = u16::from_ne_bytes, cursor.get(2..len + 2), cursor = &cursor[len + 2..] *)
Definition buf_next (cursor : bytes) : option (bytes * bytes) :=
  match cursor with
  | lo :: hi :: _ =>
    let len := N.to_nat lo + 256 * N.to_nat hi in
    if len + 2 <=? length cursor then Some (slice cursor 2 (len + 2), skipn (len + 2) cursor) else None
  | _ => None
  end.

(* the whole iteration; every step consumes at least two octets *)
Fixpoint buf_iter (fuel : nat) (cursor : bytes) : list bytes :=
  match fuel with
  | 0 => []
  | S f =>
    match buf_next cursor with
    | Some (rd, rest) => rd :: buf_iter f rest
    | None => []
    end
  end.
Definition buf_rdatas (buf : bytes) : list bytes := buf_iter (S (length buf)) buf.

(* RdataSetOwned::insert *)
Definition buf_insert (req : N -> N -> bytes -> bytes -> bool) (cls ty : N) (buf rd : bytes) : bytes :=
  if existsb (fun ex => req cls ty rd ex) (buf_rdatas buf) then buf
  else buf ++ u16_ne_bytes (length rd) ++ rd.
