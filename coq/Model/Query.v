(* Model of src/server/query.rs: the answering logic behind Server::handle_query
     handle_non_axfr_query (error mapping), answer, answer_any, do_cname, follow_cname_1,
     follow_cname_2, do_referral, do_additional_section_processing, add_negative_caching_soa,
     read_soa_minimum, add_additional_addresses, execute_allowing_truncation, read_name_from_rdata.
   No proofs here.

   The zone is the tree model of Model/ZoneTree.v (C06); names are lists of non-root labels.
   The response Writer is a parameter: a record of operations [wiface W] over an abstract state W,
   each returning Ok | Err Truncation | Err other (and the state it leaves behind, because the
   caller keeps using the writer after an error: execute_allowing_truncation, clear_rrs).
   Instances: the never-truncating section recorder below ([rec_iface], subject of C05) and
   the octet-level Writer model (Model/QueryW.v, C04/C02).

   Panic-faithful: the two `panic!("tried to look up a name in the wrong zone")` arms, the
   `.unwrap()` of the question (the caller passes it), `try_into().unwrap()` of the CNAME wire
   form (a parsed name is non-empty), the slice `&rdata.octets()[mname_len..]`, and whatever the
   zone lookups do (usize underflow of an unchecked lookup outside the zone).
   The ArrayVec try_push of PreviousOwners is the capacity test [PREVIOUS_OWNERS_CAP].

   add_negative_caching_soa follows the REPAIRED code (fix: commit): TTL = min(SOA RRset TTL,
   Ttl::from(MINIMUM)); [neg_ttl_prefix] is the code as it was. *)
From QV Require Import Base.Res Base.Octets Gen.ZoneConsts Gen.QueryConsts Model.NameWire Model.ZoneTree.

Definition zname := ZoneTree.name.

Inductive perr := PServFail | PTruncation.          (* ProcessingError *)
Inductive wierr := WiTruncation | WiOther.          (* writer::Error, as far as query.rs distinguishes *)
(* impl From<writer::Error> for ProcessingError *)
Definition perr_of (e : wierr) : perr := match e with WiTruncation => PTruncation | WiOther => PServFail end.

Inductive sect := SAn | SNs | SAr.
Inductive qhint := QhQname | QhOwner | QhRdata | QhExplicit (p : nat) | QhNone.
Definition hvec := list (option nat).               (* HintPointerVec *)

Record wiface (W : Type) := mkWi {
  (* add_{answer,authority}_rr(hinted owner, type, class, ttl, rdata, None) *)
  wi_add_rr : sect -> qhint -> zname -> N -> N -> N -> bytes -> W -> res (wierr * W) W;
  (* add_{answer,authority,additional}_rrset(hinted owner, type, class, ttl, rdatas, Some(vec)/None):
     the bool says whether a HintPointerVec was passed; the vector comes back *)
  wi_add_rrset : sect -> qhint -> zname -> N -> N -> N -> list bytes -> bool -> W -> res (wierr * W) (hvec * W);
  wi_set_aa : bool -> W -> option W;                (* None: the call panicked *)
  wi_set_rcode : N -> W -> option W;
  wi_set_tc : bool -> W -> option W;
  wi_clear_rrs : W -> W }.
Arguments wi_add_rr {W}. Arguments wi_add_rrset {W}. Arguments wi_set_aa {W}.
Arguments wi_set_rcode {W}. Arguments wi_set_tc {W}. Arguments wi_clear_rrs {W}.

Definition RCODE_SERVFAIL : N := 2.
Definition RCODE_NXDOMAIN : N := 3.
Definition QTYPE_ANY : N := 255.

(* ---------------------------------------------------------------- names *)

(* labels of an uncompressed wire form (Name::labels() of a parsed Box<Name>) *)
Fixpoint q_wire_labels (fuel : nat) (w : bytes) : list bytes :=
  match fuel with
  | O => []
  | S f =>
    match w with
    | [] => []
    | l :: r => if (l =? 0)%N then []
                else firstn (N.to_nat l) r :: q_wire_labels f (skipn (N.to_nat l) r)
    end
  end.
Definition labels_of (nm : NameWire.name) : zname := q_wire_labels (length (n_wire nm)) (n_wire nm).

(* impl PartialEq for Name: same number of labels, labels pairwise equal ignoring ASCII case *)
Definition zname_eqb (a b : zname) : bool :=
  (length a =? length b) && forallb (fun p => label_eqb (fst p) (snd p)) (combine a b).

(* Name::try_from_uncompressed_all(octets).ok(), as labels and wire form *)
Definition name_from_all (octets : bytes) : res perr (option (zname * bytes)) :=
  match parse_uncompressed_name octets true with
  | Ok (nm, _) => Ok (Some (labels_of nm, n_wire nm))
  | Err _ => Ok None
  | Panic => Panic
  end.

(* read_name_from_rdata: rdata.octets().get(start..).map(try_from_uncompressed_all).and_then(ok).ok_or(ServFail) *)
Definition read_name_from_rdata (rdata : bytes) (start : nat) : res perr zname :=
  if length rdata <? start then Err PServFail
  else match name_from_all (skipn start rdata) with
       | Ok (Some (n, _)) => Ok n
       | Ok None => Err PServFail
       | Err e => Err e
       | Panic => Panic
       end.

(* read_soa_minimum *)
Definition be32_value (l : bytes) : N :=
  match l with
  | [a; b; c; d] => (a * 16777216 + b * 65536 + c * 256 + d)%N
  | _ => 0%N
  end.
Definition read_soa_minimum (rdata : bytes) : res perr N :=
  match validate_uncompressed_name rdata false with
  | Panic => Panic
  | Err _ => Err PServFail
  | Ok mname_len =>
    if length rdata <? mname_len then Panic                      (* &rdata.octets()[mname_len..] *)
    else
      match validate_uncompressed_name (skipn mname_len rdata) false with
      | Panic => Panic
      | Err _ => Err PServFail
      | Ok rname_len =>
        let start := mname_len + rname_len + SOA_MINIMUM_OFFSET in
        if length rdata <? start then Err PServFail                (* .get(start..) *)
        else let octets := skipn start rdata in
             if length octets =? 4 then Ok (be32_value octets)     (* try_into::<[u8; 4]>() *)
             else Err PServFail
      end
  end.

(* Ttl::from(u32): values above i32::MAX become 0 *)
Definition q_ttl_from (raw : N) : N := if (2147483647 <? raw)%N then 0%N else raw.

(* the TTL of the negative-caching SOA: repaired code, and the code as it was *)
Definition neg_ttl (soa_ttl minimum : N) : N := N.min soa_ttl (q_ttl_from minimum).
Definition neg_ttl_prefix (soa_ttl minimum : N) : N := q_ttl_from minimum.

(* HintedName::from_hint_pointer_vec / _opt *)
Definition hint_from_vec (v : option hvec) (index : nat) : qhint :=
  match v with
  | Some l => match nth_error l index with Some (Some p) => QhExplicit p | _ => QhNone end
  | None => QhNone
  end.

(* zone lookups return Ok or Panic only; a zone error cannot come out of a lookup *)
Definition zl {A} (r : res zone_err A) : option A := match r with Ok a => Some a | _ => None end.

Definition last_opt {A} (l : list A) : option A := match rev l with x :: _ => Some x | [] => None end.

Section Query.
Context {W : Type}.
Variable wi : wiface W.
Variable negttl : N -> N -> N.            (* [neg_ttl] (repaired) or [neg_ttl_prefix] *)
Variable z : zone.

(* state-passing computations; the state left behind travels with the error *)
Definition Q (A : Type) := res (perr * W) (A * W).

Definition lift_add (r : res (wierr * W) W) : Q unit :=
  match r with Ok w => Ok (tt, w) | Err (e, w) => Err (perr_of e, w) | Panic => Panic end.
Definition lift_addv (r : res (wierr * W) (hvec * W)) : Q hvec :=
  match r with Ok x => Ok x | Err (e, w) => Err (perr_of e, w) | Panic => Panic end.
Definition lift_set (r : option W) : Q unit :=
  match r with Some w => Ok (tt, w) | None => Panic end.
Definition fail {A} (e : perr) (w : W) : Q A := Err (e, w).
Definition lift_p {A} (r : res perr A) (w : W) : Q A :=
  match r with Ok a => Ok (a, w) | Err e => Err (e, w) | Panic => Panic end.

(* execute_allowing_truncation applied to add_additional_addresses: a Truncation is swallowed,
   the writer keeps what had been written before it *)
Definition allow_truncation (r : res (wierr * W) W) : Q unit :=
  match r with
  | Ok w => Ok (tt, w)
  | Err (WiTruncation, w) => Ok (tt, w)
  | Err (e, w) => Err (perr_of e, w)
  | Panic => Panic
  end.

(* add_additional_addresses -> writer::Result<()> *)
Definition add_additional_addresses (owner : zname) (h : qhint) (sbc : bool) (w : W) : res (wierr * W) W :=
  match zl (zone_lookup_addrs z owner false sbc) with
  | None => Panic
  | Some (AFound a aaaa _) =>
    match (match a with
           | Some (ttl, rdatas) =>
             match wi_add_rrset wi SAr h owner TYPE_A (z_class z) ttl rdatas false w with
             | Ok (_, w1) => Ok (QhOwner, w1)                 (* Hint::MostRecentOwner from now on *)
             | Err e => Err e
             | Panic => Panic
             end
           | None => Ok (h, w)
           end) with
    | Ok (h1, w1) =>
      if (z_class z =? CLASS_IN)%N then
        match aaaa with
        | Some (ttl, rdatas) =>
          match wi_add_rrset wi SAr h1 owner TYPE_AAAA CLASS_IN ttl rdatas false w1 with
          | Ok (_, w2) => Ok w2
          | Err e => Err e
          | Panic => Panic
          end
        | None => Ok w1
        end
      else Ok w1
    | Err e => Err e
    | Panic => Panic
    end
  | Some _ => Ok w
  end.

(* the three loops of do_additional_section_processing share this body *)
Fixpoint additional_loop (start : nat) (rdatas : list bytes) (v : option hvec) (index : nat) (w : W) : Q unit :=
  match rdatas with
  | [] => Ok (tt, w)
  | rd :: rest =>
    match read_name_from_rdata rd start with
    | Panic => Panic
    | Err e => fail e w
    | Ok nm =>
      match allow_truncation (add_additional_addresses nm (hint_from_vec v index) false w) with
      | Ok (_, w1) => additional_loop start rest v (S index) w1
      | other => other
      end
    end
  end.

Fixpoint lookup_offset (tab : list (N * nat)) (ty : N) : option nat :=
  match tab with
  | [] => None
  | (t, o) :: rest => if (t =? ty)%N then Some o else lookup_offset rest ty
  end.

Definition do_additional_section_processing (ty : N) (rrset : single_rrset) (v : option hvec) (w : W) : Q unit :=
  if negb (existsb (N.eqb (z_class z)) ADDITIONAL_CLASSES) then Ok (tt, w)
  else match lookup_offset ADDITIONAL_TABLE ty with
       | Some start => additional_loop start (snd rrset) v 0 w
       | None => Ok (tt, w)
       end.

(* add_negative_caching_soa *)
Definition add_negative_caching_soa (w : W) : Q unit :=
  match zone_soa z with
  | None => fail PServFail w
  | Some (soa_ttl, rdatas) =>
    match rdatas with
    | [] => fail PServFail w
    | soa_rdata :: _ =>
      match read_soa_minimum soa_rdata with
      | Panic => Panic
      | Err e => fail e w
      | Ok minimum =>
        lift_add (wi_add_rr wi SNs QhNone (zone_name z) TYPE_SOA (z_class z) (negttl soa_ttl minimum) soa_rdata w)
      end
    end
  end.

(* do_referral *)
Fixpoint referral_names (child : zname) (rdatas : list bytes) (index : nat)
  : res perr (list (nat * zname) * list (nat * zname)) :=
  match rdatas with
  | [] => Ok ([], [])
  | rd :: rest =>
    let* nsdname := read_name_from_rdata rd 0 in
    let* (glues, additionals) := referral_names child rest (S index) in
    if eq_or_subdomain_of nsdname child then Ok ((index, nsdname) :: glues, additionals)
    else Ok (glues, (index, nsdname) :: additionals)
  end.

Fixpoint glue_loop (l : list (nat * zname)) (v : hvec) (w : W) : Q unit :=
  match l with
  | [] => Ok (tt, w)
  | (index, nsdname) :: rest =>
    match lift_add (add_additional_addresses nsdname (hint_from_vec (Some v) index) true w) with
    | Ok (_, w1) => glue_loop rest v w1
    | other => other
    end
  end.
Fixpoint optional_loop (l : list (nat * zname)) (v : hvec) (w : W) : Q unit :=
  match l with
  | [] => Ok (tt, w)
  | (index, nsdname) :: rest =>
    match allow_truncation (add_additional_addresses nsdname (hint_from_vec (Some v) index) true w) with
    | Ok (_, w1) => optional_loop rest v w1
    | other => other
    end
  end.

Definition do_referral (child : zname) (ns : single_rrset) (w : W) : Q unit :=
  match lift_addv (wi_add_rrset wi SNs QhNone child TYPE_NS (z_class z) (fst ns) (snd ns) true w) with
  | Panic => Panic
  | Err e => Err e
  | Ok (v, w1) =>
    match referral_names child (snd ns) 0 with
    | Panic => Panic
    | Err e => fail e w1
    | Ok (glues, additionals) =>
      match glue_loop glues v w1 with
      | Ok (_, w2) => optional_loop additionals v w2
      | other => other
      end
    end
  end.

(* the Found arm shared by answer and follow_cname_2 *)
Definition add_found (h : qhint) (owner : zname) (ty : N) (rs : single_rrset) (w : W) : Q unit :=
  match lift_addv (wi_add_rrset wi SAn h owner ty (z_class z) (fst rs) (snd rs) true w) with
  | Panic => Panic
  | Err e => Err e
  | Ok (v, w1) => do_additional_section_processing ty rs (Some v) w1
  end.

(* follow_cname_1 and follow_cname_2 call each other; [fuel] counts the calls of follow_cname_1 that
   remain possible: PreviousOwners has capacity PREVIOUS_OWNERS_CAP, so there are at most
   PREVIOUS_OWNERS_CAP + 1 of them.  Running out is unreachable for fuel > PREVIOUS_OWNERS_CAP. *)
Definition follow_cname_2_body (follow1 : single_rrset -> list zname -> W -> Q unit)
    (qname cname : zname) (ty : N) (owners_seen : list zname) (w : W) : Q unit :=
  match zl (zone_lookup z cname ty false false) with        (* LookupOptions::default() *)
  | None => Panic
  | Some (LFound rs _) => add_found QhRdata cname ty rs w
  | Some (LCname next _) =>
    (* owners_seen.try_push(cname).is_ok() *)
    if length owners_seen <? PREVIOUS_OWNERS_CAP then follow1 next (owners_seen ++ [cname]) w
    else fail PServFail w
  | Some (LReferral child ns) => do_referral child ns w
  | Some (LNoRecords _) => add_negative_caching_soa w
  | Some LNxDomain =>
    match lift_set (wi_set_rcode wi RCODE_NXDOMAIN w) with
    | Ok (_, w1) => add_negative_caching_soa w1
    | other => other
    end
  | Some LWrongZone => Ok (tt, w)
  end.

Fixpoint follow_cname_1 (fuel : nat) (qname : zname) (ty : N) (cname_rrset : single_rrset)
    (owners_seen : list zname) (w : W) : Q unit :=
  match fuel with
  | O => Panic                                    (* model only; unreachable, see above *)
  | S fuel' =>
    match snd cname_rrset with
    | [] => fail PServFail w
    | rd :: _ =>
      match name_from_all rd with
      | Panic => Panic
      | Err e => fail e w
      | Ok None => fail PServFail w
      | Ok (Some (cname, cname_wire)) =>
        if zname_eqb cname qname || existsb (zname_eqb cname) owners_seen then fail PServFail w
        else
          let (h, owner) := match last_opt owners_seen with
                            | Some o => (QhRdata, o)
                            | None => (QhQname, qname)
                            end in
          match cname_wire with
          | [] => Panic                               (* cname.wire_repr().try_into().unwrap() *)
          | _ =>
            match lift_add (wi_add_rr wi SAn h owner TYPE_CNAME (z_class z) (fst cname_rrset) cname_wire w) with
            | Ok (_, w1) =>
              follow_cname_2_body (follow_cname_1 fuel' qname ty) qname cname ty owners_seen w1
            | other => other
            end
          end
      end
    end
  end.

(* do_cname *)
Definition do_cname (qname : zname) (cname_rrset : single_rrset) (ty : N) (w : W) : Q unit :=
  match lift_set (wi_set_aa wi true w) with
  | Ok (_, w1) => follow_cname_1 (S PREVIOUS_OWNERS_CAP) qname ty cname_rrset [] w1
  | other => other
  end.

Definition set_aa_then (k : W -> Q unit) (w : W) : Q unit :=
  match lift_set (wi_set_aa wi true w) with
  | Ok (_, w1) => k w1
  | other => other
  end.
Definition nxdomain (w : W) : Q unit :=
  match lift_set (wi_set_rcode wi RCODE_NXDOMAIN w) with
  | Ok (_, w1) => set_aa_then add_negative_caching_soa w1
  | other => other
  end.

(* answer: lookup with unchecked = true, search_below_cuts = false *)
Definition answer (qname : zname) (ty : N) (w : W) : Q unit :=
  match zl (zone_lookup z qname ty true false) with
  | None => Panic
  | Some (LFound rs _) => set_aa_then (add_found QhQname qname ty rs) w
  | Some (LCname rs _) => do_cname qname rs ty w
  | Some (LReferral child ns) => do_referral child ns w
  | Some (LNoRecords _) => set_aa_then add_negative_caching_soa w
  | Some LNxDomain => nxdomain w
  | Some LWrongZone => Panic                 (* panic!("tried to look up a name in the wrong zone") *)
  end.

(* answer_any *)
Fixpoint any_loop (qname : zname) (rrsets : rrset_list) (n_added : nat) (w : W) : Q nat :=
  match rrsets with
  | [] => Ok (n_added, w)
  | r :: rest =>
    match lift_addv (wi_add_rrset wi SAn QhQname qname (rs_type r) (z_class z) (rs_ttl r) (rs_rdatas r) false w) with
    | Ok (_, w1) => any_loop qname rest (S n_added) w1
    | Err e => Err e
    | Panic => Panic
    end
  end.

Definition answer_any (qname : zname) (w : W) : Q unit :=
  match zl (zone_lookup_all z qname true false) with
  | None => Panic
  | Some (LAFound rrsets _) =>
    set_aa_then (fun w1 =>
      match any_loop qname rrsets 0 w1 with
      | Ok (n_added, w2) => if n_added =? 0 then add_negative_caching_soa w2 else Ok (tt, w2)
      | Err e => Err e
      | Panic => Panic
      end) w
  | Some (LAReferral child ns) => do_referral child ns w
  | Some LANxDomain => nxdomain w
  | Some LAWrongZone => Panic
  end.

(* handle_non_axfr_query: dispatch on QTYPE and the error mapping.  [tcp]: the transport.
   None: panic. *)
Definition handle_non_axfr_query (qname : zname) (qtype : N) (tcp : bool) (w : W) : option W :=
  match (if (qtype =? QTYPE_ANY)%N then answer_any qname w else answer qname qtype w) with
  | Panic => None
  | Ok (_, w1) => Some w1
  | Err (PServFail, w1) =>
    match wi_set_aa wi false w1 with
    | None => None
    | Some w2 => match wi_set_rcode wi RCODE_SERVFAIL w2 with
                 | None => None
                 | Some w3 => Some (wi_clear_rrs wi w3)
                 end
    end
  | Err (PTruncation, w1) =>
    let w2 := wi_clear_rrs wi w1 in
    if tcp then
      match wi_set_aa wi false w2 with
      | None => None
      | Some w3 => wi_set_rcode wi RCODE_SERVFAIL w3
      end
    else wi_set_tc wi true w2
  end.

End Query.

(* ---------------------------------------------------------------- the never-truncating recorder *)

Record qrr := mk_qrr { q_owner : zname; q_type : N; q_class : N; q_ttl : N; q_rdata : bytes }.

Record recorder := mk_rec
  { rc_aa : bool; rc_tc : bool; rc_rcode : option N (* Some: set_rcode was called *);
    rc_an : list qrr; rc_ns : list qrr; rc_ar : list qrr }.
Definition rec_empty : recorder := mk_rec false false None [] [] [].

Definition rec_add (s : sect) (rrs : list qrr) (r : recorder) : recorder :=
  match s with
  | SAn => mk_rec (rc_aa r) (rc_tc r) (rc_rcode r) (rc_an r ++ rrs) (rc_ns r) (rc_ar r)
  | SNs => mk_rec (rc_aa r) (rc_tc r) (rc_rcode r) (rc_an r) (rc_ns r ++ rrs) (rc_ar r)
  | SAr => mk_rec (rc_aa r) (rc_tc r) (rc_rcode r) (rc_an r) (rc_ns r) (rc_ar r ++ rrs)
  end.

(* An idealised Writer with unbounded space: every add succeeds and appends to its section (the
   section-order rule of the real Writer — answer, then authority, then additional — is never
   violated by query.rs and is checked by the octet-level instance); no hint pointers are produced. *)
Definition rec_iface : wiface recorder :=
  mkWi recorder
    (fun s _ owner ty cls ttl rd r => Ok (rec_add s [mk_qrr owner ty cls ttl rd] r))
    (fun s _ owner ty cls ttl rds _ r => Ok ([], rec_add s (map (mk_qrr owner ty cls ttl) rds) r))
    (fun b r => Some (mk_rec b (rc_tc r) (rc_rcode r) (rc_an r) (rc_ns r) (rc_ar r)))
    (fun rc r => Some (mk_rec (rc_aa r) (rc_tc r) (Some rc) (rc_an r) (rc_ns r) (rc_ar r)))
    (fun b r => Some (mk_rec (rc_aa r) b (rc_rcode r) (rc_an r) (rc_ns r) (rc_ar r)))
    (fun r => mk_rec (rc_aa r) (rc_tc r) (rc_rcode r) [] [] []).

(* query answering on the idealised writer (repaired code); None: panic *)
Definition answer_rec (z : zone) (qname : zname) (qtype : N) (tcp : bool) : option recorder :=
  handle_non_axfr_query rec_iface neg_ttl z qname qtype tcp rec_empty.
Definition answer_rec_prefix (z : zone) (qname : zname) (qtype : N) (tcp : bool) : option recorder :=
  handle_non_axfr_query rec_iface neg_ttl_prefix z qname qtype tcp rec_empty.
