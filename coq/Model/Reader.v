(* Model of /repo/src/message/reader.rs (Reader, PeekRr, read_u16/read_u32).
   Every method is a function  reader -> reader * res reader_err A : the returned
   reader is the state the Rust `&mut self` is left in, so "an operation that
   fails leaves the read position unchanged" is a theorem about the model, not
   an artefact of its type.  Indexing and slicing are panic-faithful.
   Rdata::read (src/rr/rdata/mod.rs) is a parameter [rd] here; it is instantiated
   with the RDATA model by the callers. *)
From QV Require Export Model.NameWire.

Inductive rdata_err := RdInvalidName (e : name_err) | RdUnexpectedEom | RdOther.

Inductive reader_err :=
| HeaderTooShort
| UnexpectedEomInField
| InvalidQname (e : name_err)
| InvalidOwner (e : name_err)
| InvalidRdata (e : rdata_err).

Record reader := mkReader { r_octets : bytes; r_cursor : nat; r_mark : option nat }.

(* Rdata::read(class, rr_type, message, cursor, rdlength) *)
Definition rdata_reader := N -> N -> bytes -> nat -> N -> res rdata_err bytes.

Record question := mkQuestion { q_name : name; q_type : N; q_class : N }.
Record read_rr_t := mkReadRr
  { rr_owner : name; rr_type : N; rr_class : N; rr_ttl : N (* after Ttl::from *); rr_rdata : bytes }.

Definition header_size : nat := N.to_nat HEADER_SIZE.

(* Reader::try_from(&[u8]) *)
Definition reader_new (octets : bytes) : res reader_err reader :=
  if header_size <=? length octets then Ok (mkReader octets header_size None)
  else Err HeaderTooShort.

(* octets[i] *)
Definition idx {E} (b : bytes) (i : nat) : res E N :=
  match nth_error b i with Some x => Ok x | None => Panic end.

(* u16::from_be_bytes(octets[a..a+2].try_into().unwrap()) *)
Definition be16_at {E} (b : bytes) (a : nat) : res E N :=
  if length b <? a + 2 then Panic
  else match nth_error b a, nth_error b (a + 1) with
       | Some hi, Some lo => Ok (hi * 256 + lo)%N
       | _, _ => Panic
       end.

Definition be32_at {E} (b : bytes) (a : nat) : res E N :=
  if length b <? a + 4 then Panic
  else match nth_error b a, nth_error b (a + 1), nth_error b (a + 2), nth_error b (a + 3) with
       | Some b0, Some b1, Some b2, Some b3 => Ok (((b0 * 256 + b1) * 256 + b2) * 256 + b3)%N
       | _, _, _, _ => Panic
       end.

Definition flag_at {E} (b : bytes) (byte mask : N) : res E bool :=
  let* x := idx b (N.to_nat byte) in Ok (negb (N.land x mask =? 0)%N).

Definition rd_id (r : reader) : res reader_err N := be16_at (r_octets r) (N.to_nat ID_START).
Definition rd_qr (r : reader) : res reader_err bool := flag_at (r_octets r) QR_BYTE QR_MASK.
Definition rd_aa (r : reader) : res reader_err bool := flag_at (r_octets r) AA_BYTE AA_MASK.
Definition rd_tc (r : reader) : res reader_err bool := flag_at (r_octets r) TC_BYTE TC_MASK.
Definition rd_rd (r : reader) : res reader_err bool := flag_at (r_octets r) RD_BYTE RD_MASK.
Definition rd_ra (r : reader) : res reader_err bool := flag_at (r_octets r) RA_BYTE RA_MASK.

(* (octets[OPCODE_BYTE] & OPCODE_MASK) >> OPCODE_SHIFT, then Opcode::try_from(raw).unwrap() *)
Definition rd_opcode (r : reader) : res reader_err N :=
  let* x := idx (r_octets r) (N.to_nat OPCODE_BYTE) in
  let raw := N.shiftr (N.land x OPCODE_MASK) OPCODE_SHIFT in
  if (raw <? 16)%N then Ok raw else Panic.

Definition rd_rcode (r : reader) : res reader_err N :=
  let* x := idx (r_octets r) (N.to_nat RCODE_BYTE) in
  let raw := N.land x RCODE_MASK in
  if (raw <? 16)%N then Ok raw else Panic.

Definition rd_qdcount (r : reader) : res reader_err N := be16_at (r_octets r) (N.to_nat QDCOUNT_START).
Definition rd_ancount (r : reader) : res reader_err N := be16_at (r_octets r) (N.to_nat ANCOUNT_START).
Definition rd_nscount (r : reader) : res reader_err N := be16_at (r_octets r) (N.to_nat NSCOUNT_START).
Definition rd_arcount (r : reader) : res reader_err N := be16_at (r_octets r) (N.to_nat ARCOUNT_START).

Definition rd_mark (r : reader) : reader := mkReader (r_octets r) (r_cursor r) (Some (r_cursor r)).

(* self.mark.expect(..) *)
Definition rd_rewind (r : reader) : reader * res reader_err unit :=
  match r_mark r with
  | Some m => (mkReader (r_octets r) m None, Ok tt)
  | None => (r, Panic)
  end.

(* read_u16(&octets[at..]) : the slice panics when at > len; then get(0..2) *)
Definition read_u16_from (b : bytes) (at_ : nat) : res reader_err N :=
  if length b <? at_ then Panic
  else match nth_error b at_, nth_error b (at_ + 1) with
       | Some hi, Some lo => Ok (hi * 256 + lo)%N
       | _, _ => Err UnexpectedEomInField
       end.

Definition read_u32_from (b : bytes) (at_ : nat) : res reader_err N :=
  if length b <? at_ then Panic
  else match nth_error b at_, nth_error b (at_ + 1), nth_error b (at_ + 2), nth_error b (at_ + 3) with
       | Some b0, Some b1, Some b2, Some b3 => Ok (((b0 * 256 + b1) * 256 + b2) * 256 + b3)%N
       | _, _, _, _ => Err UnexpectedEomInField
       end.

(* read_u16(octets.get(at..).ok_or(UnexpectedEomInField)?)  — skip_rr / peek_rr after the fix: commit *)
Definition read_u16_get (b : bytes) (at_ : nat) : res reader_err N :=
  if length b <? at_ then Err UnexpectedEomInField
  else match nth_error b at_, nth_error b (at_ + 1) with
       | Some hi, Some lo => Ok (hi * 256 + lo)%N
       | _, _ => Err UnexpectedEomInField
       end.

(* Ttl::from(u32): values above i32::MAX read as 0 (RFC 2181 §8) *)
Definition ttl_from (raw : N) : N := if (2147483647 <? raw)%N then 0%N else raw.

Definition with_cursor (r : reader) (c : nat) : reader := mkReader (r_octets r) c (r_mark r).

Definition lift_name {A} (wrap : name_err -> reader_err) (x : res name_err A) : res reader_err A :=
  map_err wrap x.

(* ---- read_question ---- *)
Definition read_question (r : reader) : reader * res reader_err question :=
  let b := r_octets r in
  let c := r_cursor r in
  match lift_name InvalidQname (parse_compressed_name b c) with
  | Ok (qname, qname_len) =>
    let qname_end := c + qname_len in
    match read_u16_from b qname_end with
    | Ok qtype =>
      match read_u16_from b (qname_end + 2) with
      | Ok qclass => (with_cursor r (c + qname_len + 4), Ok (mkQuestion qname qtype qclass))
      | Err e => (r, Err e) | Panic => (r, Panic)
      end
    | Err e => (r, Err e) | Panic => (r, Panic)
    end
  | Err e => (r, Err e)
  | Panic => (r, Panic)
  end.

(* ---- skip_question ---- *)
Definition skip_question (r : reader) : reader * res reader_err unit :=
  let b := r_octets r in
  let c := r_cursor r in
  if length b <? c then (r, Panic)            (* &self.octets[self.cursor..] *)
  else match lift_name InvalidQname (skip_compressed_name (skipn c b)) with
       | Ok qname_len =>
         let question_end := c + qname_len + 4 in
         if length b <? question_end then (r, Err UnexpectedEomInField)
         else (with_cursor r question_end, Ok tt)
       | Err e => (r, Err e)
       | Panic => (r, Panic)
       end.

(* ---- read_rr ---- *)
Definition read_rr (rd : rdata_reader) (r : reader) : reader * res reader_err read_rr_t :=
  let b := r_octets r in
  let c := r_cursor r in
  let body :=
    let* (owner, owner_len) := lift_name InvalidOwner (parse_compressed_name b c) in
    let owner_end := c + owner_len in
    let* rr_type := read_u16_from b owner_end in
    let* class := read_u16_from b (owner_end + 2) in
    let* ttl := read_u32_from b (owner_end + 4) in
    let* rdlength := read_u16_from b (owner_end + 8) in
    let* rdata := map_err InvalidRdata (rd class rr_type b (c + owner_len + 10) rdlength) in
    Ok (owner_end + 10 + N.to_nat rdlength, mkReadRr owner rr_type class (ttl_from ttl) rdata) in
  match body with
  | Ok (c', rr) => (with_cursor r c', Ok rr)
  | Err e => (r, Err e)
  | Panic => (r, Panic)
  end.

(* ---- skip_rr / peek_rr ---- *)
Record peek := mkPeek { p_owner_end : nat; p_rr_end : nat }.

Definition peek_core (r : reader) : res reader_err peek :=
  let b := r_octets r in
  let c := r_cursor r in
  if length b <? c then Panic
  else
    let* owner_len := lift_name InvalidOwner (skip_compressed_name (skipn c b)) in
    let owner_end := c + owner_len in
    let* rdlength := read_u16_get b (owner_end + 8) in
    let rr_end := owner_end + 10 + N.to_nat rdlength in
    if length b <? rr_end then Err (InvalidRdata RdUnexpectedEom)
    else Ok (mkPeek owner_end rr_end).

(* the code before the fix: commit sliced &octets[owner_end + 8..] unconditionally *)
Definition peek_core_prefix (r : reader) : res reader_err peek :=
  let b := r_octets r in
  let c := r_cursor r in
  if length b <? c then Panic
  else
    let* owner_len := lift_name InvalidOwner (skip_compressed_name (skipn c b)) in
    let owner_end := c + owner_len in
    let* rdlength := read_u16_from b (owner_end + 8) in
    let rr_end := owner_end + 10 + N.to_nat rdlength in
    if length b <? rr_end then Err (InvalidRdata RdUnexpectedEom)
    else Ok (mkPeek owner_end rr_end).

Definition skip_rr (r : reader) : reader * res reader_err unit :=
  match peek_core r with
  | Ok p => (with_cursor r (p_rr_end p), Ok tt)
  | Err e => (r, Err e)
  | Panic => (r, Panic)
  end.

Definition peek_rr (r : reader) : res reader_err peek := peek_core r.

(* PeekRr accessors (slices of the underlying buffer) *)
Definition peek_type (r : reader) (p : peek) : res reader_err N := be16_at (r_octets r) (p_owner_end p).
Definition peek_class (r : reader) (p : peek) : res reader_err N := be16_at (r_octets r) (p_owner_end p + 2).
Definition peek_raw_ttl (r : reader) (p : peek) : res reader_err N := be32_at (r_octets r) (p_owner_end p + 4).
Definition peek_ttl (r : reader) (p : peek) : res reader_err N := map_ok ttl_from (peek_raw_ttl r p).
Definition peek_rdlength (r : reader) (p : peek) : res reader_err N := be16_at (r_octets r) (p_owner_end p + 8).
Definition peek_owner (r : reader) (p : peek) : res reader_err name :=
  map_ok fst (lift_name InvalidOwner (parse_compressed_name (r_octets r) (r_cursor r))).
(* message_to_cursor: &octets[0..cursor] *)
Definition message_to_cursor (r : reader) : res reader_err bytes :=
  if length (r_octets r) <? r_cursor r then Panic else Ok (firstn (r_cursor r) (r_octets r)).
Definition peek_skip (r : reader) (p : peek) : reader := with_cursor r (p_rr_end p).

Definition peek_parse (rd : rdata_reader) (r : reader) (p : peek) : reader * res reader_err read_rr_t :=
  let body :=
    let* owner := peek_owner r p in
    let* class := peek_class r p in
    let* rr_type := peek_type r p in
    let* rdlength := peek_rdlength r p in
    let* rdata := map_err InvalidRdata (rd class rr_type (r_octets r) (p_owner_end p + 10) rdlength) in
    let* ttl := peek_ttl r p in
    Ok (mkReadRr owner rr_type class ttl rdata) in
  match body with
  | Ok rr => (with_cursor r (p_rr_end p), Ok rr)
  | Err e => (r, Err e)
  | Panic => (r, Panic)
  end.

Definition at_eom (r : reader) : bool := length (r_octets r) <=? r_cursor r.

(* ---- operation language used by the correspondence suite and the sequence theorems ---- *)
Inductive rop :=
| OpHeader           (* all header accessors *)
| OpMark | OpRewind
| OpReadQuestion | OpSkipQuestion
| OpReadRr | OpSkipRr
| OpPeekFields       (* peek_rr, read type/class/ttl/rdlength/owner/message_to_rr, drop *)
| OpPeekSkip         (* peek_rr, skip *)
| OpPeekParse        (* peek_rr, parse *)
| OpAtEom | OpMessageToCursor.

Inductive rout :=
| OHeader (id : N) (qr aa tc rd ra : bool) (opcode rcode qd an ns ar : N)
| OUnit
| OQuestion (q : question)
| ORr (rr : read_rr_t)
| OPeek (ty cl ttl rdlen : N) (owner : res reader_err name) (msg_len : nat)
| OBool (b : bool)
| OLen (n : nat).

Definition step (rd : rdata_reader) (r : reader) (op : rop) : reader * res reader_err rout :=
  match op with
  | OpHeader =>
    (r, let* id := rd_id r in let* qr := rd_qr r in let* aa := rd_aa r in let* tc := rd_tc r in
        let* rdf := rd_rd r in let* ra := rd_ra r in let* opc := rd_opcode r in let* rc := rd_rcode r in
        let* qd := rd_qdcount r in let* an := rd_ancount r in let* ns := rd_nscount r in
        let* ar := rd_arcount r in Ok (OHeader id qr aa tc rdf ra opc rc qd an ns ar))
  | OpMark => (rd_mark r, Ok OUnit)
  | OpRewind => let (r', x) := rd_rewind r in (r', map_ok (fun _ => OUnit) x)
  | OpReadQuestion => let (r', x) := read_question r in (r', map_ok OQuestion x)
  | OpSkipQuestion => let (r', x) := skip_question r in (r', map_ok (fun _ => OUnit) x)
  | OpReadRr => let (r', x) := read_rr rd r in (r', map_ok ORr x)
  | OpSkipRr => let (r', x) := skip_rr r in (r', map_ok (fun _ => OUnit) x)
  | OpPeekFields =>
    (r, let* p := peek_rr r in
        let* ty := peek_type r p in let* cl := peek_class r p in let* ttl := peek_ttl r p in
        let* rl := peek_rdlength r p in let* m := message_to_cursor r in
        Ok (OPeek ty cl ttl rl (peek_owner r p) (length m)))
  | OpPeekSkip =>
    match peek_rr r with
    | Ok p => (peek_skip r p, Ok OUnit)
    | Err e => (r, Err e) | Panic => (r, Panic)
    end
  | OpPeekParse =>
    match peek_rr r with
    | Ok p => let (r', x) := peek_parse rd r p in (r', map_ok ORr x)
    | Err e => (r, Err e) | Panic => (r, Panic)
    end
  | OpAtEom => (r, Ok (OBool (at_eom r)))
  | OpMessageToCursor => (r, map_ok (fun m => OLen (length m)) (message_to_cursor r))
  end.
