(* The server's catalog as the REAL data structure: the hash-map tree of
   src/db/hash_map_tree/catalog.rs (Model/CatTree.v) whose entry payload is the
   entry's variant (Loaded zone / NotYetLoaded / FailedToLoad).

   Model/Server.v dispatches on a flat list of entries; [flat_of_tree] is the flat view
   of a tree catalog (its iteration, names lower-cased as [Name]'s Eq/Hash see them).
   Proofs/ServerCatP.v proves that [Server.cat_lookup] on that view returns exactly the
   entry the tree's own [lookup] returns, so the server model run on [flat_of_tree c]
   IS the server run on the tree [c].  Additions only; nothing in Model/Server.v or
   Model/CatTree.v changes. *)
From QV Require Export Model.CatTree Model.Server.

Definition tentry := CatTree.entry entry_kind.
Definition tcatalog := CatTree.catalog entry_kind.

Definition srv_entry (e : tentry) : Server.cat_entry :=
  Server.mkEntry (CatTree.e_class e) (lower_name (CatTree.e_name e)) (CatTree.e_val e).

Definition flat_of_tree (c : tcatalog) : list Server.cat_entry := map srv_entry (cat_iter c).

(* Catalog::insert of every entry in order, starting from [c] (what a configuration load does;
   a later entry with an equal (class, name) replaces the earlier one, as HashMap::insert /
   Option::replace do) *)
Fixpoint tree_inserts (c : tcatalog) (es : list tentry) : res unit tcatalog :=
  match es with
  | [] => Ok c
  | e :: rest => let* (c', _) := cat_insert c e in tree_inserts c' rest
  end.

Definition tree_of_entries (es : list tentry) : res unit tcatalog := tree_inserts cat_new es.

(* any history of catalog operations from the empty catalog (inserts and removes; what a running server's
   configuration reloads do) *)
Definition tree_of_history (h : list (cat_op entry_kind)) : res unit tcatalog :=
  match cat_run cat_new h with
  | Ok (c, _) => Ok c
  | Err e => Err e
  | Panic => Panic
  end.

(* the configuration the server model sees for a tree catalog *)
Definition cfg_with_tree (cfg : config) (c : tcatalog) : config :=
  mkConfig (c_transport cfg) (c_edns_size cfg) (c_buflen cfg) (flat_of_tree c) (c_keys cfg) (c_now cfg).
