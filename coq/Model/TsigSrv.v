(* Model of the server's TSIG decision logic, /repo/src/server/mod.rs: the TSIG branch of
   handle_message_with_context (after ReadTsigRr::try_from), find_tsig_algorithm_or_write_error,
   find_tsig_key_or_write_error, verify_tsig_and_write_tsig_rr, and the TSIG RR that
   Writer::finish_with_mac then appends to the response.
   A pure function over the already-parsed TSIG RR, the message octets before it, the key map
   and the clock.  The rest of the server (question echo, query processing, truncation fallback of
   set_tsig_or_truncate when the TSIG RR does not fit a 512-octet UDP response) is NOT modelled:
   [d_authenticated] says whether the server goes on to process the request. *)
From QV Require Export Model.TsigMsg.

Definition tsig_fudge : N := TSIG_FUDGE.

(* TsigKeyMap = HashMap<Box<Name>, (Algorithm, Box<[u8]>)>: association list; the HashMap is keyed
   by Name, whose Eq/Hash ignore ASCII case *)
Record key_entry := mkKey { k_name : bytes; k_alg : alg; k_secret : bytes }.

Definition alg_eqb (a b : alg) : bool :=
  match a, b with HmacSha1, HmacSha1 | HmacSha256, HmacSha256 => true | _, _ => false end.

Fixpoint find_key (keys : list key_entry) (name : bytes) : option key_entry :=
  match keys with
  | [] => None
  | k :: rest => if name_eqb (k_name k) name then Some k else find_key rest name
  end.

(* what the TSIG step leaves in the response Writer *)
Record tsig_decision := mkDecision {
  d_rcode : N;                 (* RCODE set by the TSIG step (NOERROR: left to request processing) *)
  d_mode : tsig_mode;          (* how finish_with_mac will produce the TSIG RR *)
  d_rr : prepared;             (* its fields *)
  d_authenticated : bool }.    (* true: context.tsig_key is set and processing continues *)

Section WithHmac.
Variable hmac : alg -> bytes -> bytes -> bytes.

Definition bad_key (r : read_tsig) (now : bytes) : res verr tsig_decision :=
  let* p := new_from_read r now tsig_fudge XRCODE_BADKEY in
  Ok (mkDecision XRCODE_NOTAUTH (TmUnsigned (r_algorithm r)) p false).

Definition handle_tsig (keys : list key_entry) (r : read_tsig) (message_without_tsig now : bytes)
  : res verr tsig_decision :=
  (* find_tsig_algorithm_or_write_error *)
  match alg_from_name (r_algorithm r) with
  | None => bad_key r now
  | Some a =>
    (* find_tsig_key_or_write_error: .get(key_name).filter(|(a', _)| a' == algorithm) *)
    match find_key keys (r_key_name r) with
    | None => bad_key r now
    | Some k =>
      if negb (alg_eqb (k_alg k) a) then bad_key r now
      else
        (* verify_tsig_and_write_tsig_rr *)
        match verify hmac r message_without_tsig VRequest a (k_secret k) now with
        | Panic => Panic
        | Ok _ =>
          let* mac := unwrap (r_mac r) in
          let* p := new_from_read r now tsig_fudge XRCODE_NOERROR in
          Ok (mkDecision XRCODE_NOERROR (TmResponse a mac (k_secret k)) p true)
        | Err BadSig =>
          let* p := new_from_read r now tsig_fudge XRCODE_BADVERSBADSIG in
          Ok (mkDecision XRCODE_NOTAUTH (TmUnsigned (alg_name a)) p false)
        | Err BadTime =>
          let* mac := unwrap (r_mac r) in
          let* p := new_from_read r now tsig_fudge XRCODE_BADTIME in
          Ok (mkDecision XRCODE_NOTAUTH (TmResponse a mac (k_secret k)) p false)
        | Err VFormErr =>
          let* p := new_from_read r now tsig_fudge XRCODE_BADVERSBADSIG in
          Ok (mkDecision XRCODE_FORMERR (TmUnsigned (alg_name a)) p false)
        end
    end
  end.

(* the TSIG RDATA (and MAC) finish_with_mac appends, given the response octets written before it *)
Definition response_tsig (d : tsig_decision) (response : bytes) : res verr (bytes * option bytes) :=
  finish_tsig hmac response (d_mode d) (d_rr d).

End WithHmac.
