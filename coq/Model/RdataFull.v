(* Rdata::read in full (coq/Model/RdataM.v, property C18) as the [rdata_reader] parameter of the
   Reader model.  The guard states the two facts every call site guarantees (message octets are
   octets; RDLENGTH comes from a 16-bit field); it is always true on real inputs. *)
From QV Require Export Model.Reader Model.RdataM.

Definition rd_full : rdata_reader := fun c t b cur l =>
  if wf_bytesb b && (l <? 65536)%N then
    match RdataM.read c t b cur l with
    | Ok r => Ok r
    | Err (InvalidName e) => Err (RdInvalidName e)
    | Err RUnexpectedEom => Err RdUnexpectedEom
    | Err ROther => Err RdOther
    | Err ROutOfFuel => Err RdOther
    | Panic => Panic
    end
  else Err RdOther.
