(* The octet-level instance of the query model: Model/Query.v's Writer interface implemented by
   the Writer model of Model/MsgWriter.v (C12/C13), and the composition with the part of
   Server::handle_message that prepares the response of a clean QUERY (Writer::new with the
   transport's limit, id / QR / opcode / RD, the echoed question, EDNS reservation and the
   negotiated limit, then handle_non_axfr_query and finish).  No proofs here.

   What is NOT in this composition: request parsing and the pre-scan (Model/Server.v decides that a
   request is a clean QUERY for a Loaded zone and what the EDNS size and limit are), TSIG. *)
From QV Require Import Base.Res Base.Octets Model.MsgWriter Model.ZoneTree Model.Query.

Definition sec_of (s : sect) : section :=
  match s with SAn => SecAnswer | SNs => SecAuthority | SAr => SecAdditional end.
Definition hint_of (h : qhint) : hint :=
  match h with
  | QhQname => HQname | QhOwner => HOwner | QhRdata => HRdata | QhExplicit p => HExplicit p | QhNone => HNone
  end.
Definition wie (e : werr) : wierr := match e with Truncation => WiTruncation | _ => WiOther end.

(* the ttl parameter of the Rust API is a Ttl, a value Ttl::from has produced: [ttl_from] is the identity on those *)
Definition w_iface : wiface writer :=
  mkWi writer
    (fun s h owner ty cls ttl rd w =>
       match add_section_rr (sec_of s) (hint_of h) owner ty cls (ttl_from ttl) rd None w with
       | Ok (_, w') => Ok w'
       | Err (e, w') => Err (wie e, w')
       | Panic => Panic
       end)
    (fun s h owner ty cls ttl rds vec w =>
       match add_section_rrset (sec_of s) (hint_of h) owner ty cls (ttl_from ttl) rds (if vec then Some [] else None) w with
       | Ok (v, w') => Ok (match v with Some l => l | None => [] end, w')
       | Err (e, w') => Err (wie e, w')
       | Panic => Panic
       end)
    (fun b w => match set_aa b w with Ok w' => Some w' | _ => None end)
    (fun rc w => match set_rcode rc w with Ok w' => Some w' | _ => None end)
    (fun b w => match set_tc b w with Ok w' => Some w' | _ => None end)
    clear_rrs.

Definition tcp_limit_w : nat := N.to_nat 65535.
Definition udp_limit_w : nat := N.to_nat 512.

(* The writer as handle_message hands it to handle_query for a clean QUERY.
   [edns]: Some (server's payload size) when the request carried an OPT; [limit]: the negotiated
   limit (UDP with OPT only; computed by Model/Server.v).  None: a step failed or panicked (the
   server model covers those paths; they do not reach query answering). *)
Definition prepare_w (buf : bytes) (tcp : bool) (id : N) (rd : bool) (qname : zname) (qtype qclass : N)
    (edns : option N) (limit : nat) : option writer :=
  match writer_new buf (if tcp then tcp_limit_w else udp_limit_w) with
  | Ok w0 =>
    match (let* w1 := set_id id w0 in let* w2 := set_qr true w1 in
           let* w3 := set_opcode 0 w2 in set_rd rd w3) with
    | Ok w4 =>
      match add_question qname qtype qclass w4 with
      | Ok (_, w5) =>
        match edns with
        | None => Some w5
        | Some size =>
          match set_edns size w5 with
          | Ok (_, w6) =>
            if tcp then Some w6
            else match MsgWriter.set_limit limit w6 with Ok w7 => Some w7 | _ => None end
          | _ => None
          end
        end
      | _ => None
      end
    | _ => None
    end
  | _ => None
  end.

(* the complete response to a clean QUERY answered from the Loaded zone [z]: length and buffer *)
Definition respond_w (negttl : N -> N -> N) (buf : bytes) (tcp : bool) (id : N) (rd : bool)
    (qname : zname) (qtype qclass : N) (edns : option N) (limit : nat) (z : zone) : option (nat * bytes) :=
  match prepare_w buf tcp id rd qname qtype qclass edns limit with
  | None => None
  | Some w =>
    match handle_non_axfr_query w_iface negttl z qname qtype tcp w with
    | None => None
    | Some w' => match finish w' with Ok r => Some r | _ => None end
    end
  end.

(* a response that does not come from query answering (REFUSED, NOTIMP, SERVFAIL for a zone that is not
   loaded): the prepared writer with the RCODE the server model decided *)
Definition respond_plain (buf : bytes) (tcp : bool) (id : N) (rd : bool) (qname : zname) (qtype qclass : N)
    (edns : option N) (limit : nat) (rcode : N) : option (nat * bytes) :=
  match prepare_w buf tcp id rd qname qtype qclass edns limit with
  | None => None
  | Some w =>
    match set_rcode rcode w with
    | Ok w' => match finish w' with Ok r => Some r | _ => None end
    | _ => None
    end
  end.
