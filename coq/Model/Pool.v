(* Model of /repo/src/thread.rs: one ThreadGroup with one ThreadPool, as a labelled
   transition system over ALL interleavings.

   Shared state = the two records behind the two mutexes (GroupRecords:
   thread_count, shutting_down, whether the pool is still in `pools`; PoolRecords:
   queue, available_workers, shutting_down) + one program counter per thread.
   A step is one critical section (lock .. unlock / wait / return) executed
   atomically; the nested sections (ThreadGroup::shut_down and ThreadPool::shut_down
   hold the group lock while they lock the pool) are two steps with an explicit [glock].
   Condition variables are wait sets *derived from the pcs*: a thread is in the
   wait set of task_wakeup iff its pc is [WWait], of available_wakeup iff [SWait],
   of shutdown_wakeup iff [RWait]/[AwWait].  notify_one wakes ANY waiter (the
   label carries the choice), notify_all wakes all, [LSpurious] wakes anyone at any
   time, and wait_timeout is split: [LTimer] (the timer fires; allowed at any
   moment, even after a notification was consumed) and then the waiter's next
   section, which looks at [timed_out()].
   Labels carry the *outcome* of the section (what the hooked code logs), so a
   label is enabled only if the model takes the same branch: [step] is a partial
   function, executable, deterministic.
   usize underflow (`available_workers -= 1`, `thread_count -= 1`) sets [crashed]
   (= Rust panic in the harness build); Proofs show it unreachable.
   [fx] selects the worker loop: [true] = repaired code (re-check the queue when
   wait_timeout reports a timeout), [false] = the loop as it was.  No proofs here. *)
From Coq Require Export List Arith Bool.
Export ListNotations.

Inductive op := OSubmit | OSpawn.          (* ThreadPool::submit / ::submit_or_spawn *)
Inductive wkind := Perm | Aux.             (* permanent (respawnable) / auxiliary (one-shot) worker *)

Inductive pc :=
(* a thread calling submit / submit_or_spawn for each element of its program *)
| SIdle (ops : list op)                    (* between calls *)
| SWait (rest : list op)                   (* submit: blocked in available_wakeup.wait *)
| SWoken (rest : list op)                  (* ... woken, has to re-acquire the pool mutex *)
| SSpawn (rest : list op)                  (* submit_or_spawn: pool lock dropped, start_oneshot not yet entered *)
(* pool_worker_loop + the handle's Drop *)
| WIdle (k : wkind)                        (* before `pool.records.lock()` at the top of the outer loop *)
| WWait (k : wkind)                        (* in task_wakeup.wait / wait_timeout; counted in available_workers *)
| WWoken (k : wkind) (timed_out : bool)    (* woken / timer fired; has to re-acquire the mutex; still counted *)
| WRun (k : wkind) (t : nat)               (* running task t outside any lock *)
| WDrop (k : wkind)                        (* left the loop or the task panicked: about to run the handle's Drop *)
| RWait                                    (* RespawnableHandle::drop: throttling delay on shutdown_wakeup *)
| RWoken
| WExited                                  (* end_thread done *)
(* ThreadGroup::shut_down *)
| GIdle | GHold | GDone
(* ThreadPool::shut_down *)
| QIdle | QMid | QDone
(* ThreadGroup::await_shutdown *)
| AwIdle | AwWait | AwWoken | AwRet.

Record state := mkState {
  tcount : nat;            (* GroupRecords.thread_count *)
  gsd : bool;              (* GroupRecords.shutting_down *)
  reg : bool;              (* the pool is still in GroupRecords.pools *)
  glock : bool;            (* group mutex held across a nested pool shutdown (a thread is at GHold/QMid) *)
  queue : list nat;        (* PoolRecords.queue (task ids) *)
  avail : nat;             (* PoolRecords.available_workers *)
  psd : bool;              (* PoolRecords.shutting_down *)
  thr : list pc;           (* thread id = position; spawned threads are appended *)
  next : nat;              (* ghost: tasks accepted so far = next fresh task id *)
  started : list nat;      (* ghost: tasks in the order they started to run *)
  done : list nat;         (* ghost: tasks that finished (or panicked) *)
  linger : bool;           (* configuration: linger_timeout is non-zero *)
  crashed : bool           (* a usize subtraction underflowed *)
}.

Definition with_tcount x s := mkState x (gsd s) (reg s) (glock s) (queue s) (avail s) (psd s) (thr s) (next s) (started s) (done s) (linger s) (crashed s).
Definition with_gsd x s := mkState (tcount s) x (reg s) (glock s) (queue s) (avail s) (psd s) (thr s) (next s) (started s) (done s) (linger s) (crashed s).
Definition with_reg x s := mkState (tcount s) (gsd s) x (glock s) (queue s) (avail s) (psd s) (thr s) (next s) (started s) (done s) (linger s) (crashed s).
Definition with_glock x s := mkState (tcount s) (gsd s) (reg s) x (queue s) (avail s) (psd s) (thr s) (next s) (started s) (done s) (linger s) (crashed s).
Definition with_queue x s := mkState (tcount s) (gsd s) (reg s) (glock s) x (avail s) (psd s) (thr s) (next s) (started s) (done s) (linger s) (crashed s).
Definition with_avail x s := mkState (tcount s) (gsd s) (reg s) (glock s) (queue s) x (psd s) (thr s) (next s) (started s) (done s) (linger s) (crashed s).
Definition with_psd x s := mkState (tcount s) (gsd s) (reg s) (glock s) (queue s) (avail s) x (thr s) (next s) (started s) (done s) (linger s) (crashed s).
Definition with_thr x s := mkState (tcount s) (gsd s) (reg s) (glock s) (queue s) (avail s) (psd s) x (next s) (started s) (done s) (linger s) (crashed s).
Definition with_next x s := mkState (tcount s) (gsd s) (reg s) (glock s) (queue s) (avail s) (psd s) (thr s) x (started s) (done s) (linger s) (crashed s).
Definition with_started x s := mkState (tcount s) (gsd s) (reg s) (glock s) (queue s) (avail s) (psd s) (thr s) (next s) x (done s) (linger s) (crashed s).
Definition with_done x s := mkState (tcount s) (gsd s) (reg s) (glock s) (queue s) (avail s) (psd s) (thr s) (next s) (started s) x (linger s) (crashed s).
Definition with_crashed x s := mkState (tcount s) (gsd s) (reg s) (glock s) (queue s) (avail s) (psd s) (thr s) (next s) (started s) (done s) (linger s) x.

Fixpoint upd {A} (i : nat) (x : A) (l : list A) : list A :=
  match l, i with
  | [], _ => []
  | _ :: t, O => x :: t
  | h :: t, S j => h :: upd j x t
  end.

Definition set_pc (i : nat) (p : pc) (s : state) : state := with_thr (upd i p (thr s)) s.

(* ---- condition variables ------------------------------------------------------ *)

Definition wake (p : pc) : pc :=
  match p with
  | SWait r => SWoken r
  | WWait k => WWoken k false
  | RWait => RWoken
  | AwWait => AwWoken
  | _ => p
  end.

Definition on_task (p : pc) : bool := match p with WWait _ => true | _ => false end.     (* task_wakeup *)
Definition on_avail (p : pc) : bool := match p with SWait _ => true | _ => false end.    (* available_wakeup *)
Definition on_sd (p : pc) : bool := match p with RWait | AwWait => true | _ => false end. (* shutdown_wakeup *)

Definition notify_all (f : pc -> bool) (l : list pc) : list pc :=
  map (fun p => if f p then wake p else p) l.

(* notify_one: [Some j] = waiter j is the one woken; [None] = nobody is waiting
   (the notification is lost).  Any other choice is not a behaviour. *)
Definition notify_one (f : pc -> bool) (c : option nat) (l : list pc) : option (list pc) :=
  match c with
  | None => if existsb f l then None else Some l
  | Some j =>
    match nth_error l j with
    | Some p => if f p then Some (upd j (wake p) l) else None
    | None => None
    end
  end.

(* ---- labels ------------------------------------------------------------------- *)

Inductive sout := SReject | SPush | SWaitO | SNeed.      (* outcome of a submit / submit_or_spawn pool section *)
Inductive pout := POk | PReject | PFail.                 (* start_oneshot: spawned / Err(ShuttingDown) / Err(Io) *)
Inductive wout := WTake | WExitSd | WExitDl | WExitTo | WWaitO.   (* outcome of a worker's pool section *)
Inductive dout := DEnd | DWait | DRespawn | DRespawnFail.         (* outcome of a handle-drop group section *)
Inductive aout := ARet | AWaitO.

Inductive label :=
| LSubmit (i : nat) (o : sout) (c : option nat)   (* submit: one pass through its loop; c = choice of task_wakeup.notify_one *)
| LSos (i : nat) (o : sout) (c : option nat)      (* submit_or_spawn, pool section *)
| LSpawn (i : nat) (o : pout)                     (* submit_or_spawn, group section (ThreadGroup::start_oneshot) *)
| LWork (i : nat) (dl : bool) (o : wout) (c : option nat)
    (* pool_worker_loop: from the lock (top, c = choice of available_wakeup.notify_one) or from a
       wake-up, to the next wait/return/unlock; dl = "the deadline has already passed" *)
| LTaskDone (i : nat) (panicked : bool)
| LDrop (i : nat) (o : dout)                      (* OneshotHandle::drop / RespawnableHandle::drop sections *)
| LSdG (i : nat)                                  (* ThreadGroup::shut_down: lock group, set flag, drain pools *)
| LSdP (i : nat)                                  (* ... pool.shut_down_without_removing, notify_all, unlock group *)
| LPsd1 (i : nat)                                 (* ThreadPool::shut_down: remove from the group *)
| LPsd2 (i : nat)                                 (* ... shut_down_without_removing *)
| LAwait (i : nat) (o : aout)                     (* await_shutdown: one evaluation of the wait_while condition *)
| LSpurious (i : nat)                             (* spurious wake-up of a waiting thread *)
| LTimer (i : nat).                               (* a wait_timeout's timer fires *)

(* environment steps: they need no thread of the system to be scheduled *)
Definition env_label (l : label) : bool :=
  match l with LSpurious _ | LTimer _ => true | _ => false end.

(* ---- the sections -------------------------------------------------------------- *)

Definition is_aux (k : wkind) : bool := match k with Aux => true | Perm => false end.
Definition is_nil {A} (l : list A) : bool := match l with [] => true | _ => false end.

(* `available_workers -= 1` *)
Definition dec_avail (s : state) : state :=
  match avail s with
  | O => with_crashed true s
  | S n => with_avail n s
  end.

(* records.queue.push_back(task); the task gets the next id *)
Definition push_task (s : state) : state :=
  with_queue (queue s ++ [next s]) (with_next (S (next s)) s).

(* the pcs from which a submit section starts: a fresh call or a woken waiter *)
Definition sub_enter (s : state) (i : nat) : option (list op) :=
  match nth_error (thr s) i with
  | Some (SIdle (OSubmit :: r)) => Some r
  | Some (SWoken r) => Some r
  | _ => None
  end.

Definition sos_enter (s : state) (i : nat) : option (list op) :=
  match nth_error (thr s) i with
  | Some (SIdle (OSpawn :: r)) => Some r
  | _ => None
  end.

(* common part of submit and submit_or_spawn: shutting_down? available > queue.len()? *)
Definition submit_section (s : state) (i : nat) (r : list op) (blocked : pc) (ob : sout) (o : sout)
    (c : option nat) : option state :=
  if psd s then
    match o with SReject => Some (set_pc i (SIdle r) s) | _ => None end
  else if length (queue s) <? avail s then
    match o with
    | SPush =>
      match notify_one on_task c (thr s) with
      | Some l' => Some (set_pc i (SIdle r) (with_thr l' (push_task s)))
      | None => None
      end
    | _ => None
    end
  else if match o, ob with SWaitO, SWaitO => true | SNeed, SNeed => true | _, _ => false end
       then Some (set_pc i blocked s) else None.

(* the inner `loop` of pool_worker_loop, entered with the mutex held *)
Definition work_loop (s : state) (i : nat) (k : wkind) (dl : bool) (o : wout) : option state :=
  match queue s with
  | t :: q =>
    match o with
    | WTake => Some (set_pc i (WRun k t) (with_started (started s ++ [t]) (dec_avail (with_queue q s))))
    | _ => None
    end
  | [] =>
    if psd s then
      match o with WExitSd => Some (set_pc i (WDrop k) s) | _ => None end      (* available_workers NOT decremented *)
    else if is_aux k && dl then
      match o with WExitDl => Some (set_pc i (WDrop k) (dec_avail s)) | _ => None end
    else
      match o with WWaitO => Some (set_pc i (WWait k) s) | _ => None end
  end.

(* after wait_timeout / wait returned *)
Definition work_wake (fx : bool) (s : state) (i : nat) (k : wkind) (to dl : bool) (o : wout) : option state :=
  if is_aux k && to && (negb fx || is_nil (queue s)) then
    match o with WExitTo => Some (set_pc i (WDrop k) (dec_avail s)) | _ => None end
  else work_loop s i k dl o.

(* end_thread *)
Definition end_thread (s : state) : state :=
  match tcount s with
  | O => with_crashed true s
  | S n =>
    let s1 := with_tcount n s in
    if gsd s && (n =? 0) then with_thr (notify_all on_sd (thr s1)) s1 else s1
  end.

(* start_respawnable succeeded: count it, the new thread starts pool_worker_loop(pool, None) *)
Definition respawn (s : state) : state :=
  with_thr (thr s ++ [WIdle Perm]) (with_tcount (S (tcount s)) s).

(* which handle is dropped: (respawnable?, may still throttle?) *)
Definition drop_enter (s : state) (i : nat) : option (bool * bool) :=
  match nth_error (thr s) i with
  | Some (WDrop Aux) => Some (false, false)
  | Some (WDrop Perm) => Some (true, true)
  | Some RWoken => Some (true, false)
  | _ => None
  end.

Definition step (fx : bool) (s : state) (l : label) : option state :=
  match l with
  | LSubmit i o c =>
    match sub_enter s i with
    | Some r => submit_section s i r (SWait r) SWaitO o c
    | None => None
    end
  | LSos i o c =>
    match sos_enter s i with
    | Some r => submit_section s i r (SSpawn r) SNeed o c
    | None => None
    end
  | LSpawn i o =>
    if glock s then None else
    match nth_error (thr s) i with
    | Some (SSpawn r) =>
      if gsd s then
        match o with PReject => Some (set_pc i (SIdle r) s) | _ => None end
      else
        match o with
        | POk => Some (set_pc i (SIdle r)
                   (with_thr (thr s ++ [WRun Aux (next s)])
                     (with_tcount (S (tcount s))
                       (with_started (started s ++ [next s]) (with_next (S (next s)) s)))))
        | PFail => Some (set_pc i (SIdle r) s)       (* thread_count += 1; spawn fails; thread_count -= 1 *)
        | PReject => None
        end
    | _ => None
    end
  | LWork i dl o c =>
    match nth_error (thr s) i with
    | Some (WIdle k) =>
      (* records.available_workers += 1; pool.available_wakeup.notify_one(); *)
      match notify_one on_avail c (thr s) with
      | Some l' => work_loop (with_thr l' (with_avail (S (avail s)) s)) i k dl o
      | None => None
      end
    | Some (WWoken k to) => work_wake fx s i k to dl o
    | _ => None
    end
  | LTaskDone i panicked =>
    match nth_error (thr s) i with
    | Some (WRun k t) =>
      let p := if panicked then WDrop k
               else if is_aux k && negb (linger s) then WDrop k else WIdle k in
      Some (set_pc i p (with_done (t :: done s) s))
    | _ => None
    end
  | LDrop i o =>
    if glock s then None else
    match drop_enter s i with
    | Some (respawnable, may_wait) =>
      if respawnable && negb (gsd s) then
        match o with
        | DWait => if may_wait then Some (set_pc i RWait s) else None
        | DRespawn => Some (end_thread (respawn (set_pc i WExited s)))
        | DRespawnFail => Some (end_thread (set_pc i WExited s))
        | DEnd => None
        end
      else
        match o with DEnd => Some (end_thread (set_pc i WExited s)) | _ => None end
    | None => None
    end
  | LSdG i =>
    if glock s then None else
    match nth_error (thr s) i with
    | Some GIdle =>
      if reg s then Some (set_pc i GHold (with_glock true (with_reg false (with_gsd true s))))
      else Some (set_pc i GDone (with_thr (notify_all on_sd (thr s)) (with_gsd true s)))
    | _ => None
    end
  | LSdP i =>
    match nth_error (thr s) i with
    | Some GHold =>
      Some (set_pc i GDone
             (with_glock false
               (with_thr (notify_all on_sd (notify_all on_avail (notify_all on_task (thr s))))
                 (with_psd true s))))
    | _ => None
    end
  | LPsd1 i =>
    if glock s then None else
    match nth_error (thr s) i with
    | Some QIdle => Some (set_pc i QMid (with_glock true (with_reg false s)))
      (* removes the pool if it is still registered; keeps the group lock for LPsd2 *)
    | _ => None
    end
  | LPsd2 i =>
    match nth_error (thr s) i with
    | Some QMid =>
      Some (set_pc i QDone
             (with_glock false
               (with_thr (notify_all on_avail (notify_all on_task (thr s))) (with_psd true s))))
    | _ => None
    end
  | LAwait i o =>
    if glock s then None else
    match nth_error (thr s) i with
    | Some AwIdle | Some AwWoken =>
      if gsd s && (tcount s =? 0) then
        match o with ARet => Some (set_pc i AwRet s) | _ => None end
      else
        match o with AWaitO => Some (set_pc i AwWait s) | _ => None end
    | _ => None
    end
  | LSpurious i =>
    match nth_error (thr s) i with
    | Some p => if on_task p || on_avail p || on_sd p then Some (set_pc i (wake p) s) else None
    | None => None
    end
  | LTimer i =>
    match nth_error (thr s) i with
    | Some (WWait Aux) | Some (WWoken Aux false) => Some (set_pc i (WWoken Aux true) s)
    | Some RWait => Some (set_pc i RWoken s)
    | _ => None
    end
  end.

Fixpoint run (fx : bool) (s : state) (ls : list label) : option state :=
  match ls with
  | [] => Some s
  | l :: r => match step fx s l with Some s' => run fx s' r | None => None end
  end.

(* ---- initial states ------------------------------------------------------------- *)

(* right after ThreadGroup::start_pool: the permanent workers are counted and about to
   enter pool_worker_loop; any number of threads are about to call the API *)
Definition init_pc (p : pc) : bool :=
  match p with
  | SIdle _ | WIdle Perm | GIdle | QIdle | AwIdle => true
  | _ => false
  end.

Definition is_perm_idle (p : pc) : bool := match p with WIdle Perm => true | _ => false end.

Definition init_state (lg : bool) (ths : list pc) : state :=
  mkState (length (filter is_perm_idle ths)) false true false [] 0 false ths 0 [] [] lg false.

Definition initial (s : state) : Prop :=
  exists lg ths, forallb init_pc ths = true /\ s = init_state lg ths.

Definition reachable (fx : bool) (s : state) : Prop :=
  exists s0 ls, initial s0 /\ run fx s0 ls = Some s.
