(* Model of the in-memory zone store:
     src/db/hash_map_tree/node.rs   Node::new / get_or_create_descendant / iter
     src/db/hash_map_tree/zone.rs   HashMapTreeZone::new / add / lookup_base / lookup_impl /
                                    lookup / lookup_addrs / lookup_all / soa / ns / iter_by_*
     src/db/rrset.rs                RrsetList::add / lookup / iter
     src/rr/rdata_set.rs            RdataSetOwned::insert / From<&Rdata>
     src/name/mod.rs                Name::len / Index / superdomain / eq_or_subdomain_of (label-list view)
   No proofs here.

   Representation choices (see docs/C06.md):
   * a Name is the list of its non-root labels, leftmost first; the root label is implicit
     (Name::len = S (length n));  Label equality is ASCII-case-insensitive;
   * HashMap<LabelBuf, Node> is an association list, looked up with the case-insensitive
     label equality (LabelBuf's Eq/Hash), new entries appended (iteration order is unspecified
     in Rust; every consumer compares iteration results as sets);
   * RdataSetOwned (length-prefixed octets in one Vec) is the list of its RDATAs;
   * Rdata::equals is the Section variable [req] (class, type, new, existing); its real instance is
     Model/ZoneReal.v [req_real] (the theorems for it: Proofs/ZoneRealP.v);
   * slice::binary_search_by_key over the Vec<Rrset> kept sorted by type is an ordered scan
     (same answer on sorted slices; sortedness is the invariant rrsets_sorted proved in Proofs/). *)
From QV Require Import Base.Res Base.Octets Gen.ZoneConsts.

Definition label := bytes.
Definition name := list label.

Inductive zone_err := NotInZone | ClassMismatch | TtlMismatch | InvalidRdata.

(* ---------------------------------------------------------------- names *)

Fixpoint bytes_eqb (a b : bytes) : bool :=
  match a, b with
  | [], [] => true
  | x :: a', y :: b' => N.eqb x y && bytes_eqb a' b'
  | _, _ => false
  end.

Definition lower_label (l : label) : label := map lower l.

(* impl PartialEq for Label: eq_ignore_ascii_case *)
Definition label_eqb (a b : label) : bool := bytes_eqb (lower_label a) (lower_label b).

(* Name::len: number of labels including the root label *)
Definition name_len (n : name) : nat := S (length n).

(* impl Index<usize> for Name: label [i]; [len-1] is the null label; label_offset(i) indexes
   past the offsets array otherwise *)
Definition name_index (n : name) (i : nat) : res zone_err label :=
  match nth_error n i with
  | Some l => Ok l
  | None => if i =? length n then Ok [] else Panic
  end.

(* Name::superdomain *)
Definition superdomain (n : name) (skip : nat) : option name :=
  if skip <? name_len n then Some (skipn skip n) else None.

(* Name::eq_or_subdomain_of: len >= other.len && zip of the reversed label iterators all equal
   (the two root labels always compare equal) *)
Definition eq_or_subdomain_of (a b : name) : bool :=
  (name_len b <=? name_len a) &&
  forallb (fun p => label_eqb (fst p) (snd p)) (combine (rev a) (rev b)).

(* usize subtraction with overflow checks *)
Definition usub (a b : nat) : res zone_err nat := if b <=? a then Ok (a - b) else Panic.

(* ---------------------------------------------------------------- RRsets *)

Record rrset := mk_rrset { rs_type : N; rs_ttl : N; rs_rdatas : list bytes }.
Definition rrset_list := list rrset.

Record record := mk_record
  { r_owner : name; r_type : N; r_class : N; r_ttl : N; r_rdata : bytes }.

Section WithReq.
(* Rdata::equals(self = new, other = existing, class, type) *)
Variable req : N -> N -> bytes -> bytes -> bool.

(* RdataSetOwned::insert *)
Definition rdataset_insert (cls ty : N) (s : list bytes) (rd : bytes) : list bytes :=
  if existsb (fun ex => req cls ty rd ex) s then s else s ++ [rd].

(* RrsetList::add.  Err leaves the list untouched (the code returns before mutating). *)
Fixpoint rrsets_add (cls ty ttl : N) (rd : bytes) (l : rrset_list) : res zone_err rrset_list :=
  match l with
  | [] => Ok [mk_rrset ty ttl [rd]]
  | r :: l' =>
    if (rs_type r =? ty)%N then
      if negb (rs_ttl r =? ttl)%N then Err TtlMismatch
      else Ok (mk_rrset (rs_type r) (rs_ttl r) (rdataset_insert cls ty (rs_rdatas r) rd) :: l')
    else if (ty <? rs_type r)%N then Ok (mk_rrset ty ttl [rd] :: r :: l')
    else map_ok (cons r) (rrsets_add cls ty ttl rd l')
  end.

End WithReq.

(* RrsetList::lookup *)
Fixpoint rr_lookup (ty : N) (l : rrset_list) : option rrset :=
  match l with
  | [] => None
  | r :: l' => if (rs_type r =? ty)%N then Some r else rr_lookup ty l'
  end.

(* ---------------------------------------------------------------- nodes *)

Inductive node := Node (nm : name) (ch : list (label * node)) (data : rrset_list).

Definition node_name (t : node) : name := match t with Node nm _ _ => nm end.
Definition node_children (t : node) : list (label * node) := match t with Node _ ch _ => ch end.
Definition node_data (t : node) : rrset_list := match t with Node _ _ d => d end.

(* Node::new *)
Definition node_new (nm : name) : node := Node nm [] [].

(* HashMap::get with LabelBuf's case-insensitive Eq *)
Fixpoint find_child (l : label) (ch : list (label * node)) : option node :=
  match ch with
  | [] => None
  | (k, c) :: ch' => if label_eqb k l then Some c else find_child l ch'
  end.

(* writing through the &mut returned by entry(..) for an occupied entry *)
Fixpoint set_child (l : label) (c' : node) (ch : list (label * node)) : list (label * node) :=
  match ch with
  | [] => []
  | (k, c) :: ch' => if label_eqb k l then (k, c') :: ch' else (k, c) :: set_child l c' ch'
  end.

(* Node::get_or_create_descendant followed by the caller's mutation [f] of the target's data
   (the &mut Node is used exactly once, for node.data.rrsets.add).  The outcome carries the tree
   as it is AFTER the call even when [f] reports an error: intermediate nodes stay created. *)
Fixpoint node_update (level : nat) (nm : name) (f : rrset_list -> res zone_err rrset_list)
    (t : node) : res zone_err (node * option zone_err) :=
  match level with
  | 0 =>
    match f (node_data t) with
    | Ok d' => Ok (Node (node_name t) (node_children t) d', None)
    | Err e => Ok (t, Some e)
    | Panic => Panic
    end
  | S l =>
    let* lab := name_index nm l in
    match find_child lab (node_children t) with
    | Some c =>
      let* (c', e) := node_update l nm f c in
      Ok (Node (node_name t) (set_child lab c' (node_children t)) (node_data t), e)
    | None =>
      match superdomain nm l with            (* .unwrap() *)
      | None => Panic
      | Some sup =>
        let* (c', e) := node_update l nm f (node_new sup) in
        Ok (Node (node_name t) (node_children t ++ [(lab, c')]) (node_data t), e)
      end
    end
  end.

(* Node::iter — pre-order; children in map order (unspecified in Rust) *)
Fixpoint node_iter (t : node) : list (name * rrset_list) :=
  match t with
  | Node nm ch d =>
    (nm, d) :: (fix go (ch : list (label * node)) : list (name * rrset_list) :=
                  match ch with
                  | [] => []
                  | (_, c) :: ch' => node_iter c ++ go ch'
                  end) ch
  end.

(* Node::iter as the code has it: the explicit-stack state machine of Iter::execute_state_machine,
   driven by Iterator::next's loop until exhaustion.  [node_iter_sm] is proved equal to the
   pre-order recursion [node_iter] (Proofs/ZoneIterSmP.v); the runner uses this one. *)
Inductive iter_state :=
| ISNode (n : node) (stack : list (list (label * node)))
| ISChildren (children : list (label * node)) (stack : list (list (label * node)))
| ISFinished.

(* one call of execute_state_machine: new state, and Some(result) if a value for next() was produced *)
Definition iter_step (s : iter_state) : iter_state * option (option (name * rrset_list)) :=
  match s with
  | ISNode n stack => (ISChildren (node_children n) stack, Some (Some (node_name n, node_data n)))
  | ISChildren children stack =>
    match children with
    | (_, next_child) :: rest => (ISNode next_child (rest :: stack), None)      (* stack.push(children) *)
    | [] =>
      match stack with
      | parent :: stack' => (ISChildren parent stack', None)                   (* stack.pop() *)
      | [] => (ISFinished, Some None)
      end
    end
  | ISFinished => (ISFinished, Some None)
  end.

(* collect(): call next() until it returns None; every loop iteration of next() costs one unit of fuel *)
Fixpoint iter_run (fuel : nat) (s : iter_state) : option (list (name * rrset_list)) :=
  match fuel with
  | 0 => None                                   (* model-only: out of fuel *)
  | S f =>
    match iter_step s with
    | (s', None) => iter_run f s'
    | (s', Some (Some item)) => option_map (cons item) (iter_run f s')
    | (_, Some None) => Some []
    end
  end.

(* number of state-machine steps needed for a subtree *)
Fixpoint iter_cost (t : node) : nat :=
  match t with
  | Node _ ch _ =>
    1 + (fix go (ch : list (label * node)) : nat :=
           match ch with
           | [] => 0
           | (_, c) :: ch' => 2 + iter_cost c + go ch'
           end) ch
  end.

Definition node_iter_sm (t : node) : option (list (name * rrset_list)) :=
  iter_run (S (iter_cost t)) (ISNode t []).

(* ---------------------------------------------------------------- zone *)

Record zone := mk_zone { z_class : N; z_wide : bool; z_apex : node }.

Definition zone_new (nm : name) (cls : N) (wide : bool) : zone := mk_zone cls wide (node_new nm).
Definition zone_name (z : zone) : name := node_name (z_apex z).

(* HashMapTreeZone::add: the zone after the call and the Result it returned *)
Definition zone_add (req : N -> N -> bytes -> bytes -> bool) (z : zone) (r : record)
    : res zone_err (zone * option zone_err) :=
  if negb (eq_or_subdomain_of (r_owner r) (zone_name z)) then Ok (z, Some NotInZone)
  else if negb (r_class r =? z_class z)%N then Ok (z, Some ClassMismatch)
  else
    let* level := usub (name_len (r_owner r)) (name_len (zone_name z)) in
    let* (a', e) := node_update level (r_owner r)
                      (rrsets_add req (r_class r) (r_type r) (r_ttl r) (r_rdata r)) (z_apex z) in
    Ok (mk_zone (z_class z) (z_wide z) a', e).

(* a whole load: every add in order; None if some add panicked *)
Fixpoint zone_build (req : N -> N -> bytes -> bytes -> bool) (z : zone) (rs : list record) : option zone :=
  match rs with
  | [] => Some z
  | r :: rs' =>
    match zone_add req z r with
    | Ok (z', _) => zone_build req z' rs'
    | _ => None
    end
  end.

(* ---------------------------------------------------------------- lookups *)

Definition single_rrset := (N * list bytes)%type.     (* SingleRrset: ttl, rdatas *)
Definition to_single (r : rrset) : single_rrset := (rs_ttl r, rs_rdatas r).

Inductive base_result :=
| BFound (data : rrset_list) (sos : option name)
| BReferral (child : name) (ns : single_rrset)
| BNxDomain
| BWrongZone.

(* lookup_impl *)
Fixpoint lookup_impl (level : nat) (t : node) (nm : name) (sbc at_apex : bool)
    : res zone_err base_result :=
  match (if negb at_apex && negb sbc then rr_lookup TYPE_NS (node_data t) else None) with
  | Some ns => Ok (BReferral (node_name t) (to_single ns))
  | None =>
    match level with
    | 0 => Ok (BFound (node_data t) None)
    | S l =>
      let* lab := name_index nm l in
      match find_child lab (node_children t) with
      | Some sub => lookup_impl l sub nm sbc false
      | None =>
        match find_child ASTERISK_LABEL (node_children t) with
        | Some w => Ok (BFound (node_data w) (Some (node_name w)))
        | None => Ok BNxDomain
        end
      end
    end
  end.

(* lookup_base *)
Definition lookup_base (z : zone) (nm : name) (unchecked sbc : bool) : res zone_err base_result :=
  if negb unchecked && negb (eq_or_subdomain_of nm (zone_name z)) then Ok BWrongZone
  else
    let* level := usub (name_len nm) (name_len (zone_name z)) in
    lookup_impl level (z_apex z) nm sbc true.

Inductive lookup_result :=
| LFound (rs : single_rrset) (sos : option name)
| LCname (rs : single_rrset) (sos : option name)
| LReferral (child : name) (ns : single_rrset)
| LNoRecords (sos : option name)
| LNxDomain
| LWrongZone.

Inductive lookup_addrs_result :=
| AFound (a aaaa : option single_rrset) (sos : option name)
| AReferral (child : name) (ns : single_rrset)
| ANxDomain
| AWrongZone.

Inductive lookup_all_result :=
| LAFound (rrsets : rrset_list) (sos : option name)
| LAReferral (child : name) (ns : single_rrset)
| LANxDomain
| LAWrongZone.

Definition zone_lookup (z : zone) (nm : name) (ty : N) (unchecked sbc : bool) : res zone_err lookup_result :=
  let* b := lookup_base z nm unchecked sbc in
  Ok match b with
     | BFound data sos =>
       match rr_lookup ty data with
       | Some rs => LFound (to_single rs) sos
       | None =>
         match rr_lookup TYPE_CNAME data with
         | Some rs => LCname (to_single rs) sos
         | None => LNoRecords sos
         end
       end
     | BReferral c ns => LReferral c ns
     | BNxDomain => LNxDomain
     | BWrongZone => LWrongZone
     end.

Definition zone_lookup_addrs (z : zone) (nm : name) (unchecked sbc : bool) : res zone_err lookup_addrs_result :=
  let* b := lookup_base z nm unchecked sbc in
  Ok match b with
     | BFound data sos =>
       AFound (option_map to_single (rr_lookup TYPE_A data))
              (if (z_class z =? CLASS_IN)%N then option_map to_single (rr_lookup TYPE_AAAA data) else None)
              sos
     | BReferral c ns => AReferral c ns
     | BNxDomain => ANxDomain
     | BWrongZone => AWrongZone
     end.

Definition zone_lookup_all (z : zone) (nm : name) (unchecked sbc : bool) : res zone_err lookup_all_result :=
  let* b := lookup_base z nm unchecked sbc in
  Ok match b with
     | BFound data sos => LAFound data sos
     | BReferral c ns => LAReferral c ns
     | BNxDomain => LANxDomain
     | BWrongZone => LAWrongZone
     end.

(* soa / ns / iter_by_node / iter_by_rrset *)
Definition zone_soa (z : zone) : option single_rrset :=
  option_map to_single (rr_lookup TYPE_SOA (node_data (z_apex z))).
Definition zone_ns (z : zone) : option single_rrset :=
  option_map to_single (rr_lookup TYPE_NS (node_data (z_apex z))).
Definition zone_iter_by_node (z : zone) : list (name * rrset_list) := node_iter (z_apex z).
Definition zone_iter_by_rrset (z : zone) : list (name * rrset) :=
  flat_map (fun nd => map (fun rs => (fst nd, rs)) (snd nd)) (node_iter (z_apex z)).

(* A simplified stand-in for Rdata::equals (NOT used by any theorem): case-insensitive octet
   comparison for the types whose RDATA is one domain name, octet equality otherwise.  It was the
   first wave's runner instance; the zone checks (C06/C20/C21) now run and prove the REAL equality
   (Model/ZoneReal.v [req_real] = Model/RdataM.v [equals]).  Still used by the C04/C05/server runners,
   whose generators stay where it is exact. *)
Definition is_name_type (ty : N) : bool :=
  existsb (N.eqb ty) [2; 3; 4; 5; 7; 8; 9; 12]%N.
Definition req_simple (cls ty : N) (a b : bytes) : bool :=
  if is_name_type ty then bytes_eqb (map lower a) (map lower b) else bytes_eqb a b.
