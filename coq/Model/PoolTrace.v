(* Trace validation: the hooked thread.rs logs one event per critical section (taken
   while the mutex is held, so the log is a linearisation) with the shared counters
   after the section.  [accept_event] turns an event into the labels of Model/Pool.v
   -- inserting the silent steps the log cannot show (spurious wake-up / timer fired /
   task finished) and resolving notify_one to the first waiter -- runs [step] and
   compares the counters.  [validate] folds it over a recorded trace.
   No proofs here (soundness w.r.t. [run] is in Proofs/PoolTraceP.v). *)
From QV Require Export Model.Pool.

Inductive ekind :=
| ESubReject | ESubPush | ESubWait                 (* ThreadPool::submit *)
| ESosReject | ESosPush | ESosNeed                 (* ThreadPool::submit_or_spawn, pool section *)
| ESpawn | ESpawnReject | ESpawnFail               (* ThreadGroup::start_oneshot *)
| EWTake | EWExitSd | EWExitDl | EWExitTo | EWWait (* pool_worker_loop *)
| EEnd | ERWait | ERespawnEnd | ERespawnFailEnd    (* handle drops *)
| ESdG | EPoolSd | EPsd1                           (* shut_down; shut_down_without_removing; ThreadPool::shut_down *)
| EAwWait | EAwRet.

(* [enote]: 0 = nothing, 1 = wait_timeout returned without timeout, 2 = with timed_out().
   Pool events: ea = available_workers, eb = queue.len(), ec = shutting_down.
   Group events: ea = thread_count, eb = shutting_down, ec = verif id of the spawned thread
   (sd_g: number of pools drained; psd1: the pool was still registered). *)
Record event := mkEvent { etid : nat; ek : ekind; enote : nat; ea : nat; eb : nat; ec : nat }.

Fixpoint find_idx (f : pc -> bool) (l : list pc) (i : nat) : option nat :=
  match l with
  | [] => None
  | p :: r => if f p then Some i else find_idx f r (S i)
  end.
Definition first_waiter (f : pc -> bool) (l : list pc) : option nat := find_idx f l 0.

Definition is_drop_kind (k : ekind) : bool :=
  match k with EEnd | ERWait | ERespawnEnd | ERespawnFailEnd => true | _ => false end.

(* silent steps of thread [etid e] that must have happened before it logged [e] *)
Definition pre_labels (s : state) (e : event) : list label :=
  let i := etid e in
  match nth_error (thr s) i with
  | Some (SWait _) | Some AwWait | Some (WWait Perm) => [LSpurious i]
  | Some RWait => [LTimer i]
  | Some (WWait Aux) => if enote e =? 2 then [LTimer i] else [LSpurious i]
  | Some (WWoken Aux false) => if enote e =? 2 then [LTimer i] else []
  | Some (WRun k _) =>
    (* the task returned; it panicked iff the handle is dropped although the
       worker would otherwise have gone (back) to pool_worker_loop *)
    [LTaskDone i (is_drop_kind (ek e) && negb (is_aux k && negb (linger s)))]
  | _ => []
  end.

Definition bool_nat (b : bool) : nat := if b then 1 else 0.

Definition pool_counters (s : state) (e : event) : bool :=
  (avail s =? ea e) && (length (queue s) =? eb e) && (bool_nat (psd s) =? ec e).
Definition group_counters (s : state) (e : event) : bool :=
  (tcount s =? ea e) && (bool_nat (gsd s) =? eb e).

(* the label of the section itself, and which counters the event carries (true = pool) *)
Definition main_label (s : state) (e : event) : option (label * bool) :=
  let i := etid e in
  let ct := first_waiter on_task (thr s) in
  let ca := first_waiter on_avail (thr s) in
  match ek e with
  | ESubReject => Some (LSubmit i SReject None, true)
  | ESubPush => Some (LSubmit i SPush ct, true)
  | ESubWait => Some (LSubmit i SWaitO None, true)
  | ESosReject => Some (LSos i SReject None, true)
  | ESosPush => Some (LSos i SPush ct, true)
  | ESosNeed => Some (LSos i SNeed None, true)
  | ESpawn => if ec e =? length (thr s) then Some (LSpawn i POk, false) else None
  | ESpawnReject => Some (LSpawn i PReject, false)
  | ESpawnFail => Some (LSpawn i PFail, false)
  | EWTake => Some (LWork i false WTake ca, true)
  | EWExitSd => Some (LWork i false WExitSd ca, true)
  | EWExitDl => Some (LWork i true WExitDl ca, true)
  | EWExitTo => Some (LWork i false WExitTo ca, true)
  | EWWait => Some (LWork i false WWaitO ca, true)
  | EEnd => Some (LDrop i DEnd, false)
  | ERWait => Some (LDrop i DWait, false)
  | ERespawnEnd => if ec e =? length (thr s) then Some (LDrop i DRespawn, false) else None
  | ERespawnFailEnd => Some (LDrop i DRespawnFail, false)
  | ESdG => if ec e =? bool_nat (reg s) then Some (LSdG i, false) else None     (* ec = pools drained *)
  | EPoolSd =>
    match nth_error (thr s) i with
    | Some GHold => Some (LSdP i, true)
    | Some QMid => Some (LPsd2 i, true)
    | _ => None
    end
  | EPsd1 => if ec e =? bool_nat (reg s) then Some (LPsd1 i, false) else None   (* ec = it was still registered *)
  | EAwWait => Some (LAwait i AWaitO, false)
  | EAwRet => Some (LAwait i ARet, false)
  end.

(* the labels an event stands for *)
Definition event_labels (fx : bool) (s : state) (e : event) : option (list label * bool) :=
  let pre := pre_labels s e in
  match run fx s pre with
  | Some s1 =>
    match main_label s1 e with
    | Some (l, pool) => Some (pre ++ [l], pool)
    | None => None
    end
  | None => None
  end.

(* the note of a worker event must agree with the way the section was entered *)
Definition note_ok (s : state) (e : event) : bool :=
  match nth_error (thr s) (etid e) with
  | Some (WWait Aux) | Some (WWoken Aux _) => (enote e =? 1) || (enote e =? 2)
  | _ => enote e =? 0
  end.

Definition accept_event (fx : bool) (s : state) (e : event) : option state :=
  if negb (note_ok s e) then None else
  match event_labels fx s e with
  | Some (ls, pool) =>
    match run fx s ls with
    | Some s' =>
      if (if pool then pool_counters s' e else group_counters s' e) && negb (crashed s') then Some s' else None
    | None => None
    end
  | None => None
  end.

(* Some final state, or the index of the first event the model cannot follow
   together with the model state before it *)
Fixpoint validate (fx : bool) (s : state) (evs : list event) (idx : nat) : state * option nat :=
  match evs with
  | [] => (s, None)
  | e :: r =>
    match accept_event fx s e with
    | Some s' => validate fx s' r (S idx)
    | None => (s, Some idx)
    end
  end.

Definition accepts (fx : bool) (s : state) (evs : list event) : bool :=
  match snd (validate fx s evs 0) with None => true | Some _ => false end.

(* ---- end-of-run observations printed by the runner -------------------------------- *)

Definition quiescent (p : pc) : bool :=
  match p with
  | SIdle [] | WExited | GDone | QDone | AwRet => true
  | _ => false
  end.
Definition all_quiescent (s : state) : bool := forallb quiescent (thr s).
