(* Model of the daemon's zone (re)loading: /repo/src/bin/quandaryd/zones.rs (load, reload,
   load_impl, check_mtime, make_error_catalog_entry), the duplicate-zone test of
   src/bin/quandaryd/config.rs (find_duplicated_zone) and the SIGHUP branch of
   src/bin/quandaryd/run.rs (reload_zones_and_keys: a failed configuration load keeps
   the current catalog).  The catalog is the model of C22 (Model/CatTree.v).

   The file system is an explicit input:
     fs_mtime path  = what  fs::metadata(path).and_then(|m| m.modified())  returns
                      (a time | ErrorKind::Unsupported | any other error),
     fs_load cfg    = what  load_and_validate_zone(cfg)  returns (zone data | error);
   zone data, paths and times are numbers (identity of the loaded contents, path id,
   seconds).  Logging is not modelled; `write!(String).unwrap()` cannot fail. *)
From QV Require Export Model.CatTree.

Inductive variant :=
| VLoaded (z : N)        (* Entry::Loaded(Arc<zone>, _): the loaded contents *)
| VNotYetLoaded
| VFailedToLoad.

(* zones.rs Metadata *)
Record metadata := mkMeta { md_path : N; md_mtime : option N }.

Definition payload := (variant * metadata)%type.
Definition rentry := entry payload.
Definition rcatalog := catalog payload.

(* config.rs ZoneConfig (glue_policy only matters inside load_and_validate_zone) *)
Record zone_cfg := mkCfg { zc_name : cname; zc_class : N; zc_path : N }.

Inductive mt_res := MtOk (t : N) | MtUnsupported | MtErr.
Inductive ld_res := LdOk (z : N) | LdErr.

Inductive mtime_check :=
| McLoad (mtime : option N)
| McSkip (e : rentry).

(* make_error_catalog_entry: loaded.cloned().unwrap_or_else(|| FailedToLoad(..)) *)
Definition make_error_catalog_entry (cfg : zone_cfg) (loaded : option rentry) : rentry :=
  match loaded with
  | Some e => e
  | None => mkEntry (zc_name cfg) (zc_class cfg) (VFailedToLoad, mkMeta (zc_path cfg) None)
  end.

Section Fs.
Variable fs_mtime : N -> mt_res.
Variable fs_load : zone_cfg -> ld_res.

Definition check_mtime (cfg : zone_cfg) (loaded_zone : option rentry) : mtime_check :=
  match fs_mtime (zc_path cfg) with
  | MtOk mtime =>
    match loaded_zone with
    | Some e =>
      match e_val e with
      | (VLoaded z, md) =>
        if (md_path md =? zc_path cfg)%N
           && (match md_mtime md with Some loaded_mtime => (mtime <=? loaded_mtime)%N | None => false end)
        then McSkip (mkEntry (e_name e) (e_class e) (VLoaded z, md))     (* zone.clone(), metadata.clone() *)
        else McLoad (Some mtime)
      | _ => McLoad (Some mtime)
      end
    | None => McLoad (Some mtime)
    end
  | MtErr => McSkip (make_error_catalog_entry cfg loaded_zone)
  | MtUnsupported => McLoad None
  end.

(* the entry load_impl inserts for one configured zone *)
Definition entry_of (cfg : zone_cfg) (loaded_zone : option rentry) : rentry :=
  match check_mtime cfg loaded_zone with
  | McSkip e => e
  | McLoad mtime =>
    match fs_load cfg with
    | LdOk z => mkEntry (zc_name cfg) (zc_class cfg) (VLoaded z, mkMeta (zc_path cfg) mtime)
    | LdErr => make_error_catalog_entry cfg loaded_zone
    end
  end.

(* load_impl's loop.  [fixed = true]: the previous entry is found with the exact
   Catalog::get (the fix: commit); [fixed = false]: with the longest-match lookup
   (the pinned code, kept for the regression witness). *)
Fixpoint load_loop (fixed : bool) (zones : list zone_cfg) (loaded : option rcatalog)
         (catalog : rcatalog) : res unit rcatalog :=
  match zones with
  | [] => Ok catalog
  | cfg :: rest =>
    let* loaded_zone :=
       match loaded with
       | None => Ok None
       | Some c => if fixed then cat_get c (zc_name cfg) (zc_class cfg)
                   else cat_lookup c (zc_name cfg) (zc_class cfg)
       end in
    let* (catalog', _) := cat_insert catalog (entry_of cfg loaded_zone) in
    load_loop fixed rest loaded catalog'
  end.

Definition load_impl_gen (fixed : bool) (zones : list zone_cfg) (loaded : option rcatalog)
  : res unit rcatalog := load_loop fixed zones loaded cat_new.
Definition load_impl := load_impl_gen true.

End Fs.

(* ---- config.rs: find_duplicated_zone (HashSet<(&Name, Class)>; Name's Eq/Hash ignore case) *)

Definition zkey (cfg : zone_cfg) : N * cname := (zc_class cfg, lower_name (zc_name cfg)).

Definition zkey_eqb (a b : N * cname) : bool :=
  (fst a =? fst b)%N && (if list_eq_dec label_eq_dec (snd a) (snd b) then true else false).

(* HashSet::insert returns false when the value is already present *)
Definition set_mem (k : N * cname) (s : list (N * cname)) : bool := existsb (zkey_eqb k) s.

Fixpoint find_dup (seen : list (N * cname)) (zones : list zone_cfg) : option (N * cname) :=
  match zones with
  | [] => None
  | z :: rest => if set_mem (zkey z) seen then Some (zkey z) else find_dup (zkey z :: seen) rest
  end.
Definition find_duplicated_zone (zones : list zone_cfg) := find_dup [] zones.

(* ---- run.rs: the daemon's catalog over a history of (re)loads -------------------- *)

(* what one SIGHUP sees: the configuration (None = load_from_path failed for another
   reason: unreadable, TOML error) and the file system *)
Record reload_input := mkInput {
  ri_zones : option (list zone_cfg);
  ri_mtime : N -> mt_res;
  ri_load : zone_cfg -> ld_res }.

(* reload_zones_and_keys: Err leaves `catalog` as it is *)
Definition reload_step_gen (fixed : bool) (cur : rcatalog) (i : reload_input) : res unit rcatalog :=
  match ri_zones i with
  | None => Ok cur
  | Some zones =>
    match find_duplicated_zone zones with
    | Some _ => Ok cur
    | None => load_impl_gen (ri_mtime i) (ri_load i) fixed zones (Some cur)
    end
  end.
Definition reload_step := reload_step_gen true.

(* start-up: zones::load(config.zones) *)
Definition daemon_start_gen (fixed : bool) (i : reload_input) (zones : list zone_cfg) : res unit rcatalog :=
  load_impl_gen (ri_mtime i) (ri_load i) fixed zones None.

Fixpoint daemon_run_gen (fixed : bool) (cur : rcatalog) (h : list reload_input) : res unit (list rcatalog) :=
  match h with
  | [] => Ok []
  | i :: h' =>
    let* c := reload_step_gen fixed cur i in
    let* cs := daemon_run_gen fixed c h' in
    Ok (c :: cs)
  end.
