(* C28 — the interleaving semantics on the whole table: `Vec<Mutex<Entry>>`, one lock per
   bucket, every thread handles requests of its own stream (key).  Same four steps per
   request as Model/RrlConc.v, taken on the bucket `hash(key) % len` of the thread's key:
   Acquire waits for THAT bucket's lock only.  Ghost counters per stream.  No proofs here. *)
From QV Require Export Model.Rrl Model.RrlConc.
Local Open Scope N_scope.

Record tthread := mkTT { tt_key : key; tt_pc : pc; tt_todo : nat }.

Record tstate := mkT {
  ts_table : table;                 (* the cells *)
  ts_locks : N -> option nat;       (* owner of each cell's Mutex *)
  ts_threads : list tthread;
  ts_sent : key -> nat;             (* ghost: responses sent per stream *)
  ts_limited : key -> nat }.        (* ghost: responses limited per stream *)

Definition bump (f : key -> nat) (k : key) : key -> nat :=
  fun k' => if key_eqb k' k then S (f k') else f k'.
Definition set_lock (l : N -> option nat) (i : N) (o : option nat) : N -> option nat :=
  fun j => if j =? i then o else l j.

Section WithHash.
  Variable hkey : key -> N.

  Definition slot (t : table) (k : key) : N := (hkey k mod two64) mod t_len t.

  Definition tstep (p : params) (s : tstate) (l : label) : option tstate :=
    let '(tid, now, rnd) := l in
    match nth_error (ts_threads s) tid with
    | None => None
    | Some th =>
      let k := tt_key th in
      let i := slot (ts_table s) k in
      match tt_pc th with
      | Idle =>
        match tt_todo th, ts_locks s i with
        | S m, None => Some (mkT (ts_table s) (set_lock (ts_locks s) i (Some tid))
                                 (set_nth (ts_threads s) tid (mkTT k Locked m)) (ts_sent s) (ts_limited s))
        | _, _ => None
        end
      | Locked =>
        Some (mkT (ts_table s) (ts_locks s)
                  (set_nth (ts_threads s) tid (mkTT k (HasRead (t_get (ts_table s) i)) (tt_todo th)))
                  (ts_sent s) (ts_limited s))
      | HasRead e =>
        match cell_step p k e now rnd with
        | Ok (e', act) =>
          Some (mkT (t_set (ts_table s) i e') (ts_locks s)
                    (set_nth (ts_threads s) tid (mkTT k Written (tt_todo th)))
                    (match act with Send => bump (ts_sent s) k | _ => ts_sent s end)
                    (match act with Send => ts_limited s | _ => bump (ts_limited s) k end))
        | _ => None
        end
      | Written =>
        Some (mkT (ts_table s) (set_lock (ts_locks s) i None)
                  (set_nth (ts_threads s) tid (mkTT k Idle (tt_todo th))) (ts_sent s) (ts_limited s))
      end
    end.

  Fixpoint trun (p : params) (s : tstate) (sched : list label) : tstate :=
    match sched with
    | [] => s
    | l :: r => trun p (match tstep p s l with Some s' => s' | None => s end) r
    end.

  (* threads i handles (snd (nth i work)) requests of stream (fst (nth i work)) *)
  Definition tinit (t : table) (work : list (key * nat)) : tstate :=
    mkT t (fun _ => None) (map (fun w => mkTT (fst w) Idle (snd w)) work) (fun _ => 0%nat) (fun _ => 0%nat).

  (* the single-bucket system of Model/RrlConc.v that stream k sees: its cell, that cell's
     lock, its own threads (threads of other streams appear as finished threads) *)
  Definition proj_thread (k : key) (th : tthread) : thread :=
    if key_eqb (tt_key th) k then mkThread (tt_pc th) (tt_todo th) else mkThread Idle 0.
  Definition proj (k : key) (s : tstate) : cstate :=
    mkC (t_get (ts_table s) (slot (ts_table s) k)) (ts_locks s (slot (ts_table s) k))
        (map (proj_thread k) (ts_threads s)) (ts_sent s k) (ts_limited s k).
End WithHash.
