(* Model of /repo/src/zone_file/reader.rs (the Reader), buffer-free: the stream is
   the list of octets not yet consumed ([r_rest]); `self.buf[self.start + i]` is
   `nth_error r_rest i`, and where the Rust code indexes the buffer directly
   (at_field_end_at, read_field_octet, field_or_eol_skipping_impl) a missing octet
   is a [Panic].  try_fill/shift buffering is not modelled (the harness feeds the
   real Reader through `Read` impls returning 1 octet / k octets / everything per
   call).  I/O errors do not exist for an in-memory stream.
   Line/column counters are unbounded [N] (usize in Rust: overflow needs > 2^64
   octets of input). *)
From QV Require Export Base.Res Base.Octets Gen.Consts Model.NameWire Model.ZfStd.

Local Open Scope N_scope.

Record pos := mkPos { p_line : N; p_col : N }.

Inductive zkind :=
| AtWhenOriginNotSet | BadUtf8 | CharacterStringTooLong | EmptyOwnerWithNoPrevious
| EofBeforeCloseParen | EofInEscape | EofInQuotedCharacterString | EofInQuotedIncludePath
| EscapeNeedsThreeDigits | EscapeValueOutOfRange | ExpectedBackslashHash | ExpectedChaosnetAddr
| ExpectedCharacterString | ExpectedCharacterStringOrBh | ExpectedClassOrType | ExpectedEol
| ExpectedHexRdata | ExpectedIncludePath | ExpectedIpProto | ExpectedIpv4OrBh | ExpectedIpv6OrBh
| ExpectedName | ExpectedNameOrBh | ExpectedRdataLen | ExpectedTtl | ExpectedTtlClassOrType
| ExpectedTtlOrType | ExpectedType | ExpectedU16 | ExpectedU16OrBh | ExpectedU32 | FieldTooLong
| IncludeNotSupported | IncludePathTooLong | InvalidChaosnetAddr | InvalidClass (e : sym_err)
| InvalidHexDigit | InvalidInt (e : int_err) | InvalidIpv4 | InvalidIpv6
| InvalidLabel (e : name_err) | InvalidName (e : name_err) | InvalidRdataForType
| InvalidRdataLen (e : int_err) | InvalidTtl (e : int_err) | InvalidType (e : sym_err)
| NestedParens | NullNotAllowed | OmittedClassWithNoPrevious | OmittedTtlWithNoDefaultOrPrevious
| OptNotAllowed | PqdnWhenOriginNotSet | TsigNotAllowed | TxtTooLong | UnexpectedEndOfHexRdata
| UnknownDirective | UnmatchedCloseParen | WksTooLong.

Inductive zerr :=
| ZErr (p : pos) (k : zkind)
| ZOutOfFuel.                       (* model only *)

(* [r_fuel] is model-only: an upper bound (length of the whole input + 2) for every
   loop of the parser, fixed when the reader is created and never changed. *)
Record rd := mkRd { r_rest : bytes; r_paren : bool; r_pos : pos; r_fuel : nat }.

Definition M (A : Type) := rd -> res zerr (A * rd).

Definition rd_new (input : bytes) : rd := mkRd input false (mkPos 1 1) (S (S (length input))).

Definition fail {A} (p : pos) (k : zkind) : res zerr A := Err (ZErr p k).

(* consume n octets that contain no newline: column += n *)
Definition adv (r : rd) (n : nat) : rd :=
  mkRd (skipn n (r_rest r)) (r_paren r) (mkPos (p_line (r_pos r)) (p_col (r_pos r) + N.of_nat n)) (r_fuel r).
(* consume an n-octet line ending: line += 1, column = 1 *)
Definition adv_line (r : rd) (n : nat) : rd :=
  mkRd (skipn n (r_rest r)) (r_paren r) (mkPos (p_line (r_pos r) + 1) 1) (r_fuel r).
Definition set_paren (r : rd) (b : bool) : rd := mkRd (r_rest r) b (r_pos r) (r_fuel r).

Definition is_whitespace (c : N) : bool := (c =? 32) || (c =? 9).
Definition ends_field (c : N) : bool := is_whitespace c || (c =? 40) || (c =? 41) || (c =? 59).

Definition at_eof (r : rd) : bool := match r_rest r with [] => true | _ => false end.
Definition peek_octet (r : rd) : option N := hd_error (r_rest r).

(* read_octet *)
Definition read_octet (r : rd) : option N * rd :=
  match r_rest r with
  | [] => (None, r)
  | c :: _ => (Some c, if c =? 10 then adv_line r 1 else adv r 1)
  end.

(* read(&mut [u8; 2]): both octets or nothing; the column advances by ONE *)
Definition read2 (r : rd) : option (N * N) * rd :=
  match r_rest r with
  | a :: b :: t => (Some (a, b), mkRd t (r_paren r) (mkPos (p_line (r_pos r)) (p_col (r_pos r) + 1)) (r_fuel r))
  | _ => (None, r)
  end.

(* get_eol_at(index) on the unconsumed octets l *)
Definition get_eol_at (l : bytes) (index : nat) : option nat :=
  match nth_error l index with
  | None => Some 0%nat
  | Some c =>
    if c =? 10 then Some 1%nat
    else match nth_error l (index + 1) with
         | Some d => if (c =? 13) && (d =? 10) then Some 2%nat else None
         | None => None                               (* peek_at(index, 2) = None *)
         end
  end.

(* at_field_end_at(index): `self.buf[self.start + index]` after a negative EOL test *)
Definition at_field_end_at (l : bytes) (index : nat) : res zerr bool :=
  match get_eol_at l index with
  | Some _ => Ok true
  | None => match nth_error l index with
            | Some c => Ok (ends_field c)
            | None => Panic
            end
  end.

(* expect_field_impl *)
Definition expect_field_impl (field : bytes) (cmp : bytes -> bytes -> bool) : M bool := fun r =>
  let n := length field in
  let pk := firstn n (r_rest r) in
  if (length pk =? n)%nat then                          (* peek(field.len()) is Some *)
    if cmp pk field then
      let* e := at_field_end_at (r_rest r) n in
      if e then Ok (true, adv r n) else Ok (false, r)
    else Ok (false, r)
  else Ok (false, r).

Definition expect_field (field : bytes) : M bool := expect_field_impl field bytes_eqb.
Definition expect_field_ci (field : bytes) : M bool := expect_field_impl field eq_ignore_case.

(* the `while !self.at_field_end_at(len)? { len += 1; if len > MAX .. }` loop of
   read_field, run on the suffix l = rest[len..] *)
Fixpoint scan_field (l : bytes) (len : N) : res zkind N :=
  match at_field_end_at l 0 with
  | Panic => Panic
  | Err _ => Panic
  | Ok true => Ok len
  | Ok false =>
    match l with
    | [] => Panic
    | _ :: l' =>
      let len' := len + 1 in
      if MAX_READ_FIELD_SIZE <? len' then Err FieldTooLong else scan_field l' len'
    end
  end.

(* read_field::<T, _>(or_else) with T::from_str = parse *)
Definition read_field {T E} (parse : bytes -> T + E) (or_else : E -> zkind) : M T := fun r =>
  match scan_field (r_rest r) 0 with
  | Panic => Panic
  | Err k => fail (r_pos r) k
  | Ok len =>
    let n := N.to_nat len in
    let field := firstn n (r_rest r) in
    if utf8_valid field then
      match parse field with
      | inl v => Ok (v, adv r n)
      | inr e => fail (r_pos r) (or_else e)
      end
    else fail (r_pos r) BadUtf8
  end.

(* read_field_octet *)
Definition read_field_octet : M (option N) := fun r =>
  let* e := at_field_end_at (r_rest r) 0 in
  if e then Ok (None, r)
  else match r_rest r with
       | c :: _ => Ok (Some c, adv r 1)
       | [] => Panic
       end.

(* skip_whitespace *)
Fixpoint count_ws (l : bytes) : nat :=
  match l with
  | c :: t => if is_whitespace c then S (count_ws t) else O
  | [] => O
  end.
Definition skip_whitespace (r : rd) : bool * rd :=
  let n := count_ws (r_rest r) in ((0 <? n)%nat, adv r n).

(* eol_skipping_impl: number of octets before the next line ending, and its length *)
Fixpoint to_eol (l : bytes) : nat * nat :=
  match get_eol_at l 0 with
  | Some e => (O, e)
  | None => match l with
            | _ :: t => let '(n, e) := to_eol t in (S n, e)
            | [] => (O, O)
            end
  end.
Definition eol_skipping_impl (through_eol : bool) (r : rd) : rd :=
  let '(n, e) := to_eol (r_rest r) in
  let r1 := adv r n in
  if (0 <? e)%nat && through_eol then adv_line r1 e else r1.
Definition skip_to_eol := eol_skipping_impl false.
Definition skip_through_eol := eol_skipping_impl true.

Inductive field_or_eol := Field | Eol.

(* field_or_eol_skipping_impl; every iteration that loops consumes >= 1 octet *)
Fixpoint foe_loop (fuel : nat) (through_eol : bool) (r0 : rd) : res zerr (field_or_eol * rd) :=
  match fuel with
  | O => Err ZOutOfFuel
  | S fuel' =>
    let r := snd (skip_whitespace r0) in
    match get_eol_at (r_rest r) 0 with
    | Some eol_len =>
      if r_paren r then
        if (eol_len =? 0)%nat then fail (r_pos r) EofBeforeCloseParen
        else foe_loop fuel' through_eol (adv_line r eol_len)
      else Ok (Eol, if through_eol && (0 <? eol_len)%nat then adv_line r eol_len else r)
    | None =>
      match r_rest r with
      | [] => Panic
      | octet :: _ =>
        if octet =? 59 then
          if r_paren r then foe_loop fuel' through_eol (skip_through_eol r)
          else Ok (Eol, if through_eol then skip_through_eol r else skip_to_eol r)
        else if octet =? 40 then
          if r_paren r then fail (r_pos r) NestedParens
          else foe_loop fuel' through_eol (adv (set_paren r true) 1)
        else if octet =? 41 then
          if negb (r_paren r) then fail (r_pos r) UnmatchedCloseParen
          else foe_loop fuel' through_eol (adv (set_paren r false) 1)
        else Ok (Field, r)
      end
    end
  end.

Definition foe_fuel (r : rd) : nat := r_fuel r.

Definition skip_to_next_field_or_through_eol : M field_or_eol := fun r => foe_loop (foe_fuel r) true r.
Definition skip_to_next_field_or_to_eol : M field_or_eol := fun r => foe_loop (foe_fuel r) false r.

Definition skip_to_next_field (error_on_eol : zkind) : M unit := fun r =>
  let* (f, r') := skip_to_next_field_or_to_eol r in
  match f with
  | Field => Ok (tt, r')
  | Eol => fail (r_pos r') error_on_eol
  end.

Definition expect_eol : M unit := fun r =>
  let* (f, r') := skip_to_next_field_or_through_eol r in
  match f with
  | Eol => Ok (tt, r')
  | Field => fail (r_pos r') ExpectedEol
  end.
