(* C25 — a deliberately small instance of the per-file line parser for the correspondence
   suite: pre-tokenised logical lines of the sub-language
       $ORIGIN <absolute name>
       $INCLUDE <path> [<absolute name>]
       [<owner>] <ttl> IN A <a.b.c.d>        owner: absolute, relative to the origin, `@`, or
                                             omitted (= previous owner)
   Names are octet strings in presentation form (lower case, no escapes).  Tokenisation (splitting
   the text at blanks) is done by the OCaml driver; everything context-dependent is here.
   RESTRICTION: this is not the real record parser (C23/C24), only what the $INCLUDE property needs. *)
From QV Require Import Base.Res Base.Octets Model.ZfFs.

Inductive mline :=
| MOrigin (o : bytes)
| MInclude (p : bytes) (o : option bytes)
| MRec (owner : option bytes) (ttl : N) (addr : bytes)
| MBlank
| MBad.

Inductive merr := MNoOrigin | MNoOwner | MSyntax.

Definition mctx := ctx bytes bytes N N.
Definition mrec := (bytes * N * bytes)%type.   (* absolute owner, ttl, address *)

Definition is_absolute (n : bytes) : bool :=
  match n with [] => false | _ => (last n 0 =? 46)%N end.

(* an owner field under an origin *)
Definition resolve (c : mctx) (n : bytes) : option bytes :=
  if is_absolute n then Some n
  else match c_origin _ _ _ _ c with
       | None => None
       | Some o =>
           match n with
           | [64%N] => Some o                                           (* @ *)
           | _ => Some (match o with [46%N] => n ++ o | _ => n ++ [46%N] ++ o end)
           end
       end.

Definition mini_pline (c : mctx) (l : mline) : lres bytes bytes N N mrec merr :=
  match l with
  | MBlank => LSkip _ _ _ _ _ _ c
  | MBad => LErr _ _ _ _ _ _ MSyntax
  | MOrigin o =>
      LSkip _ _ _ _ _ _ {| c_origin := Some o; c_owner := c_owner _ _ _ _ c; c_ttl := c_ttl _ _ _ _ c;
                           c_class := c_class _ _ _ _ c; c_dttl := c_dttl _ _ _ _ c |}
  | MInclude p o => LInc _ _ _ _ _ _ p o c
  | MRec ow ttl a =>
      let owner := match ow with
                   | Some n => match resolve c n with Some x => Ok x | None => Err MNoOrigin end
                   | None => match c_owner _ _ _ _ c with Some x => Ok x | None => Err MNoOwner end
                   end in
      match owner with
      | Ok x => LRec _ _ _ _ _ _ (x, ttl, a)
                  {| c_origin := c_origin _ _ _ _ c; c_owner := Some x; c_ttl := Some ttl;
                     c_class := Some 1%N; c_dttl := c_dttl _ _ _ _ c |}
      | Err e => LErr _ _ _ _ _ _ e
      | Panic => LErr _ _ _ _ _ _ MSyntax
      end
  end.

Definition mini_ctx0 : mctx := {| c_origin := None; c_owner := None; c_ttl := None; c_class := None; c_dttl := None |}.

Definition mini_run (fs : path -> option (list (nat * mline))) (max_depth fuel : nat) (p : path) :=
  open_and_run bytes bytes N N mrec merr mline mini_pline fs max_depth fuel p mini_ctx0.
