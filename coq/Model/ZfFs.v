(* C25 — model of the $INCLUDE stack machine of src/zone_file/fs/mod.rs (fs::Parser::next),
   with Parser::new_for_include / update_context_from_include of src/zone_file/mod.rs and
   compute_path.

   Parametric (Section variables) in
     - the per-file line parser [pline : ctx -> L -> lres] (one logical line of a file under a
       parse context: nothing to report / a syntax error / a record / an $INCLUDE directive,
       and the context afterwards) — zone_file::Parser::parse_line;
     - the file system [fs : path -> option (list (nat * L))] (File::open + the file's logical
       lines with their line numbers).
   The parse context is the five-field Context of src/zone_file/mod.rs with abstract field types.
   The stack is a list whose HEAD is the current file (Rust: the last element of `files`).
   One [next_step] = one iteration of fs::Parser::next on one logical line (the Rust code
   recurses into self.next() where this model returns a silent step).  No proofs here. *)
From QV Require Import Base.Res Base.Octets.

Definition path := bytes.

(* Path::parent for a path without trailing or repeated separators and without `.` components:
   everything before the last '/', "/" for "/x", "" for "x"; none for "" and "/" (the Rust code
   then panics: expect("including file's path has no parent")). *)
Fixpoint last_slash (p : bytes) (i : nat) (acc : option nat) : option nat :=
  match p with
  | [] => acc
  | b :: p' => last_slash p' (S i) (if (b =? 47)%N then Some i else acc)
  end.
Definition path_parent (p : path) : option path :=
  match p with
  | [] => None
  | _ =>
    match last_slash p 0 None with
    | None => Some []
    | Some 0 => match p with [_] => None | _ => Some [47%N] end
    | Some i => Some (firstn i p)
    end
  end.
(* Path::join: an absolute right-hand side replaces the left-hand side *)
Definition path_join (a b : path) : path :=
  match b with
  | 47%N :: _ => b
  | _ => match a with
         | [] => b
         | _ => if (last a 0 =? 47)%N then a ++ b else a ++ [47%N] ++ b
         end
  end.
(* compute_path (unix: every octet string is a path); None = the expect() panic *)
Definition compute_path (includer included : path) : option path :=
  match path_parent includer with
  | None => None
  | Some par => Some (path_join par included)
  end.

Section Fs.
  Variables Origin Own Ttl Cls Rec SErr L : Type.

  Record ctx := { c_origin : option Origin; c_owner : option Own; c_ttl : option Ttl;
                  c_class : option Cls; c_dttl : option Ttl }.

  (* Parser::new_for_include *)
  Definition ctx_for_include (c : ctx) (o : option Origin) : ctx :=
    match o with
    | Some _ => {| c_origin := o; c_owner := c_owner c; c_ttl := c_ttl c; c_class := c_class c; c_dttl := c_dttl c |}
    | None => c
    end.
  (* Parser::update_context_from_include *)
  Definition ctx_after_include (c inc : ctx) : ctx :=
    {| c_origin := c_origin c; c_owner := c_owner inc; c_ttl := c_ttl inc; c_class := c_class inc;
       c_dttl := c_dttl inc |}.

  Inductive lres :=
  | LSkip (c' : ctx)                                   (* blank line, $ORIGIN, $TTL *)
  | LErr (e : SErr)
  | LRec (r : Rec) (c' : ctx)
  | LInc (p : path) (o : option Origin) (c' : ctx).

  Variable pline : ctx -> L -> lres.
  Variable fs : path -> option (list (nat * L)).
  Variable max_depth : nat.

  Inductive fs_err :=
  | ESyntax (e : SErr)
  | ETooDeep (line : nat) (chain : list (path * nat))
  | EOpen (line : nat) (p : path).

  Definition item := (path * nat * Rec)%type.
  Definition entry := (path * nat * ctx * list (nat * L))%type.   (* path, included-from line, parser *)

  (* make_include_chain: every file of the stack with the line at which the next one was
     included; the current file with the current line *)
  Fixpoint make_chain (st : list entry) (n : nat) : list (path * nat) :=
    match st with
    | [] => []
    | (p, fl, _, _) :: rest => make_chain rest fl ++ [(p, n)]
    end.

  Inductive step :=
  | SDone                               (* next() returns None *)
  | SFail (p : path) (e : fs_err)       (* next() returns Some(Err(..)); the stack is cleared *)
  | SEmit (it : item) (st' : list entry)
  | SSilent (st' : list entry)          (* next() calls itself *)
  | SPanic.

  Definition next_step (st : list entry) : step :=
    match st with
    | [] => SDone
    | (p, fl, c, t) :: rest =>
        let depth := length rest in                        (* files.len() - 1 *)
        match t with
        | [] =>                                            (* parser.next() = None: pop *)
            match rest with
            | [] => SDone
            | (p2, fl2, c2, t2) :: rest' => SSilent ((p2, fl2, ctx_after_include c2 c, t2) :: rest')
            end
        | (n, l) :: t' =>
            match pline c l with
            | LSkip c' => SSilent ((p, fl, c', t') :: rest)
            | LErr e => SFail p (ESyntax e)
            | LRec r c' => SEmit (p, n, r) ((p, fl, c', t') :: rest)
            | LInc ip o c' =>
                if max_depth <=? depth then SFail p (ETooDeep n (make_chain ((p, fl, c', t') :: rest) n))
                else match compute_path p ip with
                     | None => SPanic
                     | Some newp =>
                         match fs newp with
                         | None => SFail p (EOpen n newp)
                         | Some t2 => SSilent ((newp, n, ctx_for_include c' o, t2) :: (p, fl, c', t') :: rest)
                         end
                     end
            end
        end
    end.

  Inductive fs_fuel_err := OutOfFuel.

  (* iterate next() until it returns None; after an error the stack is empty, so that is the end *)
  Fixpoint run_stack (fuel : nat) (st : list entry) : res fs_fuel_err (list item * option (path * fs_err)) :=
    match fuel with
    | O => Err OutOfFuel
    | S f =>
        match next_step st with
        | SDone => Ok ([], None)
        | SFail p e => Ok ([], Some (p, e))
        | SEmit it st' => map_ok (fun '(l, o) => (it :: l, o)) (run_stack f st')
        | SSilent st' => run_stack f st'
        | SPanic => Panic
        end
    end.

  (* fs::Parser::open(path, max_depth) then collecting the iterator *)
  Definition open_and_run (fuel : nat) (p : path) (c0 : ctx) :=
    match fs p with
    | None => Ok ([], None)       (* open fails with an io::Error before any parsing: nothing to model *)
    | Some t => run_stack fuel [(p, 0, c0, t)]
    end.
End Fs.
