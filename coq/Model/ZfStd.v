(* Models of the Rust standard-library parsers the zone-file reader relies on
   (core::num from_ascii_radix for u8/u16/u32, core::net::parser for Ipv4Addr /
   Ipv6Addr, core::str::from_utf8 validity, <[u8]>::eq_ignore_ascii_case) and of
   Class::from_str / Type::from_str (src/class.rs, src/rr/rr_type.rs).
   Strings are octet lists.  Differentially tested against the real functions
   by the `std` suite of checks/c24.py. *)
From QV Require Export Base.Res Base.Octets Gen.ZfTables.

Local Open Scope N_scope.

(* ---- <[u8]>::eq_ignore_ascii_case ------------------------------------------ *)

Fixpoint eq_ignore_case (a b : bytes) : bool :=
  match a, b with
  | [], [] => true
  | x :: a', y :: b' => (lower x =? lower y) && eq_ignore_case a' b'
  | _, _ => false
  end.

Fixpoint bytes_eqb (a b : bytes) : bool :=
  match a, b with
  | [], [] => true
  | x :: a', y :: b' => (x =? y) && bytes_eqb a' b'
  | _, _ => false
  end.

(* ---- core::str::from_utf8(..).is_ok() --------------------------------------- *)

Definition cont (c : N) : bool := (128 <=? c) && (c <=? 191).
Definition inr_ (lo hi c : N) : bool := (lo <=? c) && (c <=? hi).

Fixpoint utf8_valid (l : bytes) : bool :=
  match l with
  | [] => true
  | b :: t =>
    if b <? 128 then utf8_valid t
    else if inr_ 194 223 b then
      match t with
      | c1 :: t' => cont c1 && utf8_valid t'
      | _ => false
      end
    else if inr_ 224 239 b then
      match t with
      | c1 :: c2 :: t' =>
        ((if b =? 224 then inr_ 160 191 c1
          else if b =? 237 then inr_ 128 159 c1
          else cont c1) && cont c2) && utf8_valid t'
      | _ => false
      end
    else if inr_ 240 244 b then
      match t with
      | c1 :: c2 :: c3 :: t' =>
        ((if b =? 240 then inr_ 144 191 c1
          else if b =? 244 then inr_ 128 143 c1
          else cont c1) && cont c2 && cont c3) && utf8_valid t'
      | _ => false
      end
    else false
  end.

(* ---- {u8,u16,u32}::from_str (from_ascii_radix, radix 10, unsigned) ----------- *)

Inductive int_err := IeEmpty | IeInvalidDigit | IePosOverflow.

Definition is_digit (c : N) : bool := (48 <=? c) && (c <=? 57).

Fixpoint uint_loop (max : N) (ds : bytes) (result : N) : N + int_err :=
  match ds with
  | [] => inl result
  | c :: rest =>
    let mul := result * 10 in                 (* checked_mul, examined after the digit *)
    if is_digit c then
      if max <? mul then inr IePosOverflow
      else if max <? mul + (c - 48) then inr IePosOverflow
      else uint_loop max rest (mul + (c - 48))
    else inr IeInvalidDigit
  end.

Definition parse_uint (max : N) (s : bytes) : N + int_err :=
  match s with
  | [] => inr IeEmpty
  | [c] => if (c =? 43) || (c =? 45) then inr IeInvalidDigit else uint_loop max s 0
  | c :: rest => if c =? 43 then uint_loop max rest 0 else uint_loop max s 0
  end.

Definition U8_MAX := 255.
Definition U16_MAX := 65535.
Definition U32_MAX := 4294967295.

(* ---- core::net::parser -------------------------------------------------------- *)

(* char::to_digit(radix) for radix <= 16 on a Latin-1 char *)
Definition to_digit (radix c : N) : option N :=
  let d := if is_digit c then Some (c - 48)
           else if inr_ 97 122 c then Some (c - 97 + 10)
           else if inr_ 65 90 c then Some (c - 65 + 10)
           else None in
  match d with
  | Some v => if v <? radix then Some v else None
  | None => None
  end.

(* the digit loop of read_number with max_digits = Some maxd: None when more than
   maxd digits are present *)
Fixpoint rn_loop (radix : N) (maxd : nat) (l : bytes) (result : N) (count : nat)
  : option (N * nat * bytes) :=
  match l with
  | c :: t =>
    match to_digit radix c with
    | Some d =>
      let result' := result * radix + d in
      let count' := S count in
      if (maxd <? count')%nat then None else rn_loop radix maxd t result' count'
    | None => Some (result, count, l)
    end
  | [] => Some (result, count, l)
  end.

(* read_number::<T>(radix, Some(maxd), allow_zero_prefix); tmax = T::MAX *)
Definition read_number (radix : N) (maxd : nat) (allow_zero_prefix : bool) (tmax : N) (l : bytes)
  : option (N * bytes) :=
  let has_leading_zero := match l with c :: _ => c =? 48 | [] => false end in
  match rn_loop radix maxd l 0 0 with
  | None => None
  | Some (result, count, l') =>
    if (count =? 0)%nat then None
    else if negb allow_zero_prefix && has_leading_zero && (1 <? count)%nat then None
    else if tmax <? result then None
    else Some (result, l')
  end.

(* read_separator(sep, index, inner) *)
Definition read_sep {A} (sep : N) (index : nat) (inner : bytes -> option (A * bytes)) (l : bytes)
  : option (A * bytes) :=
  match index with
  | O => inner l
  | S _ => match l with
           | c :: t => if c =? sep then inner t else None
           | [] => None
           end
  end.

Definition read_ipv4_addr (l : bytes) : option ((N * N * N * N) * bytes) :=
  let num := read_number 10 3 false U8_MAX in
  match read_sep 46 0 num l with
  | None => None
  | Some (a, l1) =>
    match read_sep 46 1 num l1 with
    | None => None
    | Some (b, l2) =>
      match read_sep 46 2 num l2 with
      | None => None
      | Some (c, l3) =>
        match read_sep 46 3 num l3 with
        | None => None
        | Some (d, l4) => Some ((a, b, c, d), l4)
        end
      end
    end
  end.

Definition ipv4_from_str (s : bytes) : option bytes :=
  if (15 <? length s)%nat then None
  else match read_ipv4_addr s with
       | Some ((a, b, c, d), []) => Some [a; b; c; d]
       | _ => None
       end.

(* read_groups: [n] iterations left, [i] current index, [limit] = groups.len();
   returns the groups read, whether an embedded IPv4 address ended them, the rest *)
Fixpoint read_groups (n i limit : nat) (l : bytes) (acc : list N) : list N * bool * bytes :=
  match n with
  | O => (acc, false, l)
  | S n' =>
    let v4 := if (i <? limit - 1)%nat then read_sep 58 i read_ipv4_addr l else None in
    match v4 with
    | Some ((a, b, c, d), l') => (acc ++ [a * 256 + b; c * 256 + d], true, l')
    | None =>
      match read_sep 58 i (read_number 16 4 true U16_MAX) l with
      | Some (g, l') => read_groups n' (S i) limit l' (acc ++ [g])
      | None => (acc, false, l)
      end
    end
  end.

Definition read_ipv6_addr (l : bytes) : option (list N * bytes) :=
  let '(head, head_v4, l1) := read_groups 8 0 8 l [] in
  if (length head =? 8)%nat then Some (head, l1)
  else if head_v4 then None
  else match l1 with
       | c1 :: c2 :: l2 =>
         if (c1 =? 58) && (c2 =? 58) then
           let limit := (8 - (length head + 1))%nat in
           let '(tail, _, l3) := read_groups limit 0 limit l2 [] in
           Some (head ++ repeat 0 (8 - length head - length tail)%nat ++ tail, l3)
         else None
       | _ => None
       end.

Definition group_octets (g : N) : bytes := [g / 256; g mod 256].

Definition ipv6_from_str (s : bytes) : option bytes :=
  match read_ipv6_addr s with
  | Some (gs, []) => Some (flat_map group_octets gs)
  | _ => None
  end.

(* ---- Class::from_str / Type::from_str ---------------------------------------- *)

Inductive sym_err := SeUnknown | SeBadValue.

Fixpoint lookup_mnemonic (caseless : bool) (tbl : list (bytes * N)) (s : bytes) : option N :=
  match tbl with
  | [] => None
  | (m, v) :: tbl' =>
    if (if caseless then eq_ignore_case s m else bytes_eqb s m) then Some v
    else lookup_mnemonic caseless tbl' s
  end.

Definition sym_from_str (caseless : bool) (tbl : list (bytes * N)) (prefix : bytes) (s : bytes)
  : N + sym_err :=
  match lookup_mnemonic caseless tbl s with
  | Some v => inl v
  | None =>
    let n := length prefix in
    (* text.get(0..n): in range (and on a char boundary, implied when the prefix matches) *)
    if (n <=? length s)%nat && eq_ignore_case (firstn n s) prefix then
      match parse_uint U16_MAX (skipn n s) with
      | inl v => inl v
      | inr _ => inr SeBadValue
      end
    else inr SeUnknown
  end.

Definition class_from_str : bytes -> N + sym_err :=
  sym_from_str class_mnemonics_caseless class_mnemonics class_prefix.
Definition type_from_str : bytes -> N + sym_err :=
  sym_from_str type_mnemonics_caseless type_mnemonics type_prefix.
