(* Model of the zone-file Parser: /repo/src/zone_file/{mod,name,escape,
   character_string,directive,record}.rs, of NameBuilder (src/name/builder.rs)
   and of the RDATA constructors / validators the parser calls
   (src/rr/rdata/{mod,std13,ipv6,srv}.rs).  Same control flow; every
   indexing / unwrap / ArrayVec::push / debug-overflow is a [Panic] branch. *)
From QV Require Export Model.ZfReader.

Local Open Scope N_scope.

(* linear-time list reversal (List.rev is quadratic once extracted) *)
Definition rev_fast {A} (l : list A) : list A := rev_append l [].

(* ---- monad plumbing ----------------------------------------------------------- *)

Definition ret {A} (a : A) : M A := fun r => Ok (a, r).
Definition bindM {A B} (m : M A) (f : A -> M B) : M B := fun r =>
  match m r with
  | Ok (a, r') => f a r'
  | Err e => Err e
  | Panic => Panic
  end.
Definition failM {A} (p : pos) (k : zkind) : M A := fun _ => fail p k.
Definition failHere {A} (k : zkind) : M A := fun r => fail (r_pos r) k.
Definition getpos : M pos := fun r => Ok (r_pos r, r).
Definition lift {A} (f : rd -> A * rd) : M A := fun r => Ok (f r).
Definition panicM {A} : M A := fun _ => Panic.
Definition out_of_fuel {A} : M A := fun _ => Err ZOutOfFuel.
Definition get_fuel : M nat := fun r => Ok (r_fuel r, r).

Notation "'do' x '<-' m ';' f" := (bindM m (fun x => f))
  (at level 200, x pattern, m at level 100, f at level 200, right associativity).
Notation "m ';;' f" := (bindM m (fun _ => f))
  (at level 199, f at level 200, right associativity).

(* `if let Ok(x) = m` : the error is discarded; read_field consumes nothing on failure *)
Definition try_ok {A} (m : M A) : M (option A) := fun r =>
  match m r with
  | Ok (a, r') => Ok (Some a, r')
  | Err ZOutOfFuel => Err ZOutOfFuel
  | Err _ => Ok (None, r)
  | Panic => Panic
  end.

(* ---- NameBuilder (src/name/builder.rs) ---------------------------------------- *)

Record nb := mkNb { nb_wire : bytes; nb_offs : list N; nb_start : nat; nb_len : N }.

Definition nb_new : nb := mkNb [0] [0] 0 0.
Definition nb_fq (b : nb) : bool := nb_len b =? 0.

Definition nb_try_push (b : nb) (octet : N) : res name_err nb :=
  if max_label_len mod 256 <=? nb_len b then Err LabelTooLong
  else if (max_wire_len <=? length (nb_wire b))%nat then Err NameTooLong
  else Ok (mkNb (nb_wire b ++ [octet]) (nb_offs b) (nb_start b) (nb_len b + 1)).

Fixpoint list_set {A} (l : list A) (i : nat) (x : A) : option (list A) :=
  match l, i with
  | [], _ => None
  | _ :: t, O => Some (x :: t)
  | y :: t, S i' => match list_set t i' x with Some t' => Some (y :: t') | None => None end
  end.

(* update_label_len: self.wire_repr[self.label_start] = self.label_len *)
Definition nb_update_label_len (b : nb) : option bytes := list_set (nb_wire b) (nb_start b) (nb_len b).

Definition nb_next_label (b : nb) : res name_err nb :=
  if nb_fq b then Err NullNonTerminal
  else if (max_wire_len <=? length (nb_wire b))%nat then Err NameTooLong
  else match nb_update_label_len b with
       | None => Panic
       | Some w =>
         let start := length w in
         match push_offset (nb_offs b) start with       (* ArrayVec::push *)
         | None => Panic
         | Some offs => Ok (mkNb (w ++ [0]) offs start 0)
         end
       end.

Definition nb_finish (b : nb) : res name_err name :=
  if negb (nb_fq b) then Err NonNullTerminal else Ok (mkName (nb_offs b) (nb_wire b)).

(* the two try_push / try_extend_from_slice of the suffix-label loop *)
Fixpoint nb_push_labels (suffix : name) (n i : nat) (w : bytes) : res name_err bytes :=
  match n with
  | O => Ok w
  | S n' =>
    match label_at suffix i with                         (* &self.name[this_one] *)
    | Ok lab =>
      if (max_wire_len <=? length w)%nat then Err NameTooLong
      else let w1 := w ++ [N.of_nat (length lab) mod 256] in
           match try_extend w1 lab with
           | None => Err NameTooLong
           | Some w2 => nb_push_labels suffix n' (S i) w2
           end
    | _ => Panic
    end
  end.

Fixpoint nb_push_offsets (offs : list N) (base : N) (acc : list N) : option (list N) :=
  match offs with
  | [] => Some acc
  | o :: t =>
    if 256 <=? o + base then None                         (* u8 addition overflow *)
    else if (max_n_labels <=? length acc)%nat then None   (* ArrayVec::push on a full vector *)
    else nb_push_offsets t base (acc ++ [o + base])
  end.

Definition nb_finish_with_suffix (b : nb) (suffix : name) : res name_err name :=
  if nb_fq b then Err NullNonTerminal
  else match nb_update_label_len b with
       | None => Panic
       | Some w =>
         let base := N.of_nat (length w) mod 256 in
         let* w' := nb_push_labels suffix (length (n_offsets suffix)) 0 w in
         match nb_push_offsets (n_offsets suffix) base (nb_offs b) with
         | None => Panic
         | Some offs => Ok (mkName offs w')
         end
       end.

Definition root_name : name := mkName [0] [0].

(* ---- escape.rs ------------------------------------------------------------------ *)

Definition parse_decimal_escape (first : N) (start : pos) : M N :=
  do two <- lift read2;
  match two with
  | Some (a, b) =>
    if negb (is_digit a && is_digit b) then failM start EscapeNeedsThreeDigits
    else let value := 100 * (first - 48) + 10 * (a - 48) + (b - 48) in
         if 255 <? value then failM start EscapeValueOutOfRange else ret value
  | None => failM start EofInEscape
  end.

Definition parse_escape : M N :=
  do start <- getpos;
  do o <- lift read_octet;
  match o with
  | Some first => if is_digit first then parse_decimal_escape first start else ret first
  | None => failM start EofInEscape
  end.

(* ---- name.rs -------------------------------------------------------------------- *)

Definition build_label_parse_error {A} (e : name_err) (name_start label_start : pos) : M A :=
  match e with
  | LabelTooLong => failM label_start (InvalidLabel e)
  | _ => failM name_start (InvalidName e)
  end.

Fixpoint pnr_loop (fuel : nat) (name_start label_start : pos) (b : nb) : M nb :=
  match fuel with
  | O => out_of_fuel
  | S fuel' =>
    do o <- read_field_octet;
    match o with
    | None => ret b
    | Some octet =>
      if octet =? 92 then
        do e <- parse_escape;
        match nb_try_push b e with
        | Ok b' => pnr_loop fuel' name_start label_start b'
        | Err er => build_label_parse_error er name_start label_start
        | Panic => panicM
        end
      else if octet =? 46 then
        match nb_next_label b with
        | Ok b' => do p <- getpos; pnr_loop fuel' name_start p b'
        | Err er => build_label_parse_error er name_start label_start
        | Panic => panicM
        end
      else
        match nb_try_push b octet with
        | Ok b' => pnr_loop fuel' name_start label_start b'
        | Err er => build_label_parse_error er name_start label_start
        | Panic => panicM
        end
    end
  end.

Definition parse_non_root_name (origin : option name) : M name :=
  do name_start <- getpos;
  do fuel <- get_fuel;
  do b <- pnr_loop fuel name_start name_start nb_new;
  if nb_fq b then
    match nb_finish b with
    | Ok n => ret n
    | Err e => failM name_start (InvalidName e)
    | Panic => panicM
    end
  else match origin with
       | Some o =>
         match nb_finish_with_suffix b o with
         | Ok n => ret n
         | Err e => failM name_start (InvalidName e)
         | Panic => panicM
         end
       | None => failM name_start PqdnWhenOriginNotSet
       end.

Definition parse_name (origin : option name) : M name :=
  do start <- getpos;
  do at_ <- expect_field [64];
  if at_ then
    match origin with
    | Some o => ret o
    | None => failM start AtWhenOriginNotSet
    end
  else
    do dot <- expect_field [46];
    if dot then ret root_name else parse_non_root_name origin.

(* ---- character_string.rs --------------------------------------------------------- *)

(* ArrayVec::<u8, 255>::try_push *)
Definition cs_push (s : bytes) (o : N) : option bytes :=
  if (255 <=? length s)%nat then None else Some (s ++ [o]).

Fixpoint pqcs_loop (fuel : nat) (start : pos) (s : bytes) : M bytes :=
  match fuel with
  | O => out_of_fuel
  | S fuel' =>
    do cpos <- getpos;
    do o <- lift read_octet;
    match o with
    | Some octet =>
      if octet =? 92 then
        do e <- parse_escape;
        match cs_push s e with
        | Some s' => pqcs_loop fuel' start s'
        | None => failM start CharacterStringTooLong
        end
      else if octet =? 34 then ret s
      else match cs_push s octet with
           | Some s' => pqcs_loop fuel' start s'
           | None => failM start CharacterStringTooLong
           end
    | None => failM cpos EofInQuotedCharacterString
    end
  end.

Definition parse_quoted_character_string : M bytes :=
  do start <- getpos;
  do _ <- lift read_octet;
  do fuel <- get_fuel;
  pqcs_loop fuel start [].

Fixpoint pucs_loop (fuel : nat) (start : pos) (s : bytes) : M bytes :=
  match fuel with
  | O => out_of_fuel
  | S fuel' =>
    do o <- read_field_octet;
    match o with
    | Some octet =>
      if octet =? 92 then
        do e <- parse_escape;
        match cs_push s e with
        | Some s' => pucs_loop fuel' start s'
        | None => failM start CharacterStringTooLong
        end
      else match cs_push s octet with
           | Some s' => pucs_loop fuel' start s'
           | None => failM start CharacterStringTooLong
           end
    | None => ret s
    end
  end.

Definition parse_unquoted_character_string : M bytes :=
  do start <- getpos;
  do fuel <- get_fuel;
  pucs_loop fuel start [].

Definition parse_character_string : M bytes := fun r =>
  match peek_octet r with
  | Some c => if c =? 34 then parse_quoted_character_string r else parse_unquoted_character_string r
  | None => parse_unquoted_character_string r
  end.

(* ---- RDATA constructors and validators (src/rr/rdata) ----------------------------- *)

(* Box<Rdata>::try_from(Vec<u8>).unwrap() *)
Definition mk_rdata (l : bytes) : M bytes := fun r =>
  if 65535 <? N.of_nat (length l) then Panic else Ok (l, r).

Definition be16 (v : N) : bytes := [v / 256; v mod 256].
Definition be32 (v : N) : bytes := [v / 16777216; (v / 65536) mod 256; (v / 256) mod 256; v mod 256].

(* Name::validate_uncompressed / validate_uncompressed_all; Err tt = the name model's fuel *)
Definition vname (o : bytes) (all : bool) : res unit (option nat) :=
  match validate_uncompressed_name o all with
  | Ok n => Ok (Some n)
  | Err OutOfFuel => Err tt
  | Err _ => Ok None
  | Panic => Panic
  end.
Definition vname_all (o : bytes) : res unit bool :=
  let* x := vname o true in Ok (match x with Some _ => true | None => false end).

Definition validate_as_in_a (o : bytes) : res unit bool := Ok (length o =? 4)%nat.
Definition validate_as_ch_a (o : bytes) : res unit bool :=
  let* x := vname o false in
  match x with
  | Some lan_len => Ok (length o =? lan_len + 2)%nat
  | None => Ok false
  end.
(* &self.octets[mname_len..] panics when out of range *)
Definition validate_as_soa (o : bytes) : res unit bool :=
  let* x := vname o false in
  match x with
  | Some mlen =>
    if (length o <? mlen)%nat then Panic
    else let* y := vname (skipn mlen o) false in
         match y with
         | Some rlen => Ok (length o =? 20 + mlen + rlen)%nat
         | None => Ok false
         end
  | None => Ok false
  end.
Definition validate_as_in_wks (o : bytes) : res unit bool := Ok (5 <=? length o)%nat.
Definition validate_character_string (o : bytes) : option nat :=
  match o with
  | len :: _ => let wl := (1 + N.to_nat len)%nat in if (wl <=? length o)%nat then Some wl else None
  | [] => None
  end.
Definition validate_as_hinfo (o : bytes) : res unit bool :=
  match validate_character_string o with
  | Some cpu =>
    if (length o <? cpu)%nat then Panic
    else match validate_character_string (skipn cpu o) with
         | Some os => Ok (length o =? cpu + os)%nat
         | None => Ok false
         end
  | None => Ok false
  end.
Definition validate_as_minfo (o : bytes) : res unit bool :=
  let* x := vname o false in
  match x with
  | Some rlen => if (length o <? rlen)%nat then Panic else vname_all (skipn rlen o)
  | None => Ok false
  end.
(* self.octets.get(2..) *)
Definition validate_as_mx (o : bytes) : res unit bool :=
  if (2 <=? length o)%nat then vname_all (skipn 2 o) else Ok false.
Fixpoint vtxt_loop (fuel : nat) (o : bytes) : res unit bool :=
  match fuel with
  | O => Err tt
  | S fuel' =>
    match o with
    | [] => Ok true
    | _ => match validate_character_string o with
           | Some wl => vtxt_loop fuel' (skipn wl o)
           | None => Ok false
           end
    end
  end.
Definition validate_as_txt (o : bytes) : res unit bool :=
  match o with
  | [] => Ok false
  | _ => vtxt_loop (S (length o)) o
  end.
Definition validate_as_in_aaaa (o : bytes) : res unit bool := Ok (length o =? 16)%nat.
Definition validate_as_in_srv (o : bytes) : res unit bool :=
  if (6 <=? length o)%nat then vname_all (skipn 6 o) else Ok false.

Definition in_types (t : N) (l : list N) : bool := existsb (N.eqb t) l.

(* serialize_in_wks *)
Fixpoint list_max (l : list N) : option N :=
  match l with
  | [] => None
  | x :: t => match list_max t with Some m => Some (N.max x m) | None => Some x end
  end.
Fixpoint wks_set (buf : bytes) (ports : list N) : option bytes :=
  match ports with
  | [] => Some buf
  | p :: t =>
    let off := N.to_nat (p / 8) in
    match nth_error buf off with
    | Some old => match list_set buf off (N.lor old (2 ^ (p mod 8))) with
                  | Some buf' => wks_set buf' t
                  | None => None
                  end
    | None => None
    end
  end.
Definition new_in_wks (addr : bytes) (protocol : N) (ports : list N) : M bytes :=
  let len := match list_max ports with Some h => N.to_nat (h / 8) + 1 | None => O end%nat in
  match wks_set (repeat 0 len) ports with
  | Some bitmap => mk_rdata (addr ++ [protocol] ++ bitmap)
  | None => panicM
  end.

(* ---- record.rs --------------------------------------------------------------------- *)

Record ctx := mkCtx {
  c_origin : option name; c_prev_owner : option name; c_prev_ttl : option N;
  c_prev_class : option N; c_default_ttl : option N }.
Definition ctx0 : ctx := mkCtx None None None None None.

Definition ttl_from (raw : N) : N := if 2147483647 <? raw then 0 else raw.

Definition parse_u32 (k : int_err -> zkind) : M N := read_field (parse_uint U32_MAX) k.
Definition parse_u16 (k : int_err -> zkind) : M N := read_field (parse_uint U16_MAX) k.
Definition parse_u8 (k : int_err -> zkind) : M N := read_field (parse_uint U8_MAX) k.
Definition opt_sum {A} (o : option A) : A + unit := match o with Some a => inl a | None => inr tt end.
Definition parse_ipv4 : M bytes := read_field (fun s => opt_sum (ipv4_from_str s)) (fun _ => InvalidIpv4).
Definition parse_ipv6 : M bytes := read_field (fun s => opt_sum (ipv6_from_str s)) (fun _ => InvalidIpv6).

Definition parse_ttl : M N := do v <- parse_u32 InvalidTtl; ret (ttl_from v).
Definition parse_class : M N := read_field class_from_str InvalidClass.

Definition parse_type : M N :=
  do position <- getpos;
  do t <- read_field type_from_str InvalidType;
  if t =? TYPE_NULL then failM position NullNotAllowed
  else if t =? TYPE_OPT then failM position OptNotAllowed
  else if t =? TYPE_TSIG then failM position TsigNotAllowed
  else ret t.

Definition default_or_previous_ttl (c : ctx) : option N :=
  match c_default_ttl c with Some t => Some t | None => c_prev_ttl c end.

Definition parse_ttl_and_class (c : ctx) : M (N * N) :=
  do t1 <- try_ok parse_ttl;
  match t1 with
  | Some ttl =>
    skip_to_next_field ExpectedClassOrType ;;
    do c1 <- try_ok parse_class;
    match c1 with
    | Some class => ret (ttl, class)
    | None => match c_prev_class c with
              | Some class => ret (ttl, class)
              | None => failHere OmittedClassWithNoPrevious
              end
    end
  | None =>
    do c1 <- try_ok parse_class;
    match c1 with
    | Some class =>
      skip_to_next_field ExpectedTtlOrType ;;
      do t2 <- try_ok parse_ttl;
      match t2 with
      | Some ttl => ret (ttl, class)
      | None => match default_or_previous_ttl c with
                | Some ttl => ret (ttl, class)
                | None => failHere OmittedTtlWithNoDefaultOrPrevious
                end
      end
    | None =>
      match default_or_previous_ttl c, c_prev_class c with
      | Some ttl, Some class => ret (ttl, class)
      | Some _, None => failHere OmittedClassWithNoPrevious
      | None, _ => failHere OmittedTtlWithNoDefaultOrPrevious
      end
    end
  end.

Definition check_backslash_hash (expected : zkind) : M bool :=
  skip_to_next_field expected ;; expect_field [92; 35].

(* util::ascii_hex_digit_to_nibble *)
Definition hex_nibble (d : N) : option N :=
  if is_digit d then Some (d - 48)
  else if inr_ 65 70 d then Some (d - 65 + 10)
  else if inr_ 97 102 d then Some (d - 97 + 10)
  else None.

Definition hex_digit_of (d : N) : M N :=
  match hex_nibble d with
  | Some n => ret n
  | None => failHere InvalidHexDigit
  end.

Definition parse_ascii_hex_digit : M N :=
  do o <- read_field_octet;
  match o with
  | Some d => hex_digit_of d
  | None => failHere UnexpectedEndOfHexRdata
  end.

(* first digit of an octet: RFC 3597 § 5 allows the hexadecimal data to be split into several
   words, so an exhausted word is followed by a skip to the next field of the logical line *)
Definition parse_leading_ascii_hex_digit : M N :=
  do position <- getpos;
  do o <- read_field_octet;
  match o with
  | Some d => hex_digit_of d
  | None =>
    do f <- skip_to_next_field_or_to_eol;
    match f with
    | Field => parse_ascii_hex_digit
    | Eol => failM position UnexpectedEndOfHexRdata
    end
  end.

(* `while rdata.len() < len`: n octets still to read; the Vec is built in reverse *)
Fixpoint hex_loop (n : nat) (acc : bytes) : M bytes :=
  match n with
  | O => ret (rev_fast acc)
  | S n' =>
    do h <- parse_leading_ascii_hex_digit;
    do l <- parse_ascii_hex_digit;
    hex_loop n' ((h * 16 + l) :: acc)            (* (high << 4) | low on nibbles *)
  end.

Definition parse_unknown_rdata_impl : M (pos * bytes) :=
  skip_to_next_field ExpectedRdataLen ;;
  do len <- parse_u16 InvalidRdataLen;
  do result <- (if len =? 0 then do p <- getpos; ret (p, [])
                else skip_to_next_field ExpectedHexRdata ;;
                     do p <- getpos;
                     do rdata <- hex_loop (N.to_nat len) [];
                     do rdata' <- mk_rdata rdata;
                     ret (p, rdata'));
  expect_eol ;;
  ret result.

Definition parse_unknown_rdata : M bytes := do x <- parse_unknown_rdata_impl; ret (snd x).

Definition parse_unknown_rdata_with_validation (validator : bytes -> res unit bool) : M bytes :=
  do x <- parse_unknown_rdata_impl;
  match validator (snd x) with
  | Ok true => ret (snd x)
  | Ok false => failM (fst x) InvalidRdataForType
  | Err _ => out_of_fuel
  | Panic => panicM
  end.

Definition parse_name_rdata (c : ctx) : M bytes :=
  do bh <- check_backslash_hash ExpectedNameOrBh;
  if bh then parse_unknown_rdata_with_validation vname_all
  else do n <- parse_name (c_origin c); expect_eol ;; mk_rdata (n_wire n).

Definition parse_in_a_rdata : M bytes :=
  do bh <- check_backslash_hash ExpectedIpv4OrBh;
  if bh then parse_unknown_rdata_with_validation validate_as_in_a
  else do a <- parse_ipv4; expect_eol ;; mk_rdata a.

Fixpoint chaos_loop (fuel : nat) (start : pos) (address : N) : M N :=
  match fuel with
  | O => out_of_fuel
  | S fuel' =>
    do o <- read_field_octet;
    match o with
    | Some octet =>
      if inr_ 48 55 octet then
        if 65535 <? address * 8 then failM start InvalidChaosnetAddr      (* checked_mul *)
        else let a' := address * 8 + (octet - 48) in
             if 65535 <? a' then panicM                                     (* u16 += *)
             else chaos_loop fuel' start a'
      else failM start InvalidChaosnetAddr
    | None => ret address
    end
  end.
Definition parse_chaosnet_address : M N :=
  do start <- getpos; do fuel <- get_fuel; chaos_loop fuel start 0.

Definition parse_ch_a_rdata (c : ctx) : M bytes :=
  do bh <- check_backslash_hash ExpectedNameOrBh;
  if bh then parse_unknown_rdata_with_validation validate_as_ch_a
  else do lan <- parse_name (c_origin c);
       skip_to_next_field ExpectedChaosnetAddr ;;
       do address <- parse_chaosnet_address;
       expect_eol ;;
       mk_rdata (n_wire lan ++ be16 address).

Definition parse_soa_rdata (c : ctx) : M bytes :=
  do bh <- check_backslash_hash ExpectedNameOrBh;
  if bh then parse_unknown_rdata_with_validation validate_as_soa
  else do mname <- parse_name (c_origin c);
       skip_to_next_field ExpectedName ;;
       do rname <- parse_name (c_origin c);
       skip_to_next_field ExpectedU32 ;;
       do serial <- parse_u32 InvalidInt;
       skip_to_next_field ExpectedU32 ;;
       do refresh <- parse_u32 InvalidInt;
       skip_to_next_field ExpectedU32 ;;
       do retry <- parse_u32 InvalidInt;
       skip_to_next_field ExpectedU32 ;;
       do expire <- parse_u32 InvalidInt;
       skip_to_next_field ExpectedU32 ;;
       do minimum <- parse_u32 InvalidInt;
       expect_eol ;;
       mk_rdata (n_wire mname ++ n_wire rname ++ be32 serial ++ be32 refresh ++ be32 retry
                 ++ be32 expire ++ be32 minimum).

(* the `while skip_to_next_field_or_through_eol()? == Field` loop; ports in reverse *)
Fixpoint wks_loop (fuel : nat) (start : pos) (count : N) (ports_rev : list N) : M (list N) :=
  match fuel with
  | O => out_of_fuel
  | S fuel' =>
    do f <- skip_to_next_field_or_through_eol;
    match f with
    | Eol => ret ports_rev
    | Field =>
      if 65535 <=? count then failM start WksTooLong
      else do port <- parse_u16 InvalidInt;
           wks_loop fuel' start (count + 1) (port :: ports_rev)
    end
  end.

Definition parse_in_wks_rdata : M bytes :=
  do bh <- check_backslash_hash ExpectedIpv4OrBh;
  if bh then parse_unknown_rdata_with_validation validate_as_in_wks
  else do start <- getpos;
       do address <- parse_ipv4;
       skip_to_next_field ExpectedIpProto ;;
       do tcp <- expect_field_ci [84; 67; 80];
       do protocol <- (if tcp then ret 6
                       else do udp <- expect_field_ci [85; 68; 80];
                            if udp then ret 17 else parse_u8 InvalidInt);
       do fuel <- get_fuel;
       do ports_rev <- wks_loop fuel start 0 [];
       new_in_wks address protocol (rev_fast ports_rev).

Definition parse_hinfo_rdata : M bytes :=
  do bh <- check_backslash_hash ExpectedCharacterStringOrBh;
  if bh then parse_unknown_rdata_with_validation validate_as_hinfo
  else do cpu <- parse_character_string;
       skip_to_next_field ExpectedCharacterString ;;
       do os <- parse_character_string;
       expect_eol ;;
       mk_rdata ([N.of_nat (length cpu) mod 256] ++ cpu ++ [N.of_nat (length os) mod 256] ++ os).

Definition parse_minfo_rdata (c : ctx) : M bytes :=
  do bh <- check_backslash_hash ExpectedNameOrBh;
  if bh then parse_unknown_rdata_with_validation validate_as_minfo
  else do rmailbx <- parse_name (c_origin c);
       skip_to_next_field ExpectedName ;;
       do emailbx <- parse_name (c_origin c);
       expect_eol ;;
       mk_rdata (n_wire rmailbx ++ n_wire emailbx).

Definition parse_mx_rdata (c : ctx) : M bytes :=
  do bh <- check_backslash_hash ExpectedU16OrBh;
  if bh then parse_unknown_rdata_with_validation validate_as_mx
  else do preference <- parse_u16 InvalidInt;
       skip_to_next_field ExpectedName ;;
       do exchange <- parse_name (c_origin c);
       expect_eol ;;
       mk_rdata (be16 preference ++ n_wire exchange).

(* TxtBuilder::try_push on the strings pushed so far (chunks in reverse, written = total) *)
Fixpoint txt_loop (fuel : nat) (start : pos) (written : N) (chunks_rev : list bytes) : M (list bytes) :=
  match fuel with
  | O => out_of_fuel
  | S fuel' =>
    do cs <- parse_character_string;
    let n := N.of_nat (length cs) in
    if 65535 <? written + n + 1 then failM start TxtTooLong
    else
      let chunks' := ((n mod 256) :: cs) :: chunks_rev in
      do f <- skip_to_next_field_or_through_eol;
      match f with
      | Eol => ret chunks'
      | Field => txt_loop fuel' start (written + n + 1) chunks'
      end
  end.

Definition parse_txt_rdata : M bytes :=
  do bh <- check_backslash_hash ExpectedCharacterStringOrBh;
  if bh then parse_unknown_rdata_with_validation validate_as_txt
  else do start <- getpos;
       do fuel <- get_fuel;
       do chunks_rev <- txt_loop fuel start 0 [];
       mk_rdata (concat (rev_fast chunks_rev)).

Definition parse_in_aaaa_rdata : M bytes :=
  do bh <- check_backslash_hash ExpectedIpv6OrBh;
  if bh then parse_unknown_rdata_with_validation validate_as_in_aaaa
  else do a <- parse_ipv6; expect_eol ;; mk_rdata a.

Definition parse_in_srv_rdata (c : ctx) : M bytes :=
  do bh <- check_backslash_hash ExpectedU16OrBh;
  if bh then parse_unknown_rdata_with_validation validate_as_in_srv
  else do priority <- parse_u16 InvalidInt;
       skip_to_next_field ExpectedU16 ;;
       do weight <- parse_u16 InvalidInt;
       skip_to_next_field ExpectedU16 ;;
       do port <- parse_u16 InvalidInt;
       skip_to_next_field ExpectedName ;;
       do target <- parse_name (c_origin c);
       expect_eol ;;
       mk_rdata (be16 priority ++ be16 weight ++ be16 port ++ n_wire target).

Definition parse_rdata (c : ctx) (class rr_type : N) : M bytes :=
  if in_types rr_type name_rdata_types then parse_name_rdata c
  else if (rr_type =? TYPE_A) && (class =? CLASS_IN) then parse_in_a_rdata
  else if (rr_type =? TYPE_A) && (class =? CLASS_CH) then parse_ch_a_rdata c
  else if rr_type =? TYPE_SOA then parse_soa_rdata c
  else if (rr_type =? TYPE_WKS) && (class =? CLASS_IN) then parse_in_wks_rdata
  else if rr_type =? TYPE_HINFO then parse_hinfo_rdata
  else if rr_type =? TYPE_MINFO then parse_minfo_rdata c
  else if rr_type =? TYPE_MX then parse_mx_rdata c
  else if rr_type =? TYPE_TXT then parse_txt_rdata
  else if (rr_type =? TYPE_AAAA) && (class =? CLASS_IN) then parse_in_aaaa_rdata
  else if (rr_type =? TYPE_SRV) && (class =? CLASS_IN) then parse_in_srv_rdata c
  else
    do bh <- check_backslash_hash ExpectedBackslashHash;
    if negb bh then failHere ExpectedBackslashHash else parse_unknown_rdata.

Record rr := mkRr { rr_owner : name; rr_ttl : N; rr_class : N; rr_type : N; rr_rdata : bytes }.

Inductive content :=
| CInclude (path : bytes) (origin : option name)
| CRecord (r : rr).
Record line := mkLine { l_number : N; l_content : content }.

(* the part of parse_record_or_empty after the empty-line test *)
Definition parse_record_fields (c : ctx) (start_of_line : pos) (leading_whitespace : bool)
  : M (option line * ctx) :=
  do owner <- (if leading_whitespace then
                 match c_prev_owner c with
                 | Some o => ret o
                 | None => failM start_of_line EmptyOwnerWithNoPrevious
                 end
               else parse_name (c_origin c));
  skip_to_next_field ExpectedTtlClassOrType ;;
  do tc <- parse_ttl_and_class c;
  skip_to_next_field ExpectedType ;;
  do rr_type <- parse_type;
  do rdata <- parse_rdata c (snd tc) rr_type;
  ret (Some (mkLine (p_line start_of_line) (CRecord (mkRr owner (fst tc) (snd tc) rr_type rdata))),
       mkCtx (c_origin c) (Some owner) (Some (fst tc)) (Some (snd tc)) (c_default_ttl c)).

Definition parse_record_or_empty (c : ctx) : M (option line * ctx) :=
  do start_of_line <- getpos;
  do leading_whitespace <- lift skip_whitespace;
  do f <- skip_to_next_field_or_through_eol;
  match f with
  | Eol => ret (None, c)
  | Field => parse_record_fields c start_of_line leading_whitespace
  end.

(* ---- directive.rs ------------------------------------------------------------------- *)

Definition push_path_octet (o : N) (path_rev : bytes) (n : N) (start : pos) : M (bytes * N) :=
  if n <? INCLUDE_PATH_MAX then ret (o :: path_rev, n + 1) else failM start IncludePathTooLong.

Fixpoint pqip_loop (fuel : nat) (start : pos) (path_rev : bytes) (n : N) : M bytes :=
  match fuel with
  | O => out_of_fuel
  | S fuel' =>
    do cpos <- getpos;
    do o <- lift read_octet;
    match o with
    | Some octet =>
      if octet =? 92 then
        do e <- parse_escape;
        do pn <- push_path_octet e path_rev n start;
        pqip_loop fuel' start (fst pn) (snd pn)
      else if octet =? 34 then ret (rev_fast path_rev)
      else do pn <- push_path_octet octet path_rev n start;
           pqip_loop fuel' start (fst pn) (snd pn)
    | None => failM cpos EofInQuotedIncludePath
    end
  end.

Fixpoint puip_loop (fuel : nat) (start : pos) (path_rev : bytes) (n : N) : M bytes :=
  match fuel with
  | O => out_of_fuel
  | S fuel' =>
    do o <- read_field_octet;
    match o with
    | Some octet =>
      do eff <- (if octet =? 92 then parse_escape else ret octet);
      do pn <- push_path_octet eff path_rev n start;
      puip_loop fuel' start (fst pn) (snd pn)
    | None => ret (rev_fast path_rev)
    end
  end.

Definition parse_include_path : M bytes := fun r =>
  let quoted := match peek_octet r with Some c => c =? 34 | None => false end in
  if quoted then
    (do start <- getpos; do _ <- lift read_octet; do fuel <- get_fuel; pqip_loop fuel start [] 0) r
  else (do start <- getpos; do fuel <- get_fuel; puip_loop fuel start [] 0) r.

Definition parse_origin_directive (c : ctx) : M ctx :=
  skip_to_next_field ExpectedName ;;
  do n <- parse_name (c_origin c);
  expect_eol ;;
  ret (mkCtx (Some n) (c_prev_owner c) (c_prev_ttl c) (c_prev_class c) (c_default_ttl c)).

Definition parse_ttl_directive (c : ctx) : M ctx :=
  skip_to_next_field ExpectedTtl ;;
  do ttl <- parse_u32 InvalidTtl;
  expect_eol ;;
  ret (mkCtx (c_origin c) (c_prev_owner c) (c_prev_ttl c) (c_prev_class c) (Some (ttl_from ttl))).

Definition parse_include_directive (c : ctx) : M line :=
  do p <- getpos;
  skip_to_next_field ExpectedIncludePath ;;
  do path <- parse_include_path;
  do f <- skip_to_next_field_or_through_eol;
  do origin <- (match f with
                | Eol => ret (c_origin c)
                | Field => do o <- parse_name (c_origin c); expect_eol ;; ret (Some o)
                end);
  ret (mkLine (p_line p) (CInclude path origin)).

Definition d_origin : bytes := [36; 79; 82; 73; 71; 73; 78].          (* $ORIGIN *)
Definition d_ttl : bytes := [36; 84; 84; 76].                          (* $TTL *)
Definition d_include : bytes := [36; 73; 78; 67; 76; 85; 68; 69].      (* $INCLUDE *)

Definition parse_directive (c : ctx) : M (option line * ctx) :=
  do o <- expect_field_ci d_origin;
  if o then do c' <- parse_origin_directive c; ret (None, c')
  else
    do t <- expect_field_ci d_ttl;
    if t then do c' <- parse_ttl_directive c; ret (None, c')
    else
      do i <- expect_field_ci d_include;
      if i then do l <- parse_include_directive c; ret (Some l, c)
      else failHere UnknownDirective.

(* ---- mod.rs: the iterator ------------------------------------------------------------ *)

Definition parse_line (c : ctx) : M (option line * ctx) := fun r =>
  match peek_octet r with
  | Some d => if d =? 36 then parse_directive c r else parse_record_or_empty c r
  | None => parse_record_or_empty c r
  end.

Fixpoint lines_loop (fuel : nat) (c : ctx) (r : rd) : res zerr (option line * ctx * rd) :=
  match fuel with
  | O => Err ZOutOfFuel
  | S fuel' =>
    if at_eof r then Ok (None, c, r)
    else match parse_line c r with
         | Ok ((Some l, c'), r') => Ok (Some l, c', r')
         | Ok ((None, c'), r') => lines_loop fuel' c' r'
         | Err e => Err e
         | Panic => Panic
         end
  end.

Record parser := mkParser { ps_error : bool; ps_rd : rd; ps_ctx : ctx }.

Definition parser_new (input : bytes) : parser := mkParser false (rd_new input) ctx0.

(* <Parser as Iterator>::next *)
Definition parser_next (p : parser) : res zerr (option (line + (pos * zkind)) * parser) :=
  if ps_error p then Ok (None, p)
  else match lines_loop (r_fuel (ps_rd p)) (ps_ctx p) (ps_rd p) with
       | Ok (Some l, c, r) => Ok (Some (inl l), mkParser false r c)
       | Ok (None, c, r) => Ok (None, mkParser false r c)
       | Err (ZErr ps k) => Ok (Some (inr (ps, k)), mkParser true (ps_rd p) (ps_ctx p))
       | Err ZOutOfFuel => Err ZOutOfFuel
       | Panic => Panic
       end.

(* drive the iterator: the items yielded until the first None, then [extra] more calls *)
Fixpoint collect (fuel : nat) (p : parser) (acc : list (line + (pos * zkind)))
  : res zerr (list (line + (pos * zkind)) * parser) :=
  match fuel with
  | O => Err ZOutOfFuel
  | S fuel' =>
    let* (o, p') := parser_next p in
    match o with
    | Some it => collect fuel' p' (it :: acc)
    | None => Ok (rev_fast acc, p')
    end
  end.

Definition parse_all (input : bytes) : res zerr (list (line + (pos * zkind)) * parser) :=
  collect (S (S (length input))) (parser_new input) [].

(* ---- Rdata::validate (src/rr/rdata/mod.rs), for the types a zone file can carry -------- *)

Definition rdata_validate (class rr_type : N) (o : bytes) : res unit bool :=
  if in_types rr_type validate_name_types then vname_all o
  else if (rr_type =? TYPE_A) && (class =? CLASS_IN) then validate_as_in_a o
  else if (rr_type =? TYPE_A) && (class =? CLASS_CH) then validate_as_ch_a o
  else if rr_type =? TYPE_SOA then validate_as_soa o
  else if (rr_type =? TYPE_WKS) && (class =? CLASS_IN) then validate_as_in_wks o
  else if rr_type =? TYPE_HINFO then validate_as_hinfo o
  else if rr_type =? TYPE_MINFO then validate_as_minfo o
  else if rr_type =? TYPE_MX then validate_as_mx o
  else if rr_type =? TYPE_TXT then validate_as_txt o
  else if (rr_type =? TYPE_AAAA) && (class =? CLASS_IN) then validate_as_in_aaaa o
  else if (rr_type =? TYPE_SRV) && (class =? CLASS_IN) then validate_as_in_srv o
  else if (rr_type =? TYPE_OPT) || (rr_type =? TYPE_TSIG) then Err tt   (* OPT/TSIG validators are not modelled: such records are never yielded *)
  else Ok true.
