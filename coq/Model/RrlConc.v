(* C28 — process_response lifted to a small-step interleaving semantics.

   Any number of threads handle requests of ONE response stream (key [k]); they share the
   stream's bucket, a `Mutex<Entry>` of `Rrl::buckets` (src/server/rrl.rs:364-407).  One
   request is four steps of its thread:
       Acquire   `mutex.lock()`            only when the lock is free
       Read      the guard is dereferenced: the thread now works on what the cell holds
       Write     the critical section's computation ([cell_step]: key comparison, refill,
                 check-and-increment or replacement of the entry) with the thread's own
                 `Instant::now()` / random draw, result stored into the cell
       Release   the guard is dropped
   so that, without the lock discipline, two threads could interleave Read/Read/Write/Write
   and lose an update; the theorems show the lock rules this out.
   The scheduler/environment is the list of labels (thread id, now, rnd): which thread moves
   next and which clock value / draw it sees — arbitrary.  A label whose thread cannot move
   (lock held by another thread, thread finished, unknown id) is a stutter step.
   [c_sent]/[c_limited] are ghost counters of the decisions taken (what the harness counts).

   Not exhibited by this model, and therefore assumed: that std::sync::Mutex provides mutual
   exclusion and release/acquire ordering (here: Acquire is atomic and the cell is
   sequentially consistent) and poisoning.  The whole table with one lock per bucket and
   threads of many streams is Model/RrlConcT.v; it projects onto this system (c28_table_projection).
   No proofs in this file. *)
From QV Require Export Model.Rrl.
Local Open Scope N_scope.

(* what process_response does to the cell of the response's bucket *)
Definition cell_step (p : params) (k : key) (e : entry) (now rnd : N) : res unit (entry * action) :=
  if key_eqb (e_key e) k then entry_step_gen Fixed p e (k_category k) now rnd
  else Ok (mkEntry k 1 now, Send).

Inductive pc :=
| Idle                 (* between requests *)
| Locked               (* holds the lock *)
| HasRead (e : entry)  (* holds the lock, has read the cell *)
| Written.             (* holds the lock, has stored the new entry *)

Record thread := mkThread { th_pc : pc; th_todo : nat }.   (* th_todo: requests not yet started *)

Record cstate := mkC {
  c_cell : entry;              (* the bucket's Entry *)
  c_lock : option nat;         (* owner of the bucket's Mutex *)
  c_threads : list thread;
  c_sent : nat;                (* ghost: responses sent so far *)
  c_limited : nat }.           (* ghost: responses slipped or dropped so far *)

Fixpoint set_nth {A} (l : list A) (i : nat) (x : A) : list A :=
  match l, i with
  | [], _ => []
  | _ :: r, O => x :: r
  | y :: r, S j => y :: set_nth r j x
  end.

Definition label := (nat * N * N)%type.   (* thread id, Instant::now(), gen_range draw *)

(* one step of thread [tid]; None = the thread cannot move *)
Definition cstep (p : params) (k : key) (s : cstate) (l : label) : option cstate :=
  let '(tid, now, rnd) := l in
  match nth_error (c_threads s) tid with
  | None => None
  | Some th =>
    match th_pc th with
    | Idle =>
      match th_todo th, c_lock s with
      | S m, None => Some (mkC (c_cell s) (Some tid) (set_nth (c_threads s) tid (mkThread Locked m))
                               (c_sent s) (c_limited s))
      | _, _ => None
      end
    | Locked =>
      Some (mkC (c_cell s) (c_lock s) (set_nth (c_threads s) tid (mkThread (HasRead (c_cell s)) (th_todo th)))
                (c_sent s) (c_limited s))
    | HasRead e =>
      match cell_step p k e now rnd with
      | Ok (e', act) =>
        Some (mkC e' (c_lock s) (set_nth (c_threads s) tid (mkThread Written (th_todo th)))
                  (match act with Send => S (c_sent s) | _ => c_sent s end)
                  (match act with Send => c_limited s | _ => S (c_limited s) end))
      | _ => None
      end
    | Written =>
      Some (mkC (c_cell s) None (set_nth (c_threads s) tid (mkThread Idle (th_todo th)))
                (c_sent s) (c_limited s))
    end
  end.

(* a whole schedule; labels that are not enabled are skipped *)
Fixpoint crun (p : params) (k : key) (s : cstate) (sched : list label) : cstate :=
  match sched with
  | [] => s
  | l :: r => crun p k (match cstep p k s l with Some s' => s' | None => s end) r
  end.

(* n threads-worth of work: thread i is to handle (nth i bursts) requests *)
Definition cinit (e : entry) (bursts : list nat) : cstate :=
  mkC e None (map (fun b => mkThread Idle b) bursts) 0 0.

Definition thread_done (th : thread) : bool :=
  match th_pc th, th_todo th with Idle, O => true | _, _ => false end.
Definition all_done (s : cstate) : bool := forallb thread_done (c_threads s).

(* The same system WITHOUT the lock (Acquire does not wait): used only to show that the
   theorem is about the lock — see c28_lockless_refuted. *)
Definition cstep_nolock (p : params) (k : key) (s : cstate) (l : label) : option cstate :=
  let '(tid, now, rnd) := l in
  match nth_error (c_threads s) tid with
  | None => None
  | Some th =>
    match th_pc th, th_todo th with
    | Idle, S m => Some (mkC (c_cell s) None (set_nth (c_threads s) tid (mkThread Locked m)) (c_sent s) (c_limited s))
    | _, _ => cstep p k s l
    end
  end.
Fixpoint crun_nolock (p : params) (k : key) (s : cstate) (sched : list label) : cstate :=
  match sched with
  | [] => s
  | l :: r => crun_nolock p k (match cstep_nolock p k s l with Some s' => s' | None => s end) r
  end.
