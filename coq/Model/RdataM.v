(* Model of /repo/src/rr/rdata/{mod,helpers,std13,srv,ipv6,opt,tsig}.rs:
   Rdata::{validate, read, equals, components} and their type-specific variants.
   Same control flow and arithmetic as the Rust code; every slice, usize
   subtraction and `try_into().unwrap()` is a potential [Panic].  The four
   `match rr_type` dispatchers are NOT transcribed by hand: they are looked up in
   the tables of Gen/RdataTables.v, re-extracted from the source on every run.
   Embedded names go through Model/NameWire.v.  No proofs here. *)
From QV Require Export Base.Res Base.Octets Gen.Consts Gen.RdataTables Model.NameWire.

(* ReadRdataError, plus the model-only OutOfFuel *)
Inductive rd_err := InvalidName (e : name_err) | RUnexpectedEom | ROther | ROutOfFuel.

(* ---- dispatch through the generated tables ---------------------------------- *)

(* `Type::X | Type::Y if class == Class::C` *)
Definition arm_matches {H} (c t : N) (a : arm H) : bool :=
  existsb (N.eqb t) (fst (fst a)) &&
  match snd (fst a) with None => true | Some c' => (c =? c')%N end.

(* first matching arm, else the `_` arm *)
Fixpoint lookup {H} (arms : list (arm H)) (dflt : H) (c t : N) : H :=
  match arms with
  | [] => dflt
  | a :: r => if arm_matches c t a then snd a else lookup r dflt c t
  end.

(* ---- Rust primitives ----------------------------------------------------------- *)

(* &l[k..] *)
Definition slice_from {E} (l : bytes) (k : nat) : res E bytes :=
  if length l <? k then Panic else Ok (skipn k l).
(* l.get(k..) *)
Definition get_from (l : bytes) (k : nat) : option bytes :=
  if length l <? k then None else Some (skipn k l).
(* l.get(a..b) *)
Definition get_range (l : bytes) (a b : nat) : option bytes :=
  if (b <? a) || (length l <? b) then None else Some (slice l a b).
(* &l[a..b] *)
Definition slice_range {E} (l : bytes) (a b : nat) : res E bytes :=
  match get_range l a b with None => Panic | Some s => Ok s end.
(* usize subtraction (overflow checks on) *)
Definition usub {E} (a b : nat) : res E nat := if a <? b then Panic else Ok (a - b).
(* u16::from_be_bytes of a 2-octet slice ([0],[1] indexing / try_into().unwrap()) *)
Definition be16_of {E} (s : bytes) : res E nat :=
  match s with
  | [a; b] => Ok (N.to_nat (a * 256 + b))
  | _ => Panic
  end.
(* <&Rdata>::try_from(..).unwrap() / Vec<u8> -> Box<Rdata> .unwrap(): at most u16::MAX octets *)
Definition to_rdata {E} (v : bytes) : res E bytes :=
  if (65535 <? N.of_nat (length v))%N then Panic else Ok v.

Fixpoint bytes_eqb (a b : bytes) : bool :=
  match a, b with
  | [], [] => true
  | x :: a', y :: b' => (x =? y)%N && bytes_eqb a' b'
  | _, _ => false
  end.

(* ---- names ------------------------------------------------------------------------ *)

Definition vname (r : bytes) (all : bool) : res rd_err nat :=
  map_err InvalidName (validate_uncompressed_name r all).
Definition uname (r : bytes) : res rd_err (name * nat) :=
  map_err InvalidName (parse_uncompressed_name r false).
Definition pname (buf : bytes) (start : nat) : res rd_err (name * nat) :=
  map_err InvalidName (parse_compressed_name buf start).

(* [u8]::eq_ignore_ascii_case *)
Fixpoint ci_eqb (a b : bytes) : bool :=
  match a, b with
  | [], [] => true
  | x :: a', y :: b' => (lower x =? lower y)%N && ci_eqb a' b'
  | _, _ => false
  end.

(* impl PartialEq for Name: same label count and label-wise Label::eq
   (labels() indexes the name: label_at; `all` stops at the first difference) *)
Fixpoint labels_eq (n i : nat) (a b : name) : res rd_err bool :=
  match n with
  | O => Ok true
  | S n' =>
    let* la := map_err InvalidName (label_at a i) in
    let* lb := map_err InvalidName (label_at b i) in
    if ci_eqb la lb then labels_eq n' (S i) a b else Ok false
  end.
(* zip stops at the shorter iterator; the lengths are equal when it runs *)
Definition name_eq (a b : name) : res rd_err bool :=
  if length (n_offsets a) =? length (n_offsets b)
  then labels_eq (length (n_offsets a)) 0 a b
  else Ok false.

(* ---- validate ----------------------------------------------------------------------- *)

(* std13.rs validate_character_string *)
Definition validate_character_string (octets : bytes) : res rd_err nat :=
  match octets with
  | [] => Err ROther
  | len :: _ =>
    let wire_len := 1 + N.to_nat len in
    if wire_len <=? length octets then Ok wire_len else Err ROther
  end.

Definition validate_name (r : bytes) : res rd_err unit :=
  let* _ := vname r true in Ok tt.

Definition validate_as_in_a (r : bytes) : res rd_err unit :=
  if length r =? 4 then Ok tt else Err ROther.

Definition validate_as_ch_a (r : bytes) : res rd_err unit :=
  let* lan_len := vname r false in
  if length r =? lan_len + 2 then Ok tt else Err ROther.

Definition validate_as_soa (r : bytes) : res rd_err unit :=
  let* mname_len := vname r false in
  let* rest := slice_from r mname_len in
  let* rname_len := vname rest false in
  if length r =? 20 + mname_len + rname_len then Ok tt else Err ROther.

Definition validate_as_in_wks (r : bytes) : res rd_err unit :=
  if 5 <=? length r then Ok tt else Err ROther.

Definition validate_as_hinfo (r : bytes) : res rd_err unit :=
  let* cpu_len := validate_character_string r in
  let* rest := slice_from r cpu_len in
  let* os_len := validate_character_string rest in
  if length r =? cpu_len + os_len then Ok tt else Err ROther.

Definition validate_as_minfo (r : bytes) : res rd_err unit :=
  let* rmailbx_len := vname r false in
  let* rest := slice_from r rmailbx_len in
  let* _ := vname rest true in Ok tt.

(* MX: preference (2), exchange; SRV: priority, weight, port (6), target *)
Definition validate_fixed_then_name (k : nat) (r : bytes) : res rd_err unit :=
  match get_from r k with
  | Some name_octets => let* _ := vname name_octets true in Ok tt
  | None => Err ROther
  end.
Definition validate_as_mx := validate_fixed_then_name 2.
Definition validate_as_in_srv := validate_fixed_then_name 6.

Fixpoint txt_loop (fuel : nat) (r : bytes) (offset : nat) : res rd_err unit :=
  match fuel with
  | O => Err ROutOfFuel
  | S f =>
    if offset <? length r then
      let* s := slice_from r offset in
      let* n := validate_character_string s in
      txt_loop f r (offset + n)
    else Ok tt
  end.
Definition validate_as_txt (r : bytes) : res rd_err unit :=
  if length r =? 0 then Err ROther else txt_loop (S (length r)) r 0.

Definition validate_as_in_aaaa (r : bytes) : res rd_err unit :=
  if length r =? 16 then Ok tt else Err ROther.

(* opt.rs validate_option *)
Definition validate_option (octets : bytes) : res rd_err nat :=
  match get_range octets 2 4 with
  | Some len_octets =>
    let* len := be16_of len_octets in
    if len + 4 <=? length octets then Ok (len + 4) else Err ROther
  | None => Err ROther
  end.
Fixpoint opt_loop (fuel : nat) (r : bytes) (offset : nat) : res rd_err unit :=
  match fuel with
  | O => Err ROutOfFuel
  | S f =>
    if offset <? length r then
      let* s := slice_from r offset in
      let* n := validate_option s in
      opt_loop f r (offset + n)
    else Ok tt
  end.
Definition validate_as_opt (r : bytes) : res rd_err unit := opt_loop (S (length r)) r 0.

Definition validate_as_tsig (r : bytes) : res rd_err unit :=
  let* algorithm_len := vname r false in
  match get_range r (algorithm_len + 8) (algorithm_len + 10) with
  | None => Err ROther
  | Some mac_size_octets =>
    let* mac_size := be16_of mac_size_octets in
    match get_range r (algorithm_len + mac_size + 14) (algorithm_len + mac_size + 16) with
    | None => Err ROther
    | Some other_len_octets =>
      let* other_len := be16_of other_len_octets in
      if algorithm_len + mac_size + other_len + 16 =? length r then Ok tt else Err ROther
    end
  end.

Definition run_validator (v : vhandler) (r : bytes) : res rd_err unit :=
  match v with
  | V_validate_name => validate_name r
  | V_validate_as_in_a => validate_as_in_a r
  | V_validate_as_ch_a => validate_as_ch_a r
  | V_validate_as_soa => validate_as_soa r
  | V_validate_as_in_wks => validate_as_in_wks r
  | V_validate_as_hinfo => validate_as_hinfo r
  | V_validate_as_minfo => validate_as_minfo r
  | V_validate_as_mx => validate_as_mx r
  | V_validate_as_txt => validate_as_txt r
  | V_validate_as_in_aaaa => validate_as_in_aaaa r
  | V_validate_as_in_srv => validate_as_in_srv r
  | V_validate_as_opt => validate_as_opt r
  | V_validate_as_tsig => validate_as_tsig r
  | V_ok => Ok tt
  end.

(* Rdata::validate *)
Definition validate (c t : N) (r : bytes) : res rd_err unit :=
  run_validator (lookup validate_arms validate_default c t) r.

(* ---- read --------------------------------------------------------------------------- *)

(* helpers.rs prepare_to_read_rdata; rdlength is a u16 *)
Definition prepare_to_read_rdata (message : bytes) (cursor : nat) (rdlength : N) : res rd_err bytes :=
  let e := cursor + N.to_nat rdlength in
  if length message <? e then Err RUnexpectedEom else Ok (firstn e message).

Definition read_name_rdata (message : bytes) (cursor : nat) (rdlength : N) : res rd_err bytes :=
  let* buf := prepare_to_read_rdata message cursor rdlength in
  let* (nm, len) := pname buf cursor in
  let* d := usub (length buf) cursor in
  if negb (d =? len) then Err ROther else to_rdata (n_wire nm).

Definition read_ch_a (message : bytes) (cursor : nat) (rdlength : N) : res rd_err bytes :=
  let* buf := prepare_to_read_rdata message cursor rdlength in
  let* (lan, lan_len) := pname buf cursor in
  let* d := usub (length buf) cursor in
  if d =? lan_len + 2 then
    let* tail := slice_from buf (cursor + lan_len) in
    to_rdata (n_wire lan ++ tail)
  else Err ROther.

Definition read_soa (message : bytes) (cursor : nat) (rdlength : N) : res rd_err bytes :=
  let* buf := prepare_to_read_rdata message cursor rdlength in
  let* (mname, mlen) := pname buf cursor in
  let* (rname, rlen) := pname buf (cursor + mlen) in
  let* d1 := usub (length buf) cursor in
  let* d2 := usub d1 mlen in
  let* d3 := usub d2 rlen in
  if negb (d3 =? 20) then Err ROther
  else
    let* tail := slice_from buf (cursor + mlen + rlen) in
    to_rdata (n_wire mname ++ n_wire rname ++ tail).

Definition read_minfo (message : bytes) (cursor : nat) (rdlength : N) : res rd_err bytes :=
  let* buf := prepare_to_read_rdata message cursor rdlength in
  let* (rmailbx, rlen) := pname buf cursor in
  let* (emailbx, elen) := pname buf (cursor + rlen) in
  let* d := usub (length buf) cursor in
  if negb (d =? rlen + elen) then Err ROther
  else to_rdata (n_wire rmailbx ++ n_wire emailbx).

(* read_mx (k = 2) and read_in_srv (k = 6) *)
Definition read_fixed_then_name (k : nat) (message : bytes) (cursor : nat) (rdlength : N)
  : res rd_err bytes :=
  let* buf := prepare_to_read_rdata message cursor rdlength in
  let* d := usub (length buf) cursor in
  if d <? k then Err ROther
  else
    let* (exchange, len) := pname buf (cursor + k) in
    let* d' := usub (length buf) cursor in
    if negb (d' =? len + k) then Err ROther
    else
      let* pre := slice_range buf cursor (cursor + k) in
      to_rdata (pre ++ n_wire exchange).
Definition read_mx := read_fixed_then_name 2.
Definition read_in_srv := read_fixed_then_name 6.

Definition run_reader (d : dreader) : bytes -> nat -> N -> res rd_err bytes :=
  match d with
  | D_read_name_rdata => read_name_rdata
  | D_read_ch_a => read_ch_a
  | D_read_soa => read_soa
  | D_read_minfo => read_minfo
  | D_read_mx => read_mx
  | D_read_in_srv => read_in_srv
  end.

(* the `without_decompression` closure of Rdata::read *)
Definition without_decompression (v : vhandler) (message : bytes) (cursor : nat) (rdlength : N)
  : res rd_err bytes :=
  let* buf := prepare_to_read_rdata message cursor rdlength in
  let* s := slice_from buf cursor in
  let* rdata := to_rdata s in
  let* _ := run_validator v rdata in
  Ok rdata.

(* Rdata::read *)
Definition read (c t : N) (message : bytes) (cursor : nat) (rdlength : N) : res rd_err bytes :=
  match lookup read_arms read_default c t with
  | R_dec d => run_reader d message cursor rdlength
  | R_nodec v => without_decompression v message cursor rdlength
  end.

(* ---- equals ------------------------------------------------------------------------- *)

(* helpers.rs test_n_name_fields: Ok (Some (Some len)) | Ok (Some None) | Ok None *)
Fixpoint tnf_loop (n : nat) (first second : bytes) (offset : nat)
  : res rd_err (option (option nat)) :=
  match n with
  | O => Ok (Some (Some offset))
  | S n' =>
    let* f := slice_from first offset in
    let* s := slice_from second offset in
    match parse_uncompressed_name f false, parse_uncompressed_name s false with
    | Panic, _ | _, Panic => Panic
    | Err _, Err _ => Ok None
    | Ok _, Err _ | Err _, Ok _ => Ok (Some None)
    | Ok (first_fieldn, fieldn_len), Ok (second_fieldn, _) =>
      let* e := name_eq first_fieldn second_fieldn in
      if e then tnf_loop n' first second (offset + fieldn_len) else Ok (Some None)
    end
  end.
Definition test_n_name_fields (first second : bytes) (n : nat) := tnf_loop n first second 0.

(* helpers.rs names_equal, AS REPAIRED by the fix: commit
   (`Some(Some(len)) if len == first.len() && len == second.len()`) *)
Definition names_equal (first second : bytes) : res rd_err bool :=
  let* r := test_n_name_fields first second 1 in
  match r with
  | Some (Some len) =>
    if (len =? length first) && (len =? length second) then Ok true
    else Ok (bytes_eqb first second)
  | Some None => Ok false
  | None => Ok (bytes_eqb first second)
  end.

(* the code before the fix: the guard looked at the first operand only *)
Definition names_equal_prefix (first second : bytes) : res rd_err bool :=
  let* r := test_n_name_fields first second 1 in
  match r with
  | Some (Some len) =>
    if len =? length first then Ok true else Ok (bytes_eqb first second)
  | Some None => Ok false
  | None => Ok (bytes_eqb first second)
  end.

Definition equals_as_ch_a (a b : bytes) : res rd_err bool :=
  if negb (length a =? length b) then Ok false
  else
    let* r := test_n_name_fields a b 1 in
    match r with
    | Some (Some len) =>
      if len + 2 =? length a then
        let* x := slice_from a len in
        let* y := slice_from b len in
        Ok (bytes_eqb x y)
      else Ok (bytes_eqb a b)
    | Some None => Ok false
    | None => Ok (bytes_eqb a b)
    end.

Definition equals_as_soa (a b : bytes) : res rd_err bool :=
  if negb (length a =? length b) then Ok false
  else
    let* r := test_n_name_fields a b 2 in
    match r with
    | Some (Some len) =>
      let* d := usub (length a) len in
      if negb (d =? 20) then Ok (bytes_eqb a b)
      else
        let* x := slice_from a len in
        let* y := slice_from b len in
        Ok (bytes_eqb x y)
    | Some None => Ok false
    | None => Ok (bytes_eqb a b)
    end.

Definition equals_as_minfo (a b : bytes) : res rd_err bool :=
  if negb (length a =? length b) then Ok false
  else
    let* r := test_n_name_fields a b 2 in
    match r with
    | Some (Some len) => if len =? length a then Ok true else Ok (bytes_eqb a b)
    | Some None => Ok false
    | None => Ok (bytes_eqb a b)
    end.

(* equals_as_mx (k = 2), equals_as_in_srv (k = 6) *)
Definition equals_fixed_then_name (k : nat) (a b : bytes) : res rd_err bool :=
  if negb (length a =? length b) then Ok false
  else if k <? length a then
    let* pa := slice_range a 0 k in
    let* pb := slice_range b 0 k in
    if bytes_eqb pa pb then
      let* ta := slice_from a k in
      let* tb := slice_from b k in
      names_equal ta tb
    else Ok false
  else Ok (bytes_eqb a b).
Definition equals_as_mx := equals_fixed_then_name 2.
Definition equals_as_in_srv := equals_fixed_then_name 6.

Definition run_equals (h : ehandler) (a b : bytes) : res rd_err bool :=
  match h with
  | E_names_equal => names_equal a b
  | E_equals_as_ch_a => equals_as_ch_a a b
  | E_equals_as_soa => equals_as_soa a b
  | E_equals_as_minfo => equals_as_minfo a b
  | E_equals_as_mx => equals_as_mx a b
  | E_equals_as_in_srv => equals_as_in_srv a b
  | E_bitwise => Ok (bytes_eqb a b)
  end.

(* Rdata::equals (self = a, other = b) *)
Definition equals (c t : N) (a b : bytes) : res rd_err bool :=
  run_equals (lookup equals_arms equals_default c t) a b.

(* Rdata::equals with the pre-fix names_equal, for the regression witness *)
Definition run_equals_prefix (h : ehandler) (a b : bytes) : res rd_err bool :=
  match h with
  | E_names_equal => names_equal_prefix a b
  | _ => run_equals h a b
  end.
Definition equals_prefix (c t : N) (a b : bytes) : res rd_err bool :=
  run_equals_prefix (lookup equals_arms equals_default c t) a b.

(* ---- components --------------------------------------------------------------------- *)

Inductive component :=
| CName (compressible : bool) (nm : name)
| COther (b : bytes).

(* Components::next collected up to the first error (after an error the iterator
   keeps returning it; callers stop there) *)
Fixpoint comp_collect (types : list comp_type) (rdata : bytes) : res rd_err (list component) :=
  match types with
  | [] => match rdata with [] => Ok [] | _ => Ok [COther rdata] end
  | ty :: rest =>
    match ty with
    | FixedLen n =>
      match get_range rdata 0 n with
      | None => Err RUnexpectedEom
      | Some fixed =>
        let* remaining := slice_from rdata n in
        let* tl := comp_collect rest remaining in
        Ok (COther fixed :: tl)
      end
    | CompressibleName =>
      let* (nm, len) := uname rdata in
      let* remaining := slice_from rdata len in
      let* tl := comp_collect rest remaining in
      Ok (CName true nm :: tl)
    | UncompressibleName =>
      let* (nm, len) := uname rdata in
      let* remaining := slice_from rdata len in
      let* tl := comp_collect rest remaining in
      Ok (CName false nm :: tl)
    end
  end.

(* Rdata::components *)
Definition components (c t : N) (r : bytes) : res rd_err (list component) :=
  comp_collect (lookup components_arms components_default c t) r.

Definition component_octets (x : component) : bytes :=
  match x with CName _ nm => n_wire nm | COther b => b end.
