(* Rdata::read with the one unchecked usize addition of helpers.rs made explicit:
   prepare_to_read_rdata computes `cursor + rdlength as usize`, which (overflow checks
   on) panics when the sum exceeds usize::MAX.  Model/RdataM.v computes in nat; this file
   is the same code over a usize of maximum value [umax].  No proofs here. *)
From QV Require Export Model.RdataM.

(* usize + (u16 as usize), overflow-checked *)
Definition uadd_usize {E} (umax : N) (a : nat) (b : N) : res E nat :=
  if (umax <? N.of_nat a + b)%N then Panic else Ok (a + N.to_nat b).

(* helpers.rs prepare_to_read_rdata over a bounded usize *)
Definition prepare_to_read_rdata_usz (umax : N) (message : bytes) (cursor : nat) (rdlength : N)
  : res rd_err bytes :=
  let* e := uadd_usize umax cursor rdlength in
  if length message <? e then Err RUnexpectedEom else Ok (firstn e message).

(* Rdata::read over a bounded usize.  Every arm of Rdata::read (each read_* function and
   the without_decompression closure) evaluates prepare_to_read_rdata before anything else
   (Proofs/RdataUszP.v: read_starts_with_prepare), so checking the addition there is
   checking it in the place where the code performs it. *)
Definition read_usz (umax : N) (c t : N) (message : bytes) (cursor : nat) (rdlength : N)
  : res rd_err bytes :=
  let* _ := prepare_to_read_rdata_usz umax message cursor rdlength in
  read c t message cursor rdlength.
