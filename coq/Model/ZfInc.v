(* C25 — the $INCLUDE stack machine of src/zone_file/fs/mod.rs (fs::Parser::next) over a
   per-file parser that is an ITERATOR WITH STATE, as in the Rust code (each stack entry owns a
   zone_file::Parser<File>), instead of the pre-split logical lines of Model/ZfFs.v.

   Section variables:
     P            the per-file parser state (zone_file::Parser<File>: reader + context + error flag)
     pnext        <zone_file::Parser as Iterator>::next: None / an error of its own / a record /
                  an $INCLUDE line, and the parser afterwards
     pctx, pwith  read / replace the parser's parse context (the reader is untouched)
     pnew         Parser::with_context(File, context) on the content of a freshly opened file
     fs           File::open + the file's content
   The parse context is ZfFs.ctx (the five-field Context); Parser::new_for_include and
   Parser::update_context_from_include are ZfFs.ctx_for_include / ctx_after_include, compute_path
   is ZfFs.compute_path.  The stack is a list whose HEAD is the current file.
   The second half instantiates everything with the full zone-file parser of Model/ZfParser.v.
   No proofs here. *)
From QV Require Import Base.Res Base.Octets Model.ZfFs Model.ZfParser.

(* what can stop the model other than the iterator's own results *)
Inductive abort :=
| APanic          (* a Rust panic: compute_path's expect(), or a Panic branch of the per-file parser *)
| AParserFuel.    (* model only: the per-file parser model ran out of its fuel *)

Section Inc.
  Variables Origin Own Ttl Cls Rec SErr Num P F : Type.
  Notation ctx := (ZfFs.ctx Origin Own Ttl Cls).

  Inductive pres :=
  | PNone (s' : P)                                         (* next() = None *)
  | PErr (e : SErr)                                        (* Some(Err(..)): the per-file parser's own error (Syntax / Io) *)
  | PRec (n : Num) (r : Rec) (s' : P)                      (* Some(Ok(Line{number, Record})) *)
  | PInc (n : Num) (p : path) (o : option Origin) (s' : P) (* Some(Ok(Line{number, Include})) *)
  | PAbort (a : abort).

  Variable pnext : P -> pres.
  Variable pctx : P -> ctx.
  Variable pwith : P -> ctx -> P.
  Variable pnew : F -> ctx -> P.
  Variable fs : path -> option F.
  Variable max_depth : nat.

  Inductive ierr :=
  | ISyntax (e : SErr)                  (* ErrorKind::Syntax / GeneralIo: the per-file parser's error *)
  | ITooDeep (line : Num) (chain : list (path * Num))
  | IOpen (line : Num) (p : path).

  Definition item := (path * Num * Rec)%type.
  Definition entry := (path * Num * P)%type.      (* path, included-from line, parser *)

  (* make_include_chain *)
  Fixpoint make_chain (st : list entry) (n : Num) : list (path * Num) :=
    match st with
    | [] => []
    | (p, fl, _) :: rest => make_chain rest fl ++ [(p, n)]
    end.

  Inductive step :=
  | SDone                               (* next() returns None *)
  | SFail (p : path) (e : ierr)         (* next() returns Some(Err(..)); the stack is cleared *)
  | SEmit (it : item) (st' : list entry)
  | SSilent (st' : list entry)          (* next() calls itself *)
  | SAbort (a : abort).

  (* one activation of fs::Parser::next *)
  Definition next_step (st : list entry) : step :=
    match st with
    | [] => SDone
    | (p, fl, s) :: rest =>
        let depth := length rest in                        (* files.len() - 1 *)
        match pnext s with
        | PNone s' =>                                      (* pop; update_context_from_include *)
            match rest with
            | [] => SDone
            | (p2, fl2, s2) :: rest' =>
                SSilent ((p2, fl2, pwith s2 (ctx_after_include _ _ _ _ (pctx s2) (pctx s'))) :: rest')
            end
        | PErr e => SFail p (ISyntax e)
        | PRec n r s' => SEmit (p, n, r) ((p, fl, s') :: rest)
        | PInc n ip o s' =>
            if max_depth <=? depth then SFail p (ITooDeep n (make_chain ((p, fl, s') :: rest) n))
            else match compute_path p ip with
                 | None => SAbort APanic
                 | Some newp =>
                     match fs newp with
                     | None => SFail p (IOpen n newp)
                     | Some content =>
                         SSilent ((newp, n, pnew content (ctx_for_include _ _ _ _ (pctx s') o))
                                  :: (p, fl, s') :: rest)
                     end
                 end
        | PAbort a => SAbort a
        end
    end.

  Inductive final :=
  | FDone
  | FBad (p : path) (e : ierr)
  | FAbort (a : abort)
  | FOutOfFuel.                         (* model only: the fuel of [run] *)

  (* iterate next() until it returns None; after an error the stack is empty, so that is the end *)
  Fixpoint run (fuel : nat) (st : list entry) : list item * final :=
    match fuel with
    | O => ([], FOutOfFuel)
    | S f =>
        match next_step st with
        | SDone => ([], FDone)
        | SFail p e => ([], FBad p e)
        | SAbort a => ([], FAbort a)
        | SEmit it st' => let '(l, o) := run f st' in (it :: l, o)
        | SSilent st' => run f st'
        end
    end.
End Inc.

(* ---- the instance: zone_file::Parser of Model/ZfParser.v ------------------------------------ *)

Definition fctx := ZfFs.ctx name name N N.

Definition to_fctx (c : ZfParser.ctx) : fctx :=
  {| ZfFs.c_origin := ZfParser.c_origin c; c_owner := c_prev_owner c; c_ttl := c_prev_ttl c;
     c_class := c_prev_class c; c_dttl := c_default_ttl c |}.
Definition of_fctx (c : fctx) : ZfParser.ctx :=
  mkCtx (ZfFs.c_origin _ _ _ _ c) (c_owner _ _ _ _ c) (c_ttl _ _ _ _ c) (c_class _ _ _ _ c) (c_dttl _ _ _ _ c).

(* what File::open can open: a regular file with its content, or a directory (open succeeds, the
   first read fails: io::Error) *)
Inductive fobj := FFile (content : bytes) | FDir.

(* zone_file::Parser<File>: on a readable file the parser model of C24; on an unreadable one only
   its context matters (the first next() reports the I/O error) *)
Inductive fparser := FP (p : parser) | FUnreadable (c : ZfParser.ctx).

(* zone_file::error::Error: Syntax(details) | Io *)
Inductive ferr := ESyn (e : pos * zkind) | EIo.

Definition full_pres := pres name rr ferr N fparser.

(* <zone_file::Parser as Iterator>::next as the include machine sees it *)
Definition full_pnext (s : fparser) : full_pres :=
  match s with
  | FUnreadable _ => PErr _ _ _ _ _ EIo
  | FP p =>
    match parser_next p with
    | Ok (None, p') => PNone _ _ _ _ _ (FP p')
    | Ok (Some (inr e), _) => PErr _ _ _ _ _ (ESyn e)
    | Ok (Some (inl l), p') =>
        match l_content l with
        | CRecord r => PRec _ _ _ _ _ (l_number l) r (FP p')
        | CInclude ip o => PInc _ _ _ _ _ (l_number l) ip o (FP p')
        end
    | Err _ => PAbort _ _ _ _ _ AParserFuel
    | Panic => PAbort _ _ _ _ _ APanic
    end
  end.

Definition full_pctx (s : fparser) : fctx :=
  match s with FP p => to_fctx (ps_ctx p) | FUnreadable c => to_fctx c end.
Definition full_pwith (s : fparser) (c : fctx) : fparser :=
  match s with
  | FP p => FP (mkParser (ps_error p) (ps_rd p) (of_fctx c))
  | FUnreadable _ => FUnreadable (of_fctx c)
  end.
(* Parser::with_context(stream, context): error = false, Reader::new(stream) *)
Definition full_pnew (o : fobj) (c : fctx) : fparser :=
  match o with
  | FFile content => FP (mkParser false (rd_new content) (of_fctx c))
  | FDir => FUnreadable (of_fctx c)
  end.

Definition full_item := item rr N.
Definition full_final := final ferr N.

Definition full_run (fs : path -> option fobj) (max_depth fuel : nat) (st : list (entry N fparser))
  : list full_item * full_final :=
  run name name N N rr ferr N fparser fobj full_pnext full_pctx full_pwith full_pnew fs max_depth fuel st.

(* Parser::new(file) = with_context(file, Context::default()) *)
Definition full_root (o : fobj) : fparser := full_pnew o (to_fctx ctx0).

(* fs::Parser::open(path, max_depth) then collecting the iterator; None = open failed (io::Error
   before any parsing). *)
Definition full_open_and_run (fs : path -> option fobj) (max_depth fuel : nat) (p : path)
  : option (list full_item * full_final) :=
  match fs p with
  | None => None
  | Some o => Some (full_run fs max_depth fuel [(p, 0%N, full_root o)])
  end.
