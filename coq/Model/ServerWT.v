(* The composed server model, extended to TSIG-BEARING RESPONSES (additive to Model/ServerW.v).

   Model/ServerW.v: handle_message_w produces octets for every response without a TSIG record and keeps
   the abstract response of Model/Server.v as soon as the response carries one.  Here the TSIG record is
   written by the byte-level Writer model (Model/MsgWriter.v): after the calls ServerW.ser_prepare replays
   (Writer::new, the header setters, add_question, set_edns + set_limit, the (extended) RCODE) comes
   Writer::set_tsig with the PreparedTsigRr the server builds (PreparedTsigRr::new_from_read: key name,
   time signed = now - or the request's for BADTIME -, fudge TSIG_FUDGE, the request's original ID, the
   error, the server time), then Writer::finish_with_mac:
     - TsigMode::Unsigned (BADKEY: unknown key / unknown or mismatching algorithm; BADSIG; FORMERR for a
       MAC of a size RFC 8945 5.2.2.1 forbids): MsgWriter.set_tsig + MsgWriter.finish, empty MAC;
     - TsigMode::Response (BADTIME, and a VERIFIED request that is then answered NOTIMP / REFUSED /
       SERVFAIL / FORMERR without records): [set_tsig_signed] (the reservation is
       unsigned_len(algorithm name) + output size) + [finish_signed]: the MAC is
       PreparedTsigRr::sign_response of Model/TsigMsg.v over octets[0..cursor] once the counts and the OPT
       record are written, with [hmac] a Section variable exactly as in C10 / C11.
   The abstract pre-scan (Model/Server.v) decides whether the TSIG record fits (set_tsig_or_truncate: TC
   and no TSIG otherwise); here the Writer model takes the same decision again on the octets, and a
   disagreement (set_tsig failing where the pre-scan reserved the space), like any failing or panicking
   Writer step, is a Panic of the composed model.  Still abstract: the answer out of a Loaded zone to a
   request whose TSIG VERIFIED (query answering under a signing reservation).
   SystemTime::now().try_into().expect(..): a clock beyond 2^48 - 1 seconds is a Panic.  No proofs here. *)
From QV Require Export Model.ServerW.
From QV Require Import Model.MsgWriter Model.ZoneTree Model.Query Model.QueryW.
From QV Require Model.TsigMsg.

(* ReadTsigRr::time_signed / original_id on the (validated) RDATA of the request's TSIG record; the
   slices panic when out of range (None) *)
Definition req_time (rd : bytes) : option bytes :=
  let al := tsig_alg_len rd in
  if al + 6 <=? length rd then Some (slice rd al (al + 6)) else None.
Definition req_origid (rd : bytes) : option N :=
  let al := tsig_alg_len rd in
  match get16 rd (al + 8) with
  | Some macsz => get16 rd (al + N.to_nat macsz + 10)
  | None => None
  end.

(* PreparedTsigRr::new_from_read(tsig_rr, now, TSIG_FUDGE, error) + the algorithm name of the TsigMode *)
Record tsig_fields := mkTF {
  tf_alg : wname; tf_key : wname; tf_time : bytes; tf_origid : N; tf_error : N; tf_stime : bytes }.

Definition mode_alg_wire (m : Server.tsig_mode) : bytes :=
  match m with TUnsigned a => a | TResponse a _ _ => alg_name_wire a end.

Definition tsig_fields_of (now : N) (t : tsig_out) : option tsig_fields :=
  match TsigMsg.time_signed_of_unix now, req_origid (t_request_rdata t) with
  | Some nowo, Some oid =>
    match (if (Server.t_error t =? XRC_BADTIME)%N then req_time (t_request_rdata t) else Some nowo) with
    | Some time =>
      Some (mkTF (Server.wire_labels (mode_alg_wire (t_mode t))) (Server.wire_labels (t_key_wire t))
                 time oid (Server.t_error t) nowo)
    | None => None
    end
  | _, _ => None
  end.

Definition tsig_alg_of (a : Server.tsig_alg) : TsigMsg.alg :=
  match a with Server.HmacSha1 => TsigMsg.HmacSha1 | Server.HmacSha256 => TsigMsg.HmacSha256 end.

(* Writer::set_tsig for a signing mode: reserved_len = rr.signed_len(algorithm)
   = unsigned_len(algorithm.name()) + algorithm.output_size() *)
Definition set_tsig_signed (osz : nat) (alg key : wname) (time : bytes) (fudge origid error : N) (stime : bytes)
           (w : writer) : M unit :=
  match MsgWriter.w_tsig w with
  | Some _ => Err (AlreadyTsig, w)
  | None =>
    let reserved := tsig_unsigned_len key alg error + osz in
    if MsgWriter.w_avail w <? MsgWriter.w_cursor w + reserved then Err (Truncation, w)
    else match checked_add16 (w_ar w) 1 with
         | Some ar =>
           Ok (tt, set_tsig_f (set_avail (set_counts w (w_qd w) (w_an w) (w_ns w) ar)
                                         (MsgWriter.w_avail w - reserved))
                              (Some (mkTsig alg reserved key time fudge origid error stime)))
         | None => Err (CountOverflow, w)
         end
  end.

(* finish_with_mac up to and including the OPT record (identical to the first half of MsgWriter.finish) *)
Definition finish_head (w : writer) : res werr writer :=
  let* w := w_write w (N.to_nat QDCOUNT_START) (MsgWriter.be16 (w_qd w)) in
  let* w := w_write w (N.to_nat ANCOUNT_START) (MsgWriter.be16 (w_an w)) in
  let* w := w_write w (N.to_nat NSCOUNT_START) (MsgWriter.be16 (w_ns w)) in
  let* w := w_write w (N.to_nat ARCOUNT_START) (MsgWriter.be16 (w_ar w)) in
  match MsgWriter.w_edns w with
  | Some e =>
    let w := set_avail w (MsgWriter.w_avail w + opt_record_size) in
    unwrap_w (add_rr HNone [] TYPE_OPT (e_udp e) (e_upper e * 16777216)%N [] None w)
  | None => Ok w
  end.

Section WithHmac.
Variable hmac : TsigMsg.alg -> bytes -> bytes -> bytes.

(* the TSIG branch of finish_with_mac for TsigMode::Response { request_mac, algorithm, key }:
   message = &self.octets[0..self.cursor]; (rdata, mac) = tsig.rr.sign_response(message, request_mac,
   algorithm, key); available += reserved_len; add_rr(.., Type::TSIG, Qclass::ANY, 0, rdata).unwrap() *)
Definition finish_signed (a : TsigMsg.alg) (secret request_mac : bytes) (w : writer) : res werr (nat * bytes) :=
  let* w := finish_head w in
  let* w :=
    match MsgWriter.w_tsig w with
    | Some t =>
      if length (w_buf w) <? MsgWriter.w_cursor w then Panic
      else
        let message := firstn (MsgWriter.w_cursor w) (w_buf w) in
        let p := TsigMsg.mkPrepared (nm_wire (t_key t)) (t_time t) (t_fudge t) (t_origid t)
                                    (MsgWriter.t_error t) (t_server_time t) in
        match TsigMsg.sign hmac p message (TsigMsg.SResponse request_mac) a secret with
        | Ok (rdata, _) =>
          let w := set_avail (set_tsig_f w None) (MsgWriter.w_avail w + MsgWriter.t_reserved t) in
          unwrap_w (add_rr HNone (t_key t) TYPE_TSIG qclass_any (MsgWriter.ttl_from 0) rdata None w)
        | _ => Panic
        end
    | None => Ok w
    end in
  Ok (MsgWriter.w_cursor w, w_buf w).

(* the octets of an abstract response that carries the TSIG settings [t] *)
Definition ser_tsig (buf : bytes) (tcp : bool) (now : N) (w : resp) (t : tsig_out) : option (nat * bytes) :=
  match ser_prepare buf tcp w, tsig_fields_of now t with
  | Some w1, Some f =>
    match t_mode t with
    | TUnsigned _ =>
      match MsgWriter.set_tsig (nm_lower (tf_alg f)) (nm_lower (tf_key f)) (tf_time f) TSIG_FUDGE (tf_origid f)
                               (tf_error f) (tf_stime f) w1 with
      | Ok (_, w2) => match finish w2 with Ok r => Some r | _ => None end
      | _ => None
      end
    | TResponse a secret request_mac =>
      match set_tsig_signed (alg_output_size a) (nm_lower (tf_alg f)) (nm_lower (tf_key f)) (tf_time f) TSIG_FUDGE
                            (tf_origid f) (tf_error f) (tf_stime f) w1 with
      | Ok (_, w2) => match finish_signed (tsig_alg_of a) secret request_mac w2 with Ok r => Some r | _ => None end
      | _ => None
      end
    end
  | _, _ => None
  end.

(* an abstract response as the extended composed model returns it: always octets *)
Definition abs_wt (cfg : config) (buf : bytes) (w : resp) : res reader_err wresp :=
  match Server.w_tsig w with
  | Some t =>
    match ser_tsig buf (is_tcp (c_transport cfg)) (c_now cfg) w t with
    | Some (len, b) => Ok (ROctets len b)
    | None => Panic
    end
  | None => abs_w cfg buf w
  end.

(* the dispatch of handle_query for a request whose TSIG verified ([w] carries the TSIG settings) *)
Definition handle_query_t (answer : answer_fn) (cfg : config) (buf : bytes) (w : resp) : res reader_err wresp :=
  match Server.w_question w with
  | None => abs_wt cfg buf (Server.set_rcode w RC_FORMERR)
  | Some q =>
    if existsb (N.eqb (Reader.q_type q)) [QTYPE_IXFR; QTYPE_AXFR; QTYPE_MAILB; QTYPE_MAILA]
    then abs_wt cfg buf (Server.set_rcode w RC_NOTIMP)
    else if (Reader.q_class q =? QCLASS_ANY)%N then abs_wt cfg buf (Server.set_rcode w RC_NOTIMP)
    else match cat_lookup (c_catalog cfg) (name_key (Reader.q_name q)) (Reader.q_class q) None with
         | None => abs_wt cfg buf (Server.set_rcode w RC_REFUSED)
         | Some e =>
           match e_kind e with
           | ELoaded zid =>
             (* verified request answered out of a zone: still abstract *)
             Ok (RAbs (apply_body w (answer zid q (c_transport cfg) (Server.w_avail w - Server.w_cursor w))))
           | ENotYetLoaded | EFailedToLoad => abs_wt cfg buf (Server.set_rcode w RC_SERVFAIL)
           end
         end
  end.

Definition handle_query_wt (zones : nat -> option zone) (negttl : N -> N -> N) (answer : answer_fn)
    (cfg : config) (buf : bytes) (w : resp) : res reader_err wresp :=
  match Server.w_tsig w with
  | None => handle_query_w zones negttl answer cfg buf w
  | Some _ => handle_query_t answer cfg buf w
  end.

(* Ok (Some r): a response is sent; Ok None: no response *)
Definition handle_message_wt (zones : nat -> option zone) (negttl : N -> N -> N) (answer : answer_fn)
    (verify : tsig_verifier) (cfg : config) (buf : bytes) (req : bytes) : res reader_err (option wresp) :=
  let* p := prescan verify cfg req in
  match p with
  | PNone => Ok None
  | PEarly w => let* r := abs_wt cfg buf w in Ok (Some r)
  | PClean opc w =>
    if (opc =? OPCODE_QUERY)%N then
      let* r := handle_query_wt zones negttl answer cfg buf w in Ok (Some r)
    else let* r := abs_wt cfg buf (Server.set_rcode w RC_NOTIMP) in Ok (Some r)
  end.

End WithHmac.
