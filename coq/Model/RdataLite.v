(* A partial model of Rdata::read (src/rr/rdata/mod.rs) covering exactly the
   (class, type) combinations whose reading involves NO name decompression and
   whose validators are modelled here: IN A, IN AAAA, OPT, TSIG, and every type the
   dispatcher does not know (no validation).  For the remaining known types
   ([lite_unsupported]) the full model is coq/Model/Rdata*.v (C18); callers of
   this file must not pass those types (the C15/server generators do not). *)
From QV Require Export Model.Reader.

Definition TYPE_A : N := 1.   Definition TYPE_NS : N := 2.   Definition TYPE_MD : N := 3.
Definition TYPE_MF : N := 4.  Definition TYPE_CNAME : N := 5. Definition TYPE_SOA : N := 6.
Definition TYPE_MB : N := 7.  Definition TYPE_MG : N := 8.   Definition TYPE_MR : N := 9.
Definition TYPE_WKS : N := 11. Definition TYPE_PTR : N := 12. Definition TYPE_HINFO : N := 13.
Definition TYPE_MINFO : N := 14. Definition TYPE_MX : N := 15. Definition TYPE_TXT : N := 16.
Definition TYPE_AAAA : N := 28. Definition TYPE_SRV : N := 33. Definition TYPE_OPT : N := 41.
Definition TYPE_TSIG : N := 250.
Definition CLASS_IN : N := 1. Definition CLASS_CH : N := 3. Definition CLASS_ANY : N := 255.

Definition lite_unsupported (class ty : N) : bool :=
  existsb (N.eqb ty) [TYPE_NS; TYPE_MD; TYPE_MF; TYPE_CNAME; TYPE_MB; TYPE_MG; TYPE_MR; TYPE_PTR;
                      TYPE_SOA; TYPE_HINFO; TYPE_MINFO; TYPE_MX; TYPE_TXT]
  || ((ty =? TYPE_A)%N && (class =? CLASS_CH)%N)
  || ((ty =? TYPE_WKS)%N && (class =? CLASS_IN)%N)
  || ((ty =? TYPE_SRV)%N && (class =? CLASS_IN)%N).

(* helpers::prepare_to_read_rdata followed by &buf[cursor..] *)
Definition prepare_rdata (msg : bytes) (cursor : nat) (rdlength : N) : res rdata_err bytes :=
  let end_ := cursor + N.to_nat rdlength in
  if length msg <? end_ then Err RdUnexpectedEom
  else Ok (slice msg cursor end_).

(* opt.rs validate_option / validate_as_opt *)
Definition validate_option (o : bytes) : res rdata_err nat :=
  match nth_error o 2, nth_error o 3 with
  | Some hi, Some lo =>
    let len := N.to_nat (hi * 256 + lo) in
    if len + 4 <=? length o then Ok (len + 4) else Err RdOther
  | _, _ => Err RdOther
  end.

Fixpoint validate_opt_loop (fuel : nat) (o : bytes) (offset : nat) : res rdata_err unit :=
  match fuel with
  | O => Err RdOther          (* unreachable: offset grows by >= 4 per iteration (see RdataLiteP) *)
  | S f =>
    if offset <? length o then
      let* n := validate_option (skipn offset o) in validate_opt_loop f o (offset + n)
    else Ok tt
  end.
Definition validate_as_opt (o : bytes) : res rdata_err unit := validate_opt_loop (S (length o)) o 0.

(* tsig.rs validate_as_tsig *)
Definition get16 (o : bytes) (a : nat) : option N :=
  match nth_error o a, nth_error o (a + 1) with
  | Some hi, Some lo => Some (hi * 256 + lo)%N
  | _, _ => None
  end.

Definition validate_as_tsig (o : bytes) : res rdata_err unit :=
  match validate_uncompressed_name o false with
  | Ok alg_len =>
    match get16 o (alg_len + 8) with
    | None => Err RdOther
    | Some mac_size =>
      let mac_size := N.to_nat mac_size in
      match get16 o (alg_len + mac_size + 14) with
      | None => Err RdOther
      | Some other_len =>
        if alg_len + mac_size + N.to_nat other_len + 16 =? length o then Ok tt else Err RdOther
      end
    end
  | Err e => Err (RdInvalidName e)
  | Panic => Panic
  end.

Definition rd_lite : rdata_reader := fun class ty msg cursor rdlength =>
  let* rdata := prepare_rdata msg cursor rdlength in
  if lite_unsupported class ty then Err (RdInvalidName OutOfFuel)   (* marker: not covered by this partial model *)
  else if (ty =? TYPE_A)%N && (class =? CLASS_IN)%N then
    (if length rdata =? 4 then Ok rdata else Err RdOther)
  else if (ty =? TYPE_AAAA)%N && (class =? CLASS_IN)%N then
    (if length rdata =? 16 then Ok rdata else Err RdOther)
  else if (ty =? TYPE_OPT)%N then (let* _ := validate_as_opt rdata in Ok rdata)
  else if (ty =? TYPE_TSIG)%N then (let* _ := validate_as_tsig rdata in Ok rdata)
  else Ok rdata.
