(* Model of /repo/src/server/rrl.rs (response rate-limiting), of ReceivedInfo::new
   (src/server/mod.rs) and of the two Writer operations a slipped response goes through
   (Writer::clear_rrs / set_tc, src/message/writer.rs).

   Same control flow and the same fixed-width arithmetic as the Rust code; every place
   where the Rust code can unwind is a [Panic] outcome:
     - `rate * window`, `count += 1`, (pre-fix) `rate * secs`: u32 overflow checks;
     - `hash % self.buckets.len()`: division by zero for an empty table;
     - `context.question.as_ref().unwrap()`;
     - `now.checked_sub(..).expect(..)`;
     - `u32::MAX << (32 - len)`: u8 subtraction underflow, shift amount >= width.
   Explicit inputs instead of ambient effects: the time `now` (Instant::now(), in
   nanoseconds on an arbitrary origin), the value `rnd` drawn by
   `rand::thread_rng().gen_range(0..slip)`, and the two uses of the RandomState:
   [hname] (hash_one of a Name, fed the octet stream Name::hash writes) and [hkey]
   (hash_one of a Key).  Theorems quantify over all of them.
   Not modelled: Mutex poisoning (`lock().unwrap()` after another thread panicked while
   holding the lock), allocation failure in Rrl::new.  No proofs in this file. *)
From QV Require Export Base.Res Base.Octets Gen.RrlConsts.
Local Open Scope N_scope.

Definition u32_max : N := 4294967295.
Definition two32 : N := 4294967296.
Definition two64 : N := 18446744073709551616.
Definition nanos_per_sec : N := 1000000000.

(* ---- RrlParams ----------------------------------------------------------------- *)

Inductive param_err :=
| NoerrorRateIsZero | NxdomainRateIsZero | ErrorRateIsZero | WindowIsZero
| WindowIsTooLargeForRates | InvalidIpv4PrefixLen | InvalidIpv6PrefixLen | SizeIsZero.

Record params := mkParams {
  p_noerror_rate : N; p_nxdomain_rate : N; p_error_rate : N; p_window : N;   (* u32 *)
  p_slip : N;                                                                (* usize *)
  p_ipv4_netmask : N;                                                        (* u32 *)
  p_ipv6_netmask : N;                                                        (* u64 *)
  p_size : N }.                                                              (* usize *)

(* u32::checked_mul *)
Definition checked_mul32 (a b : N) : option N := if a * b <=? u32_max then Some (a * b) else None.
Definition is_none {A} (o : option A) : bool := match o with None => true | Some _ => false end.

(* RrlParams::new *)
Definition params_new (ne nx er w : N) : res param_err params :=
  if ne =? 0 then Err NoerrorRateIsZero
  else if nx =? 0 then Err NxdomainRateIsZero
  else if er =? 0 then Err ErrorRateIsZero
  else if w =? 0 then Err WindowIsZero
  else if is_none (checked_mul32 ne w) || is_none (checked_mul32 nx w) || is_none (checked_mul32 er w)
  then Err WindowIsTooLargeForRates
  else Ok (mkParams ne nx er w RRL_DEFAULT_SLIP RRL_DEFAULT_IPV4_NETMASK RRL_DEFAULT_IPV6_NETMASK RRL_DEFAULT_SIZE).

Definition set_slip (p : params) (slip : N) : params :=
  mkParams (p_noerror_rate p) (p_nxdomain_rate p) (p_error_rate p) (p_window p) slip
           (p_ipv4_netmask p) (p_ipv6_netmask p) (p_size p).
Definition with_ipv4_netmask (p : params) (m : N) : params :=
  mkParams (p_noerror_rate p) (p_nxdomain_rate p) (p_error_rate p) (p_window p) (p_slip p)
           m (p_ipv6_netmask p) (p_size p).
Definition with_ipv6_netmask (p : params) (m : N) : params :=
  mkParams (p_noerror_rate p) (p_nxdomain_rate p) (p_error_rate p) (p_window p) (p_slip p)
           (p_ipv4_netmask p) m (p_size p).
Definition with_size (p : params) (s : N) : params :=
  mkParams (p_noerror_rate p) (p_nxdomain_rate p) (p_error_rate p) (p_window p) (p_slip p)
           (p_ipv4_netmask p) (p_ipv6_netmask p) s.

(* `uN::MAX << (base - len)` with len : u8: the subtraction panics on underflow, the
   shift panics when the amount is >= the width, bits shifted out are discarded *)
Definition max_shl (width base len : N) : option N :=
  if base <? len then None
  else let s := base - len in
       if width <=? s then None else Some (((2 ^ width - 1) * 2 ^ s) mod 2 ^ width).

(* RrlParams::set_ipv4_prefix_len / set_ipv6_prefix_len (len : u8) *)
Definition set_ipv4_prefix_len (p : params) (len : N) : res param_err params :=
  if RRL_IPV4_MAX_PREFIX <? len then Err InvalidIpv4PrefixLen
  else if len =? 0 then Ok (with_ipv4_netmask p 0)
  else match max_shl 32 RRL_IPV4_SHIFT_BASE len with
       | None => Panic
       | Some m => Ok (with_ipv4_netmask p m)
       end.
Definition set_ipv6_prefix_len (p : params) (len : N) : res param_err params :=
  if RRL_IPV6_MAX_PREFIX <? len then Err InvalidIpv6PrefixLen
  else if len =? 0 then Ok (with_ipv6_netmask p 0)
  else match max_shl 64 RRL_IPV6_SHIFT_BASE len with
       | None => Panic
       | Some m => Ok (with_ipv6_netmask p m)
       end.
Definition set_size (p : params) (size : N) : res param_err params :=
  if size =? 0 then Err SizeIsZero else Ok (with_size p size).

(* ---- addresses, ReceivedInfo::new ------------------------------------------------ *)

(* An address is its octets() in network order: 4 for IPv4, 16 for IPv6. *)
Inductive ipaddr := V4 (o : bytes) | V6 (o : bytes).
Definition is_ipv6 (ip : ipaddr) : bool := match ip with V4 _ => false | V6 _ => true end.

(* u32::from(Ipv4Addr) / u128::from(Ipv6Addr): the octets read as a big-endian integer *)
Definition be_value (o : bytes) : N := fold_left (fun acc x => acc * 256 + x) o 0.

(* the `source` computed by ReceivedInfo::new:
   octets[0..10].iter().all(|o| *o == 0) && octets[10] == 0xff && octets[11] == 0xff
   => IpAddr::V4(Ipv4Addr::new(octets[12], octets[13], octets[14], octets[15])) *)
Definition received_info_source (src : ipaddr) : ipaddr :=
  match src with
  | V4 o => V4 o
  | V6 o =>
    if forallb (fun x => x =? 0) (firstn 10 o) && (nth 10 o 0 =? 255) && (nth 11 o 0 =? 255)
    then V4 [nth 12 o 0; nth 13 o 0; nth 14 o 0; nth 15 o 0]
    else V6 o
  end.

(* Rrl::ip_to_dest_u64 *)
Definition ip_to_dest (p : params) (ip : ipaddr) : N :=
  match ip with
  | V4 o => N.land (be_value o) (p_ipv4_netmask p)                       (* (u32 & mask) as u64 *)
  | V6 o => N.land ((be_value o / two64) mod two64) (p_ipv6_netmask p)   (* ((u128 >> 64) as u64) & mask *)
  end.

(* ---- names as Name::hash sees them ------------------------------------------------ *)

(* A name is the list of its non-root labels. *)
Definition rname := list bytes.
(* Label::hash: write_u8(len as u8), then every octet lower-cased *)
Definition label_hash_stream (l : bytes) : bytes := (N.of_nat (length l) mod 256) :: map lower l.
(* Name::hash: every label in order, the root label (length 0) last *)
Definition name_hash_stream (n : rname) : bytes := flat_map label_hash_stream n ++ [0].

(* ---- keys, entries, the table ------------------------------------------------------ *)

Inductive category := NoError | NxDomain | ErrorCat.
Definition category_eqb (a b : category) : bool :=
  match a, b with NoError, NoError | NxDomain, NxDomain | ErrorCat, ErrorCat => true | _, _ => false end.

(* impl From<ExtendedRcode> for Category *)
Definition category_of_rcode (rc : N) : category :=
  if rc =? XRCODE_NOERROR then NoError else if rc =? XRCODE_NXDOMAIN then NxDomain else ErrorCat.

Record key := mkKey { k_dest : N; k_ipv6 : bool; k_qname_hash : N; k_category : category }.
Definition key_eqb (a b : key) : bool :=
  (k_dest a =? k_dest b) && Bool.eqb (k_ipv6 a) (k_ipv6 b) && (k_qname_hash a =? k_qname_hash b)
  && category_eqb (k_category a) (k_category b).

(* last_refill : Instant, in nanoseconds *)
Record entry := mkEntry { e_key : key; e_count : N; e_last : N }.

(* Vec<Mutex<Entry>>: its length and its cells (indices >= t_len are never accessed) *)
Record table := mkTable { t_len : N; t_get : N -> entry }.
Definition t_set (t : table) (i : N) (e : entry) : table :=
  mkTable (t_len t) (fun j => if j =? i then e else t_get t j).

(* Rrl::new *)
Definition init_key : key := mkKey 0 false 0 NoError.
Definition rrl_new (p : params) (now : N) : table :=
  mkTable (p_size p) (fun _ => mkEntry init_key 0 now).

(* ---- the response as far as RRL touches it ------------------------------------------ *)

Inductive transport := Tcp | Udp.
Inductive action := Send | Slip | Drop.

(* Writer: section counts, whether OPT / TSIG are reserved, the TC bit, the extended RCODE *)
Record wstate := mkW { w_ancount : N; w_nscount : N; w_arcount : N;
                       w_edns : bool; w_tsig : bool; w_tc : bool; w_rcode : N }.
(* Writer::clear_rrs *)
Definition clear_rrs (w : wstate) : wstate :=
  let ar0 := 0 in
  let ar1 := if w_edns w then ar0 + 1 else ar0 in
  let ar2 := if w_tsig w then ar1 + 1 else ar1 in
  mkW 0 0 ar2 (w_edns w) (w_tsig w) (w_tc w) (w_rcode w).
Definition set_tc (w : wstate) (tc : bool) : wstate :=
  mkW (w_ancount w) (w_nscount w) (w_arcount w) (w_edns w) (w_tsig w) tc (w_rcode w).

(* The fields of server::Context that process_response reads or writes.
   c_source is received_info.source (already canonicalised by ReceivedInfo::new). *)
Record ctx := mkCtx {
  c_source : ipaddr; c_transport : transport; c_opcode : N;
  c_question : option rname; c_sos : option rname;
  c_response : wstate; c_rrl_action : option action; c_send_response : bool }.

(* subject_to_rrl *)
Definition subject_to_rrl (c : ctx) : bool :=
  c_send_response c && (match c_transport c with Udp => true | Tcp => false end)
  && (c_opcode c =? OPCODE_QUERY).

(* ---- the bucket arithmetic ------------------------------------------------------------ *)

(* Rrl::rate_and_limit_for_category; `rate * window` is a checked u32 product *)
Definition rate_of (p : params) (cat : category) : N :=
  match cat with NoError => p_noerror_rate p | NxDomain => p_nxdomain_rate p | ErrorCat => p_error_rate p end.
Definition rate_and_limit (p : params) (cat : category) : option (N * N) :=
  let rate := rate_of p cat in
  if rate * p_window p <=? u32_max then Some (rate, rate * p_window p) else None.

(* Rrl::should_slip; rnd is the value of gen_range(0..slip) *)
Definition should_slip (p : params) (rnd : N) : bool :=
  if p_slip p =? 0 then false else if p_slip p =? 1 then true else rnd =? 0.

(* The amount subtracted from the count after [secs] whole seconds ([secs] = as_secs() : u64).
     Fixed        the code after the fix: commit:
                    rate.saturating_mul(u32::try_from(secs).unwrap_or(u32::MAX))
     OldChecked   the code before it, overflow checks on:  rate * secs as u32   (None = panic)
     OldWrapping  the code before it, overflow checks off (release builds) *)
Inductive arith := Fixed | OldChecked | OldWrapping.
Definition refill_amount (a : arith) (rate secs : N) : option N :=
  match a with
  | Fixed =>
    let s := if secs <=? u32_max then secs else u32_max in
    Some (if rate * s <=? u32_max then rate * s else u32_max)
  | OldChecked =>
    let s := secs mod two32 in
    if rate * s <=? u32_max then Some (rate * s) else None
  | OldWrapping => Some ((rate * (secs mod two32)) mod two32)
  end.

(* Instant::checked_sub(Duration) on the nanosecond time line *)
Definition instant_checked_sub (t d : N) : option N := if d <=? t then Some (t - d) else None.

(* The critical section of process_response when the bucket holds the response's key.
   [now - e_last e] is N's truncated subtraction = Instant::duration_since, which
   saturates to zero (Rust >= 1.60); [e_count e - amt] likewise = u32::saturating_sub. *)
Definition entry_step_gen (a : arith) (p : params) (e : entry) (cat : category) (now rnd : N)
  : res unit (entry * action) :=
  match rate_and_limit p cat with
  | None => Panic
  | Some (rate, limit) =>
    let since := now - e_last e in
    let* e1 :=
      if nanos_per_sec <=? since then
        match refill_amount a rate (since / nanos_per_sec) with
        | None => Panic
        | Some amt =>
          match instant_checked_sub now (since mod nanos_per_sec) with
          | None => Panic
          | Some l => Ok (mkEntry (e_key e) (e_count e - amt) l)
          end
        end
      else Ok e in
    if limit <=? e_count e1 then Ok (e1, if should_slip p rnd then Slip else Drop)
    else if e_count e1 + 1 <=? u32_max
         then Ok (mkEntry (e_key e1) (e_count e1 + 1) (e_last e1), Send)
         else Panic
  end.

(* what the action does to the context *)
Definition apply_action (c : ctx) (a : action) : ctx :=
  match a with
  | Send => mkCtx (c_source c) (c_transport c) (c_opcode c) (c_question c) (c_sos c)
                  (c_response c) (Some Send) (c_send_response c)
  | Slip => mkCtx (c_source c) (c_transport c) (c_opcode c) (c_question c) (c_sos c)
                  (set_tc (clear_rrs (c_response c)) true) (Some Slip) (c_send_response c)
  | Drop => mkCtx (c_source c) (c_transport c) (c_opcode c) (c_question c) (c_sos c)
                  (c_response c) (Some Drop) false
  end.

Section WithHash.
  Variable hname : bytes -> N.   (* RandomState::hash_one(&Name), as a function of the hashed octets *)
  Variable hkey : key -> N.      (* RandomState::hash_one(&Key) *)

  (* the Key computed by process_response; None = the unwrap() of a missing question *)
  Definition key_of (p : params) (c : ctx) : option key :=
    let cat := category_of_rcode (w_rcode (c_response c)) in
    let dest := c_source c in
    let oh :=
      match cat with
      | NoError =>
        match c_sos c with
        | Some n => Some (hname (name_hash_stream n) mod two32)
        | None => match c_question c with
                  | Some q => Some (hname (name_hash_stream q) mod two32)
                  | None => None
                  end
        end
      | _ => Some 0
      end in
    match oh with
    | None => None
    | Some h => Some (mkKey (ip_to_dest p dest) (is_ipv6 dest) h cat)
    end.

  (* Rrl::process_response *)
  Definition process_response_gen (a : arith) (p : params) (t : table) (c : ctx) (now rnd : N)
    : res unit (table * ctx) :=
    if negb (subject_to_rrl c) then Ok (t, c)
    else match key_of p c with
    | None => Panic
    | Some k =>
      if t_len t =? 0 then Panic
      else
        let idx := (hkey k mod two64) mod t_len t in
        let e := t_get t idx in
        if key_eqb (e_key e) k then
          let* (e', act) := entry_step_gen a p e (k_category k) now rnd in
          Ok (t_set t idx e', apply_action c act)
        else
          Ok (t_set t idx (mkEntry k 1 now), apply_action c Send)
    end.

  Definition process_response := process_response_gen Fixed.

  (* A history: the same context (a fresh Context per request, as handle_message builds
     it) is processed at the given times with the given random draws; the result is the
     list of contexts after RRL, or Panic if any step panics. *)
  Fixpoint run_history_gen (a : arith) (p : params) (t : table) (c : ctx) (h : list (N * N))
    : res unit (table * list ctx) :=
    match h with
    | [] => Ok (t, [])
    | (now, rnd) :: h' =>
      let* (t1, c1) := process_response_gen a p t c now rnd in
      let* (t2, cs) := run_history_gen a p t1 c h' in
      Ok (t2, c1 :: cs)
    end.
  Definition run_history := run_history_gen Fixed.

  (* mixed histories: each request brings its own context *)
  Fixpoint run_requests (p : params) (t : table) (h : list (ctx * N * N))
    : res unit (table * list ctx) :=
    match h with
    | [] => Ok (t, [])
    | (c, now, rnd) :: h' =>
      let* (t1, c1) := process_response p t c now rnd in
      let* (t2, cs) := run_requests p t1 h' in
      Ok (t2, c1 :: cs)
    end.
End WithHash.

(* what handle_message returns after RRL: Some response state, or None (Response::None) *)
Definition final_response (c : ctx) : option wstate :=
  if c_send_response c then Some (c_response c) else None.
