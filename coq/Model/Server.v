(* Model of Server::handle_message / handle_message_with_context (src/server/mod.rs)
   and the dispatch part of handle_query (src/server/query.rs:35-78), on top of the
   Reader model.  The response under construction is a size-aware abstraction of
   the Writer: header fields, the echoed question, EDNS and TSIG reservations with
   exactly the Writer's cursor/limit/available arithmetic (before query processing
   only the question has been written, uncompressed, so these numbers are exact),
   and an opaque [body] for what query processing adds.

   Parameters (explicit arguments, never axioms):
   - [answer]  : query answering for a Loaded zone (src/server/query.rs answer /
                 answer_any; subject of C05).  Its TYPE restricts it to what the Rust
                 code can touch through the Writer API at that point: AA, TC, RCODE,
                 the three sections — not the ID, opcode, QR, RD, question, EDNS or TSIG.
   - [tsig_verify] : ReadTsigRr::verify_request (HMAC; subject of C10/C11).
   The catalog is the flat reference map of C22 (longest-suffix lookup). *)
From QV Require Export Model.Reader Model.RdataLite.

Inductive transport := Tcp | Udp.

Definition tcp_limit : nat := N.to_nat 65535.
Definition udp_limit : nat := N.to_nat 512.

(* ---- names as lower-cased label lists (Name's Eq/Hash ignore ASCII case) ---- *)
Fixpoint wire_labels_aux (fuel : nat) (w : bytes) : list bytes :=
  match fuel with
  | O => []
  | S f =>
    match w with
    | [] => []
    | len :: rest =>
      if (len =? 0)%N then []
      else firstn (N.to_nat len) rest :: wire_labels_aux f (skipn (N.to_nat len) rest)
    end
  end.
Definition wire_labels (w : bytes) : list bytes := wire_labels_aux (length w) w.
Definition lower_labels (ls : list bytes) : list bytes := map (map lower) ls.
Definition name_key (nm : name) : list bytes := lower_labels (wire_labels (n_wire nm)).

Definition bytes_eqb (a b : bytes) : bool :=
  (length a =? length b) && forallb (fun p => (fst p =? snd p)%N) (combine a b).
Definition labels_eqb (a b : list bytes) : bool :=
  (length a =? length b) && forallb (fun p => bytes_eqb (fst p) (snd p)) (combine a b).
(* [s] is a suffix of [l] (label-wise) *)
Definition is_suffix (s l : list bytes) : bool :=
  (length s <=? length l) && labels_eqb s (skipn (length l - length s) l).

(* ---- catalog: flat reference map, longest-suffix match within the class ---- *)
Inductive entry_kind := ELoaded (zone_id : nat) | ENotYetLoaded | EFailedToLoad.
Record cat_entry := mkEntry { e_class : N; e_name : list bytes (* lower-cased *); e_kind : entry_kind }.

Fixpoint cat_lookup (es : list cat_entry) (qname : list bytes) (class : N) (best : option cat_entry)
  : option cat_entry :=
  match es with
  | [] => best
  | e :: rest =>
    let better :=
      (e_class e =? class)%N && is_suffix (e_name e) qname &&
      match best with None => true | Some b => length (e_name b) <? length (e_name e) end in
    cat_lookup rest qname class (if better then Some e else best)
  end.

(* ---- what query processing may do to the response ---- *)
Record body := mkBody
  { b_aa : bool; b_tc : bool; b_rcode : option N (* Some: set_rcode was called *);
    b_an : list read_rr_t; b_ns : list read_rr_t; b_ar : list read_rr_t }.
Definition empty_body : body := mkBody false false None [] [] [].

(* ---- TSIG ---- *)
Inductive tsig_alg := HmacSha1 | HmacSha256.
Definition alg_output_size (a : tsig_alg) : nat := match a with HmacSha1 => 20 | HmacSha256 => 32 end.
(* wire form of the lower-case algorithm names (RFC 8945 §6) *)
Definition alg_name_wire (a : tsig_alg) : bytes :=
  match a with
  | HmacSha1 => [9;104;109;97;99;45;115;104;97;49;0]%N
  | HmacSha256 => [11;104;109;97;99;45;115;104;97;50;53;54;0]%N
  end.
Definition alg_of_name (k : list bytes) : option tsig_alg :=
  if labels_eqb k (wire_labels (alg_name_wire HmacSha1)) then Some HmacSha1
  else if labels_eqb k (wire_labels (alg_name_wire HmacSha256)) then Some HmacSha256
  else None.

Record tsig_key := mkKey { k_name : list bytes (* lower-cased *); k_alg : tsig_alg; k_secret : bytes }.

Inductive verify_result := VOk | VBadSig | VBadTime | VFormErr.
(* ReadTsigRr::verify_request(message_without_tsig, algorithm, key, now) *)
Definition tsig_verifier := bytes (* TSIG RDATA *) -> name (* key name *) -> bytes (* message without TSIG *)
                            -> tsig_alg -> bytes (* secret *) -> N (* now *) -> verify_result.

Inductive tsig_mode := TUnsigned (alg_wire : bytes) | TResponse (alg : tsig_alg) (secret request_mac : bytes).
Record tsig_out := mkTsigOut
  { t_key_wire : bytes (* lower-cased key name, wire form *); t_mode : tsig_mode;
    t_error : N; t_reserved : nat; t_request_rdata : bytes }.

Definition lower_wire (w : bytes) : bytes :=
  (* lower-casing every octet of label CONTENT; length octets of valid names are <= 63 < 'A' so
     mapping [lower] over the whole wire form changes label contents only *)
  map lower w.

(* ---- the response under construction ---- *)
Record resp := mkResp
  { w_id : N; w_opcode : N; w_rd : bool; w_rcode : N; w_aa : bool; w_tc : bool;
    w_question : option question;
    w_edns : option (N * N);        (* udp_payload_size, extended_rcode_upper_bits *)
    w_tsig : option tsig_out;
    w_body : body;
    w_cursor : nat; w_limit : nat; w_avail : nat; w_buflen : nat; w_arcount : N }.

Definition set_rcode (w : resp) (rc : N) : resp :=
  mkResp (w_id w) (w_opcode w) (w_rd w) rc (w_aa w) (w_tc w) (w_question w)
         (match w_edns w with Some (sz, _) => Some (sz, 0%N) | None => None end)
         (w_tsig w) (w_body w) (w_cursor w) (w_limit w) (w_avail w) (w_buflen w) (w_arcount w).

Definition set_tc (w : resp) : resp :=
  mkResp (w_id w) (w_opcode w) (w_rd w) (w_rcode w) (w_aa w) true (w_question w) (w_edns w)
         (w_tsig w) (w_body w) (w_cursor w) (w_limit w) (w_avail w) (w_buflen w) (w_arcount w).

Inductive werr := WTruncation | WOther.

(* add_question: the first name in the message is written uncompressed; try_push checks
   `available - cursor >= len` (the subtraction is a usize: panics if available < cursor) *)
Definition add_question (w : resp) (q : question) : res werr resp :=
  let need := length (n_wire (q_name q)) + 4 in
  if w_avail w <? w_cursor w then Panic
  else if w_avail w - w_cursor w <? length (n_wire (q_name q)) then Err WTruncation
  else if w_avail w - (w_cursor w + length (n_wire (q_name q))) <? 4 then Err WTruncation
  else Ok (mkResp (w_id w) (w_opcode w) (w_rd w) (w_rcode w) (w_aa w) (w_tc w) (Some q) (w_edns w)
                  (w_tsig w) (w_body w) (w_cursor w + need) (w_limit w) (w_avail w) (w_buflen w) (w_arcount w)).

Definition opt_record_size : nat := N.to_nat OPT_RECORD_SIZE.

Definition set_edns (w : resp) (size : N) : res werr resp :=
  match w_edns w with
  | Some _ => Err WOther
  | None =>
    if w_avail w <? w_cursor w + opt_record_size then Err WTruncation
    else if (65535 <=? w_arcount w)%N then Err WOther
    else Ok (mkResp (w_id w) (w_opcode w) (w_rd w) (w_rcode w) (w_aa w) (w_tc w) (w_question w)
                    (Some (size, 0%N)) (w_tsig w) (w_body w) (w_cursor w) (w_limit w)
                    (w_avail w - opt_record_size) (w_buflen w) (w_arcount w + 1))
  end.

Definition set_limit (w : resp) (new_limit : nat) : res werr resp :=
  if w_limit w <=? new_limit then
    let nl := Nat.min new_limit (w_buflen w) in
    if nl <? w_limit w then Panic            (* new_limit - self.limit *)
    else Ok (mkResp (w_id w) (w_opcode w) (w_rd w) (w_rcode w) (w_aa w) (w_tc w) (w_question w) (w_edns w)
                    (w_tsig w) (w_body w) (w_cursor w) nl (w_avail w + (nl - w_limit w)) (w_buflen w) (w_arcount w))
  else
    if w_cursor w + w_limit w <? w_avail w then Panic   (* cursor + limit - available *)
    else
      let nl := Nat.max new_limit (w_cursor w + w_limit w - w_avail w) in
      if w_limit w <? nl then Panic
      else if w_avail w <? w_limit w - nl then Panic
      else Ok (mkResp (w_id w) (w_opcode w) (w_rd w) (w_rcode w) (w_aa w) (w_tc w) (w_question w) (w_edns w)
                      (w_tsig w) (w_body w) (w_cursor w) nl (w_avail w - (w_limit w - nl)) (w_buflen w) (w_arcount w)).

(* set_extended_rcode(raw): RCODE := raw & 0xf, upper bits := raw >> 4 *)
Definition set_extended_rcode (w : resp) (raw : N) : res werr resp :=
  match w_edns w with
  | None => Err WOther
  | Some (sz, _) =>
    if (4095 <? raw)%N then Err WOther
    else Ok (mkResp (w_id w) (w_opcode w) (w_rd w) (N.land raw 15) (w_aa w) (w_tc w) (w_question w)
                    (Some (sz, N.shiftr raw 4)) (w_tsig w) (w_body w) (w_cursor w) (w_limit w)
                    (w_avail w) (w_buflen w) (w_arcount w))
  end.

Definition set_tsig (w : resp) (t : tsig_out) : res werr resp :=
  match w_tsig w with
  | Some _ => Err WOther
  | None =>
    if w_avail w <? w_cursor w + t_reserved t then Err WTruncation
    else if (65535 <=? w_arcount w)%N then Err WOther
    else Ok (mkResp (w_id w) (w_opcode w) (w_rd w) (w_rcode w) (w_aa w) (w_tc w) (w_question w) (w_edns w)
                    (Some t) (w_body w) (w_cursor w) (w_limit w) (w_avail w - t_reserved t)
                    (w_buflen w) (w_arcount w + 1))
  end.

(* set_tsig_or_truncate (added by the fix: commit; before it: set_tsig(..).unwrap()) *)
Definition set_tsig_or_truncate (w : resp) (t : tsig_out) : resp * bool :=
  match set_tsig w t with
  | Ok w' => (w', true)
  | _ => (set_tc w, false)
  end.

Definition RC_FORMERR : N := 1. Definition RC_SERVFAIL : N := 2. Definition RC_NXDOMAIN : N := 3.
Definition RC_NOTIMP : N := 4.  Definition RC_REFUSED : N := 5.  Definition RC_NOTAUTH : N := 9.
Definition XRC_BADVERSBADSIG : N := 16. Definition XRC_BADKEY : N := 17. Definition XRC_BADTIME : N := 18.
Definition OPCODE_QUERY : N := 0.
Definition QTYPE_IXFR : N := 251. Definition QTYPE_AXFR : N := 252. Definition QTYPE_MAILB : N := 253.
Definition QTYPE_MAILA : N := 254. Definition QTYPE_ANY : N := 255. Definition QCLASS_ANY : N := 255.

Record config := mkConfig
  { c_transport : transport; c_edns_size : N; c_buflen : nat;
    c_catalog : list cat_entry; c_keys : list tsig_key; c_now : N }.

Definition answer_fn := nat (* zone id *) -> question -> transport -> nat (* space left *) -> body.

(* validate_opt (after the fix: commit the EDNS version comes from the RAW ttl field) *)
Definition validate_opt (owner : name) (raw_ttl : N) : option N :=
  if negb (length (n_offsets owner) =? 1) then Some RC_FORMERR
  else let version := (N.shiftr raw_ttl 16 mod 256)%N in
       if negb (version =? 0)%N then Some XRC_BADVERSBADSIG else None.
(* the code before the fix used the Ttl (values above 2^31-1 read as 0) *)
Definition validate_opt_prefix (owner : name) (raw_ttl : N) : option N :=
  validate_opt owner (ttl_from raw_ttl).

Fixpoint find_key (ks : list tsig_key) (nm : list bytes) (alg : tsig_alg) : option tsig_key :=
  match ks with
  | [] => None
  | k :: rest =>
    if labels_eqb (k_name k) nm then
      (* HashMap::get(name).filter(alg matches): names are unique keys *)
      match k_alg k, alg with
      | HmacSha1, HmacSha1 | HmacSha256, HmacSha256 => Some k
      | _, _ => None
      end
    else find_key rest nm alg
  end.

(* algorithm name and MAC of (validated) TSIG RDATA *)
Definition tsig_alg_len (rd : bytes) : nat :=
  match validate_uncompressed_name rd false with Ok l => l | _ => 0 end.
Definition tsig_mac (rd : bytes) : bytes :=
  let al := tsig_alg_len rd in
  match get16 rd (al + 8) with
  | Some n => slice rd (al + 10) (al + 10 + N.to_nat n)
  | None => []
  end.

Inductive step_result := Continue (w : resp) | Return (w : resp) | Silent.

(* one additional-section record; [last] says whether it is the final counted record *)
Definition process_additional (verify : tsig_verifier) (cfg : config) (r : reader) (w : resp)
           (seen_opt : bool) (last : bool)
  : res reader_err (reader * step_result * bool) :=
  match peek_rr r with
  | Panic => Panic
  | Err _ => Ok (r, Return (set_rcode w RC_FORMERR), seen_opt)
  | Ok p =>
    let* ty := peek_type r p in
    if (ty =? TYPE_OPT)%N then
      if seen_opt then Ok (r, Return (set_rcode w RC_FORMERR), seen_opt)
      else
        match set_edns w (c_edns_size cfg) with
        | Panic => Panic
        | Err _ => Ok (r, Return (set_rcode w RC_SERVFAIL), true)
        | Ok w1 =>
          let* raw_ttl := peek_raw_ttl r p in
          match peek_parse rd_lite r p with
          | (_, Panic) => Panic
          | (_, Err _) => Ok (r, Return (set_rcode w1 RC_FORMERR), true)
          | (r', Ok opt_rr) =>
            let* w2 :=
              match c_transport cfg with
              | Udp =>
                let their := rr_class opt_rr in
                let negotiated := N.max 512 (N.min their (c_edns_size cfg)) in
                (* u16::clamp(512, max) panics if max < 512; Server guarantees edns_size >= 512 *)
                if (c_edns_size cfg <? 512)%N then Panic
                else match set_limit w1 (N.to_nat negotiated) with
                     | Ok w2 => Ok w2 | Err _ => Panic | Panic => Panic
                     end
              | Tcp => Ok w1
              end in
            match validate_opt (rr_owner opt_rr) raw_ttl with
            | Some rc =>
              match set_extended_rcode w2 rc with
              | Ok w3 => Ok (r', Return w3, true)
              | _ => Panic                                  (* .expect("failed to set extended RCODE") *)
              end
            | None => Ok (r', Continue w2, true)
            end
          end
        end
    else if (ty =? TYPE_TSIG)%N then
      if negb last then Ok (r, Return (set_rcode w RC_FORMERR), seen_opt)
      else
        let* msg_without := message_to_cursor r in
        match peek_parse rd_lite r p with
        | (_, Panic) => Panic
        | (_, Err _) => Ok (r, Return (set_rcode w RC_FORMERR), seen_opt)
        | (r', Ok rr) =>
          (* ReadTsigRr::try_from *)
          if negb (rr_class rr =? CLASS_ANY)%N || negb (rr_ttl rr =? 0)%N
          then Ok (r', Return (set_rcode w RC_FORMERR), seen_opt)
          else
            let rdata := rr_rdata rr in
            let al := tsig_alg_len rdata in
            let alg_wire := lower_wire (firstn al rdata) in
            let key_wire := lower_wire (n_wire (rr_owner rr)) in
            let key_labels := name_key (rr_owner rr) in
            let unsigned_len := fun (err : N) =>
              length key_wire + length alg_wire + 26 + (if (err =? XRC_BADTIME)%N then 6 else 0) in
            let badkey : res reader_err (reader * step_result * bool) :=
              Ok (r', Return (fst (set_tsig_or_truncate (set_rcode w RC_NOTAUTH)
                               (mkTsigOut key_wire (TUnsigned alg_wire) XRC_BADKEY (unsigned_len XRC_BADKEY) rdata))),
                  seen_opt) in
            match alg_of_name (lower_labels (wire_labels (firstn al rdata))) with
            | None => badkey
            | Some alg =>
              match find_key (c_keys cfg) key_labels alg with
              | None => badkey
              | Some k =>
                let aw := alg_name_wire alg in
                let ulen := fun err => length key_wire + length aw + 26 + (if (err =? XRC_BADTIME)%N then 6 else 0) in
                match verify rdata (rr_owner rr) msg_without alg (k_secret k) (c_now cfg) with
                | VOk =>
                  let wo := set_tsig_or_truncate (set_rcode w 0)
                    (mkTsigOut key_wire (TResponse alg (k_secret k) (tsig_mac rdata)) 0
                               (ulen 0%N + alg_output_size alg) rdata) in
                  Ok (r', (if snd wo then Continue (fst wo) else Return (fst wo)), seen_opt)
                | VBadSig =>
                  Ok (r', Return (fst (set_tsig_or_truncate (set_rcode w RC_NOTAUTH)
                    (mkTsigOut key_wire (TUnsigned aw) XRC_BADVERSBADSIG (ulen XRC_BADVERSBADSIG) rdata))), seen_opt)
                | VBadTime =>
                  Ok (r', Return (fst (set_tsig_or_truncate (set_rcode w RC_NOTAUTH)
                    (mkTsigOut key_wire (TResponse alg (k_secret k) (tsig_mac rdata)) XRC_BADTIME
                               (ulen XRC_BADTIME + alg_output_size alg) rdata))), seen_opt)
                | VFormErr =>
                  Ok (r', Return (fst (set_tsig_or_truncate (set_rcode w RC_FORMERR)
                    (mkTsigOut key_wire (TUnsigned aw) XRC_BADVERSBADSIG (ulen XRC_BADVERSBADSIG) rdata))), seen_opt)
                end
              end
            end
        end
    else Ok (peek_skip r p, Continue w, seen_opt)     (* `else { peek_rr.skip(); }` added by the fix: commit *)
  end.

Fixpoint scan_additional (verify : tsig_verifier) (cfg : config) (n : nat) (r : reader) (w : resp)
         (seen_opt : bool) : res reader_err (reader * step_result) :=
  match n with
  | O => Ok (r, Continue w)
  | S n' =>
    let* (rs, seen') := process_additional verify cfg r w seen_opt (n' =? 0) in
    let (r', s) := rs in
    match s with
    | Continue w' => scan_additional verify cfg n' r' w' seen'
    | other => Ok (r', other)
    end
  end.

(* answer and authority sections: OPT / TSIG there are FORMERR *)
Fixpoint scan_an_ns (n : nat) (r : reader) (w : resp) : res reader_err (reader * step_result) :=
  match n with
  | O => Ok (r, Continue w)
  | S n' =>
    match peek_rr r with
    | Panic => Panic
    | Err _ => Ok (r, Return (set_rcode w RC_FORMERR))
    | Ok p =>
      let* ty := peek_type r p in
      if (ty =? TYPE_OPT)%N || (ty =? TYPE_TSIG)%N then Ok (r, Return (set_rcode w RC_FORMERR))
      else scan_an_ns n' (peek_skip r p) w
    end
  end.

Definition apply_body (w : resp) (b : body) : resp :=
  let w1 := match b_rcode b with Some rc => set_rcode w rc | None => w end in
  mkResp (w_id w1) (w_opcode w1) (w_rd w1) (w_rcode w1) (b_aa b) (b_tc b || w_tc w1) (w_question w1) (w_edns w1)
         (w_tsig w1) b (w_cursor w1) (w_limit w1) (w_avail w1) (w_buflen w1) (w_arcount w1).

(* handle_query: the dispatch in front of the answering logic *)
Definition handle_query (answer : answer_fn) (cfg : config) (w : resp) : resp :=
  match w_question w with
  | None => set_rcode w RC_FORMERR
  | Some q =>
    if existsb (N.eqb (q_type q)) [QTYPE_IXFR; QTYPE_AXFR; QTYPE_MAILB; QTYPE_MAILA] then set_rcode w RC_NOTIMP
    else if (q_class q =? QCLASS_ANY)%N then set_rcode w RC_NOTIMP
    else match cat_lookup (c_catalog cfg) (name_key (q_name q)) (q_class q) None with
         | None => set_rcode w RC_REFUSED
         | Some e =>
           match e_kind e with
           | ELoaded z => apply_body w (answer z q (c_transport cfg) (w_avail w - w_cursor w))
           | ENotYetLoaded | EFailedToLoad => set_rcode w RC_SERVFAIL
           end
         end
  end.

Definition initial_resp (cfg : config) (id opcode : N) (rd : bool) : res reader_err resp :=
  (* Writer::new(response_buf, limit).unwrap() *)
  let limit0 := match c_transport cfg with Tcp => tcp_limit | Udp => udp_limit end in
  let limit := Nat.min limit0 (c_buflen cfg) in
  if limit <? header_size then Panic
  else Ok (mkResp id opcode (if (opcode =? OPCODE_QUERY)%N then rd else false) 0 false false None None None
                  empty_body header_size limit limit (c_buflen cfg) 0).

(* Outcome of the generic pre-processing (everything in handle_message_with_context before the
   opcode dispatch): no response; a response that is already final (an error was detected, or
   an EDNS/TSIG condition ends processing); or a clean request ready for opcode-specific handling. *)
Inductive prescan_result := PNone | PEarly (w : resp) | PClean (opcode : N) (w : resp).

(* everything after the question has been read and echoed *)
Definition prescan_rest (verify : tsig_verifier) (cfg : config) (r1 : reader) (w1 : resp)
  : res reader_err prescan_result :=
  let r1m := rd_mark r1 in
  let* an := rd_ancount r1m in
  let* ns := rd_nscount r1m in
  let* (r2, s2) := scan_an_ns (N.to_nat an + N.to_nat ns) r1m w1 in
  match s2 with
  | Silent => Ok PNone
  | Return w => Ok (PEarly w)
  | Continue w2 =>
    let* ar := rd_arcount r2 in
    let* (r3, s3) := scan_additional verify cfg (N.to_nat ar) r2 w2 false in
    match s3 with
    | Silent => Ok PNone
    | Return w => Ok (PEarly w)
    | Continue w3 =>
      if negb (at_eom r3) then Ok (PEarly (set_rcode w3 RC_FORMERR))   (* `return;` added by the fix: commit *)
      else
        match rd_rewind r3 with
        | (_, Panic) => Panic
        | (_, Err _) => Panic
        | (r4, Ok _) => let* opc := rd_opcode r4 in Ok (PClean opc w3)
        end
    end
  end.

Definition prescan (verify : tsig_verifier) (cfg : config) (req : bytes) : res reader_err prescan_result :=
  (* the caller must supply a large enough response buffer, otherwise handle_message panics *)
  let min_buf := match c_transport cfg with Tcp => tcp_limit | Udp => N.to_nat (c_edns_size cfg) end in
  if c_buflen cfg <? min_buf then Panic
  else
  match reader_new req with
  | Err _ => Ok PNone
  | Panic => Panic
  | Ok r0 =>
    let* qr := rd_qr r0 in
    if qr then Ok PNone
    else
      let* id := rd_id r0 in
      let* opcode := rd_opcode r0 in
      let* rdf := rd_rd r0 in
      let* w0 := initial_resp cfg id opcode rdf in
      let* qd := rd_qdcount r0 in
      if (qd =? 0)%N then prescan_rest verify cfg r0 w0
      else if (qd =? 1)%N then
        match read_question r0 with
        | (_, Panic) => Panic
        | (_, Err _) => Ok (PEarly (set_rcode w0 RC_FORMERR))
        | (r1, Ok q) =>
          match add_question w0 q with
          | Ok w1 => prescan_rest verify cfg r1 w1
          | Err _ => Ok (PEarly (set_rcode w0 RC_SERVFAIL))
          | Panic => Panic
          end
        end
      else Ok PNone
  end.

(* Ok (Some w): a response is sent; Ok None: no response *)
Definition handle_message (answer : answer_fn) (verify : tsig_verifier) (cfg : config) (req : bytes)
  : res reader_err (option resp) :=
  let* p := prescan verify cfg req in
  match p with
  | PNone => Ok None
  | PEarly w => Ok (Some w)
  | PClean opc w =>
    if (opc =? OPCODE_QUERY)%N then Ok (Some (handle_query answer cfg w))
    else Ok (Some (set_rcode w RC_NOTIMP))
  end.
