(* Model of /repo/src/name/wire.rs (parse/validate/skip of on-the-wire names).
   Same control flow and arithmetic as the Rust code; every indexing, slicing
   and ArrayVec::push is a potential [Panic].  Loops run on explicit fuel;
   [OutOfFuel] is a model-only error shown unreachable in Proofs/NameWire.v. *)
From QV Require Export Base.Res Base.Octets Gen.Consts.

Inductive name_err :=
| ExtraData | InvalidEscape | InvalidPointer | LabelTooLong | NameTooLong
| NonNullTerminal | NullNonTerminal | StrEmpty | StrNotAscii | UnexpectedEom
| OutOfFuel.

(* A Rust [Name]: label offsets (u8 each) followed by the uncompressed wire form. *)
Record name := mkName { n_offsets : list N; n_wire : bytes }.

Definition max_label_len : N := MAX_LABEL_LEN.
Definition max_wire_len : nat := N.to_nat MAX_WIRE_LEN.
Definition max_n_labels : nat := N.to_nat MAX_N_LABELS.

(* `len & 0xc0 == 0xc0` *)
Definition is_pointer_octet (b : N) : bool := (N.land b 192 =? 192)%N.

(* ArrayVec::<u8, MAX_N_LABELS>::push(x as u8): panics when full *)
Definition push_offset (offs : list N) (x : nat) : option (list N) :=
  if max_n_labels <=? length offs then None else Some (offs ++ [(N.of_nat x mod 256)%N]).

(* ---- parse_uncompressed_name ------------------------------------------------ *)

Fixpoint unc_loop (fuel : nat) (octets : bytes) (offset : nat) (offs : list N)
  : res name_err (nat * list N) :=
  match fuel with
  | O => Err OutOfFuel
  | S fuel' =>
    match nth_error octets offset with
    | None => Err UnexpectedEom                 (* loop left with finished = false *)
    | Some l =>
      if (max_label_len <? l)%N then Err LabelTooLong
      else match push_offset offs offset with
           | None => Panic
           | Some offs' =>
             let offset' := offset + N.to_nat l + 1 in
             if max_wire_len <? offset' then Err NameTooLong
             else if (l =? 0)%N then Ok (offset', offs')
             else unc_loop fuel' octets offset' offs'
           end
    end
  end.

Definition unc_fuel : nat := S (S max_wire_len).

Definition parse_uncompressed_name (octets : bytes) (use_all : bool) : res name_err (name * nat) :=
  let* (offset, offs) := unc_loop unc_fuel octets 0 [] in
  if use_all && (offset <? length octets) then Err ExtraData
  else Ok (mkName offs (firstn offset octets), offset).

(* ---- validate_uncompressed_name ---------------------------------------------- *)

Fixpoint val_loop (fuel : nat) (octets : bytes) (offset : nat) : res name_err nat :=
  match fuel with
  | O => Err OutOfFuel
  | S fuel' =>
    match nth_error octets offset with
    | None => Err UnexpectedEom
    | Some l =>
      if (max_label_len <? l)%N then Err LabelTooLong
      else let offset' := offset + N.to_nat l + 1 in
           if max_wire_len <? offset' then Err NameTooLong
           else if (l =? 0)%N then Ok offset'
           else val_loop fuel' octets offset'
    end
  end.

Definition validate_uncompressed_name (octets : bytes) (use_all : bool) : res name_err nat :=
  let* offset := val_loop unc_fuel octets 0 in
  if use_all && (offset <? length octets) then Err ExtraData else Ok offset.

(* ---- parse_compressed_name --------------------------------------------------- *)

(* parse_pointer: Ok target | Err *)
Definition parse_pointer (octets : bytes) (chunk_start index : nat) : res name_err nat :=
  if index + 1 <? length octets then
    match nth_error octets index, nth_error octets (index + 1) with
    | Some hi, Some lo =>
      let pointer := N.to_nat (N.land (hi * 256 + lo) 16383) in
      if chunk_start <=? pointer then Err InvalidPointer else Ok pointer
    | _, _ => Panic
    end
  else Err UnexpectedEom.

(* ArrayVec::<u8, MAX_WIRE_LEN>::try_extend_from_slice *)
Definition try_extend (wire : bytes) (s : bytes) : option bytes :=
  if max_wire_len <? length wire + length s then None else Some (wire ++ s).

Fixpoint pc_loop (fuel : nat) (octets : bytes) (chunk_start index : nat)
         (first : option nat) (offs : list N) (wire : bytes) : res name_err (name * nat) :=
  match fuel with
  | O => Err OutOfFuel
  | S fuel' =>
    match nth_error octets index with
    | None => Err UnexpectedEom    (* bounds check added by the fix: commit (was: octets[index] panics) *)
    | Some len =>
      if is_pointer_octet len then
        let* target := parse_pointer octets chunk_start index in
        let first' := match first with None => Some (index + 2 - chunk_start) | Some x => Some x end in
        pc_loop fuel' octets target target first' offs wire
      else if (max_label_len <? len)%N then Err LabelTooLong
      else match push_offset offs (length wire) with
           | None => Panic
           | Some offs' =>
             let end_of_label := index + N.to_nat len + 1 in
             if (len =? 0)%N then
               match try_extend wire (slice octets index end_of_label) with
               | None => Err NameTooLong
               | Some wire' =>
                 Ok (mkName offs' wire',
                     match first with None => end_of_label - chunk_start | Some x => x end)
               end
             else if length octets <=? end_of_label then Err UnexpectedEom
             else match try_extend wire (slice octets index end_of_label) with
                  | None => Err NameTooLong
                  | Some wire' => pc_loop fuel' octets chunk_start end_of_label first offs' wire'
                  end
           end
    end
  end.

Definition pc_fuel (start : nat) : nat := S (S max_wire_len) + start.

Definition parse_compressed_name (octets : bytes) (start : nat) : res name_err (name * nat) :=
  pc_loop (pc_fuel start) octets start start None [] [].

(* The pre-fix behaviour of the first read (kept for the regression witness):
   `let len = octets[index];` with index = start >= len panics. *)
Definition parse_compressed_name_prefix (octets : bytes) (start : nat) : res name_err (name * nat) :=
  match nth_error octets start with
  | None => Panic
  | Some _ => parse_compressed_name octets start
  end.

(* ---- skip_compressed_name ---------------------------------------------------- *)

Definition skip_fin (min_uncompressed chunk_len : nat) : res name_err nat :=
  if max_wire_len <? min_uncompressed then Err NameTooLong else Ok chunk_len.

Fixpoint skip_loop (fuel : nat) (octets : bytes) (offset : nat) : res name_err nat :=
  match fuel with
  | O => Err OutOfFuel
  | S fuel' =>
    match nth_error octets offset with
    | None => Err UnexpectedEom
    | Some l =>
      if is_pointer_octet l then skip_fin (offset + 1) (offset + 2)
      else if (max_label_len <? l)%N then Err LabelTooLong
      else if (l =? 0)%N then skip_fin (offset + 1) (offset + 1)
      else let offset' := offset + 1 + N.to_nat l in
           if max_wire_len <? offset' then Err NameTooLong
           else skip_loop fuel' octets offset'
    end
  end.

Definition skip_compressed_name (octets : bytes) : res name_err nat :=
  skip_loop unc_fuel octets 0.

(* ---- labels of a name (what Index<usize> for Name computes) ------------------- *)

Definition label_at (nm : name) (i : nat) : res name_err bytes :=
  match nth_error (n_offsets nm) i with
  | None => Panic
  | Some off =>
    let off := N.to_nat off in
    match nth_error (n_wire nm) off with
    | None => Panic
    | Some len =>
      let s := off + 1 in
      let e := s + N.to_nat len in
      if length (n_wire nm) <? e then Panic else Ok (slice (n_wire nm) s e)
    end
  end.
