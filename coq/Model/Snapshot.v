(* C32 — model of the two RwLock<Arc<_>> cells of src/server/mod.rs (catalog, tsig_keys)
   under arbitrary interleavings of message handlers and swappers.

   What RwLock<Arc<T>> gives (trusted, not modelled further): `cell.read().unwrap().clone()`
   atomically returns the Arc currently stored; `*cell.write().unwrap() = v` atomically
   replaces it.  A handler (Server::handle_message) does
        catalog()            once, before anything that depends on the catalog
        tsig_keys()          once, and only when the request reaches the TSIG point
        pure computation on the request and the two values read
   (pinned on the source by tools/gen/snapconsts.py: number of acquisitions of each cell).
   A swapper does set_catalog(c) / set_tsig_keys(k): the write, then the return.

   Cells carry a version (number of writes so far) next to the value; versions are
   instrumentation used to state "c or a later value".  No proofs in this file. *)
From Coq Require Import List Arith Bool.
Import ListNotations.

Section Snap.
  Variables Req C K Resp : Type.
  Variable needs_keys : Req -> bool.                 (* does handling reach the TSIG point *)
  Variable handle : Req -> C -> option K -> Resp.    (* the rest of handle_message *)

  Inductive hpc :=
  | HNew | HStarted
  | HGotCat (v : nat) (c : C)
  | HGotBoth (v : nat) (c : C) (vk : nat) (k : K)
  | HDone.

  Inductive op := SetCat (c : C) | SetKeys (k : K).

  Inductive thread :=
  | Handler (req : Req) (pc : hpc)
  | Swapper (ops : list op) (pending : option (bool * nat)).  (* written, not yet returned: (is_cat, version) *)

  Inductive event :=
  | EStart (t : nat)
  | EReadCat (t v : nat) (c : C)
  | EReadKeys (t v : nat) (k : K)
  | ERespond (t : nat) (r : Resp)
  | EWriteCat (t v : nat) (c : C)
  | EWriteKeys (t v : nat) (k : K)
  | ERetCat (t v : nat)        (* set_catalog returned; v = version it installed *)
  | ERetKeys (t v : nat).

  Record state := { threads : list thread; cat : nat * C; keys : nat * K }.

  Fixpoint set_nth {A} (l : list A) (n : nat) (x : A) : list A :=
    match l, n with
    | [], _ => []
    | _ :: l', O => x :: l'
    | y :: l', S n' => y :: set_nth l' n' x
    end.

  Definition upd (st : state) (t : nat) (th : thread) : state :=
    {| threads := set_nth (threads st) t th; cat := cat st; keys := keys st |}.

  (* one atomic step of thread t; None = the thread has nothing left to do (or does not exist) *)
  Definition step (t : nat) (st : state) : option (event * state) :=
    match nth_error (threads st) t with
    | None => None
    | Some (Handler req pc) =>
        match pc with
        | HNew => Some (EStart t, upd st t (Handler req HStarted))
        | HStarted =>
            let '(v, c) := cat st in
            Some (EReadCat t v c, upd st t (Handler req (HGotCat v c)))
        | HGotCat v c =>
            if needs_keys req then
              let '(vk, k) := keys st in
              Some (EReadKeys t vk k, upd st t (Handler req (HGotBoth v c vk k)))
            else Some (ERespond t (handle req c None), upd st t (Handler req HDone))
        | HGotBoth v c vk k =>
            Some (ERespond t (handle req c (Some k)), upd st t (Handler req HDone))
        | HDone => None
        end
    | Some (Swapper ops pending) =>
        match pending with
        | Some (true, v) => Some (ERetCat t v, upd st t (Swapper ops None))
        | Some (false, v) => Some (ERetKeys t v, upd st t (Swapper ops None))
        | None =>
            match ops with
            | [] => None
            | SetCat c :: ops' =>
                let v := S (fst (cat st)) in
                Some (EWriteCat t v c,
                      {| threads := set_nth (threads st) t (Swapper ops' (Some (true, v)));
                         cat := (v, c); keys := keys st |})
            | SetKeys k :: ops' =>
                let v := S (fst (keys st)) in
                Some (EWriteKeys t v k,
                      {| threads := set_nth (threads st) t (Swapper ops' (Some (false, v)));
                         cat := cat st; keys := (v, k) |})
            end
        end
    end.

  (* run a schedule (which thread moves next); every interleaving is some schedule *)
  Fixpoint exec (sched : list nat) (st : state) : list event * state :=
    match sched with
    | [] => ([], st)
    | t :: sched' =>
        match step t st with
        | Some (ev, st') => let '(tr, fin) := exec sched' st' in (ev :: tr, fin)
        | None => exec sched' st
        end
    end.

  (* initial states: handlers not started, swappers idle *)
  Definition fresh (th : thread) : bool :=
    match th with
    | Handler _ HNew => true
    | Swapper _ None => true
    | _ => false
    end.
  Definition init (ths : list thread) (c0 : C) (k0 : K) : state :=
    {| threads := ths; cat := (0, c0); keys := (0, k0) |}.

  (* the content of a cell after the first n events of a trace, replayed from the writes alone *)
  Definition cat_at (c0 : C) (tr : list event) (n : nat) : nat * C :=
    fold_left (fun cell ev => match ev with EWriteCat _ v c => (v, c) | _ => cell end) (firstn n tr) (0, c0).
  Definition keys_at (k0 : K) (tr : list event) (n : nat) : nat * K :=
    fold_left (fun cell ev => match ev with EWriteKeys _ v k => (v, k) | _ => cell end) (firstn n tr) (0, k0).
End Snap.

Arguments EStart {C K Resp}.
Arguments EReadCat {C K Resp}.
Arguments EReadKeys {C K Resp}.
Arguments ERespond {C K Resp}.
Arguments EWriteCat {C K Resp}.
Arguments EWriteKeys {C K Resp}.
Arguments ERetCat {C K Resp}.
Arguments ERetKeys {C K Resp}.
Arguments cat_at {C K Resp}.
Arguments keys_at {C K Resp}.
Arguments Handler {Req C K}.
Arguments Swapper {Req C K}.
Arguments HNew {C K}.
Arguments HStarted {C K}.
Arguments HGotCat {C K}.
Arguments HGotBoth {C K}.
Arguments HDone {C K}.
Arguments SetCat {C K}.
Arguments SetKeys {C K}.
Arguments threads {Req C K}.
Arguments cat {Req C K}.
Arguments keys {Req C K}.
Arguments init {Req C K}.
Arguments fresh {Req C K}.
