(* Model of `RecordsOnly` (src/zone_file/mod.rs): the iterator returned by Parser::records_only().
   It passes records through, turns a yielded $INCLUDE line into an "include not supported" error at
   column 1 of that line AND sets the error flag of the underlying parser so that iteration ends. *)
From QV Require Export Model.ZfParser.

Local Open Scope N_scope.

(* RecordsOnlyLine *)
Record ro_line := mkRoLine { ro_number : N; ro_record : rr }.

(* <RecordsOnly as Iterator>::next *)
Definition ro_next (p : parser) : res zerr (option (ro_line + (pos * zkind)) * parser) :=
  match parser_next p with
  | Ok (Some (inl l), p') =>
    match l_content l with
    | CInclude _ _ =>
      (* self.parser.error = true *)
      Ok (Some (inr (mkPos (l_number l) 1, IncludeNotSupported)), mkParser true (ps_rd p') (ps_ctx p'))
    | CRecord r => Ok (Some (inl (mkRoLine (l_number l) r)), p')
    end
  | Ok (Some (inr e), p') => Ok (Some (inr e), p')
  | Ok (None, p') => Ok (None, p')
  | Err e => Err e
  | Panic => Panic
  end.

(* drive the iterator: the items yielded until the first None *)
Fixpoint ro_collect (fuel : nat) (p : parser) (acc : list (ro_line + (pos * zkind)))
  : res zerr (list (ro_line + (pos * zkind)) * parser) :=
  match fuel with
  | O => Err ZOutOfFuel
  | S fuel' =>
    let* (o, p') := ro_next p in
    match o with
    | Some it => ro_collect fuel' p' (it :: acc)
    | None => Ok (rev_fast acc, p')
    end
  end.

Definition ro_all (input : bytes) : res zerr (list (ro_line + (pos * zkind)) * parser) :=
  ro_collect (S (S (length input))) (parser_new input) [].
