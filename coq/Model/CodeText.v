(* Model of the text and numeric conversions of Type (src/rr/rr_type.rs), Class (src/class.rs),
   Qtype/Qclass (src/message/question.rs), Opcode (src/message/opcode.rs) and
   Rcode/ExtendedRcode (src/message/rcode.rs).  Every table, prefix, slice index and bound is
   the regenerated one of Gen/Codes.v; the control flow is the Rust code's:

     match Caseless(text) { <arms in order> , _ => generic RFC 3597 branch / delegation }

   `Caseless` comparison is [eq_nocase] (the FIXED code: the arms compare through
   Caseless's PartialEq; the pre-fix code matched the inner &str structurally, i.e. exactly —
   kept below as [*_from_str_prefix] for the regression witness). *)
From QV Require Export Base.Res Base.Octets Gen.Codes Model.DecU16.

Inductive code_err := UnknownCode | BadNumber.

(* the arms `c if c == Caseless("X") => Ok(Self::X)`, first match wins *)
Fixpoint match_arms (eqf : bytes -> bytes -> bool) (text : bytes) (arms : list (bytes * N)) : option N :=
  match arms with
  | [] => None
  | (m, v) :: r => if eqf text m then Some v else match_arms eqf text r
  end.

(* if text.get(0..G).map_or(false, |p| p.eq_ignore_ascii_case(PREFIX))
     { text[S..].parse::<u16>().map(Self::from).or(Err("... not a valid unsigned 16-bit integer")) }
   else { Err("unknown ...") } *)
Definition generic_from_str (get_len : nat) (prefix : bytes) (skip : nat) (text : bytes) : res code_err N :=
  let matched :=
    (* str::get(0..G): None unless G <= len and G is a char boundary *)
    if is_char_boundary text get_len then eq_nocase (firstn get_len text) prefix else false in
  if matched then
    (* &text[S..] panics unless S is a char boundary (<= len) *)
    if is_char_boundary text skip then
      match u16_from_str (skipn skip text) with
      | Ok v => Ok v
      | Err _ => Err BadNumber
      | Panic => Panic
      end
    else Panic
  else Err UnknownCode.

Definition arms_then {E} (eqf : bytes -> bytes -> bool) (arms : list (bytes * N))
           (rest : bytes -> res E N) (text : bytes) : res E N :=
  match match_arms eqf text arms with
  | Some v => Ok v
  | None => rest text
  end.

Definition type_generic := generic_from_str (N.to_nat type_generic_get) type_generic_prefix (N.to_nat type_generic_skip).
Definition class_generic := generic_from_str (N.to_nat class_generic_get) class_generic_prefix (N.to_nat class_generic_skip).

Definition type_from_str : bytes -> res code_err N := arms_then eq_nocase type_parse_arms type_generic.
Definition class_from_str : bytes -> res code_err N := arms_then eq_nocase class_parse_arms class_generic.
Definition qtype_from_str : bytes -> res code_err N := arms_then eq_nocase qtype_parse_arms type_from_str.
Definition qclass_from_str : bytes -> res code_err N := arms_then eq_nocase qclass_parse_arms class_from_str.

(* pre-fix fragment: `match Caseless(text) { Caseless("A") => .. }` compares the inner &str
   with the literal structurally (str equality), so only the exact spelling matched *)
Definition type_from_str_prefix : bytes -> res code_err N := arms_then eq_exact type_parse_arms type_generic.

(* ---- Display ------------------------------------------------------------------ *)

(* match *self { Self::X => "X", ..., <fall through> }: first arm whose constant equals the value *)
Fixpoint display_arm (v : N) (arms : list (N * bytes)) : option bytes :=
  match arms with
  | [] => None
  | (c, s) :: r => if (c =? v)%N then Some s else display_arm v r
  end.

Definition arm_or (arms : list (N * bytes)) (rest : N -> bytes) (v : N) : bytes :=
  match display_arm v arms with
  | Some s => s
  | None => rest v
  end.

Definition type_to_string : N -> bytes := arm_or type_display_arms (fun v => (type_display_prefix ++ u16_display v)%list).
Definition class_to_string : N -> bytes := arm_or class_display_arms (fun v => (class_display_prefix ++ u16_display v)%list).
Definition qtype_to_string : N -> bytes := arm_or qtype_display_arms type_to_string.
Definition qclass_to_string : N -> bytes := arm_or qclass_display_arms class_to_string.

(* ---- Opcode / Rcode / ExtendedRcode ------------------------------------------- *)

(* TryFrom<u8>: if value < 16 { Ok(Self(value)) } else { Err(..) } *)
Definition opcode_try_from (v : N) : res unit N := if (v <? opcode_bound)%N then Ok v else Err tt.
Definition rcode_try_from (v : N) : res unit N := if (v <? rcode_bound)%N then Ok v else Err tt.
(* TryFrom<ExtendedRcode>: if value.0 < 16 { Ok(Self(value.0 as u8)) } *)
Definition rcode_try_from_ext (e : N) : res unit N := if (e <? rcode_ext_bound)%N then Ok (e mod 256)%N else Err tt.
(* From<Rcode> for ExtendedRcode: Self(value.0 as u16) *)
Definition ercode_from_rcode (r : N) : N := r.

Definition opcode_to_string : N -> bytes := arm_or opcode_display_arms (fun v => (opcode_display_prefix ++ u16_display v)%list).
Definition rcode_to_string : N -> bytes := arm_or rcode_display_arms (fun v => (rcode_display_prefix ++ u16_display v)%list).
Definition ercode_to_string (e : N) : bytes :=
  match rcode_try_from_ext e with
  | Ok r => rcode_to_string r
  | _ => arm_or ercode_display_arms (fun v => (ercode_display_prefix ++ u16_display v)%list) e
  end.
