(* Model of the pieces of Rust's core library the code conversions rely on:
   <u16 as FromStr>::from_str (core::num::from_str_radix with radix 10),
   <u16 as Display>::fmt / <u8 as Display>::fmt, [u8]::eq_ignore_ascii_case,
   str::is_char_boundary / str::get(0..n) / &text[n..].
   Text is a list of octets (the UTF-8 encoding of the Rust &str). *)
From QV Require Export Base.Res Base.Octets.

(* <[u8]>::eq_ignore_ascii_case: equal lengths and octet-wise
   a.to_ascii_lowercase() == b.to_ascii_lowercase() *)
Fixpoint eq_nocase (a b : bytes) : bool :=
  match a, b with
  | [], [] => true
  | x :: a', y :: b' => (lower x =? lower y)%N && eq_nocase a' b'
  | _, _ => false
  end.

(* exact octet equality (str == str), used for the pre-fix regression fragment *)
Fixpoint eq_exact (a b : bytes) : bool :=
  match a, b with
  | [], [] => true
  | x :: a', y :: b' => (x =? y)%N && eq_exact a' b'
  | _, _ => false
  end.

(* str::is_char_boundary *)
Definition is_char_boundary (text : bytes) (n : nat) : bool :=
  if n =? 0 then true
  else match nth_error text n with
       | None => n =? length text
       | Some b => negb ((128 <=? b)%N && (b <? 192)%N)     (* (b as i8) >= -0x40 *)
       end.

(* ---- u16::from_str ---------------------------------------------------------- *)

Inductive int_err := IntEmpty | IntInvalidDigit | IntPosOverflow.

Definition is_dec_digit (c : N) : bool := ((48 <=? c) && (c <=? 57))%N.

Definition u16_max : N := 65535.
Definition u8_max : N := 255.

(* the checked loop of from_str_radix: to_digit first, then checked_mul, then checked_add *)
Fixpoint digits_loop (max : N) (l : bytes) (acc : N) : res int_err N :=
  match l with
  | [] => Ok acc
  | c :: r =>
    if is_dec_digit c then
      let m := (acc * 10)%N in
      if (max <? m)%N then Err IntPosOverflow
      else let a := (m + (c - 48))%N in
           if (max <? a)%N then Err IntPosOverflow else digits_loop max r a
    else Err IntInvalidDigit
  end.

Definition is_nil {A} (l : list A) : bool := match l with [] => true | _ => false end.

Definition uint_from_str (max : N) (s : bytes) : res int_err N :=
  match s with
  | [] => Err IntEmpty
  | c :: r =>
    if ((c =? 43) || (c =? 45))%N && is_nil r then Err IntInvalidDigit   (* "+" or "-" alone *)
    else if (c =? 43)%N then digits_loop max r 0                          (* leading '+' is skipped *)
    else digits_loop max s 0                                              (* '-' is not a digit for unsigned types *)
  end.

Definition u16_from_str (s : bytes) : res int_err N := uint_from_str u16_max s.

(* ---- Display for u8/u16: decimal, no leading zeros, "0" for zero ------------- *)

Fixpoint to_dec_aux (fuel : nat) (n : N) (acc : bytes) : bytes :=
  match fuel with
  | O => acc
  | S f =>
    let acc' := (48 + n mod 10)%N :: acc in
    if (n / 10 =? 0)%N then acc' else to_dec_aux f (n / 10)%N acc'
  end.

(* 5 digits are enough for every u16 (and u8) value *)
Definition u16_display (n : N) : bytes := to_dec_aux 5 n [].
