(* Model of /repo/src/db/hash_map_tree/catalog.rs (HashMapTreeCatalog), the part of
   src/db/hash_map_tree/node.rs the catalog uses (Node, get_or_create_descendant,
   Node::iter), the default [Catalog::get] of src/db/catalog.rs and
   src/db/single_zone_catalog.rs.

   Abstraction of the Rust values:
   * a [Name] is the list of its non-root labels, leftmost first ([name.len()] =
     S (length nm), [name[i]] = nth i (nm ++ [[]]), see Spec/NameRepr.v for the
     wire/offset representation proved about in C14);
   * an [Entry<Z, M>] is (name, class, payload): [Entry::name()], [Entry::class()]
     and everything else (variant, Arc<Z>, metadata) as an opaque payload [V];
   * [HashMap<LabelBuf, Node>] / [HashMap<Class, Node>] are association lists; a
     [LabelBuf] key (Eq and Hash ignore ASCII case) is represented by its
     lower-cased octets.  The NoDup invariant is [wf_*] in Proofs/CatTreeP.v.
   * [&mut] descent + mutation (get_or_create_descendant followed by
     [node.data.replace]) is the functional rebuild of the path.
   Every Rust index / unwrap / usize subtraction that can fail is a [Panic]. *)
From QV Require Export Base.Res Base.Octets.

Definition clabel := bytes.
Definition cname := list clabel.

Definition lower_label (l : clabel) : clabel := map lower l.
Definition lower_name (nm : cname) : cname := map lower_label nm.

(* [u8]::eq_ignore_ascii_case, which is Label's PartialEq *)
Fixpoint label_eq_ci (a b : clabel) : bool :=
  match a, b with
  | [], [] => true
  | x :: a', y :: b' => (lower x =? lower y)%N && label_eq_ci a' b'
  | _, _ => false
  end.

Definition label_eq_dec : forall a b : clabel, {a = b} + {a <> b} := list_eq_dec N.eq_dec.

(* Name::len(): number of labels, root label included *)
Definition name_len (nm : cname) : nat := S (length nm).
(* Index<usize> for Name: panics (None) for index >= len *)
Definition name_index (nm : cname) (i : nat) : option clabel := nth_error (nm ++ [[]]) i.
(* Name::superdomain(skip) *)
Definition superdomain (nm : cname) (skip : nat) : option cname :=
  if skip <? name_len nm then Some (skipn skip nm) else None.
(* usize subtraction under overflow checks *)
Definition usub (a b : nat) : option nat := if b <=? a then Some (a - b) else None.

Section Cat.
Variable V : Type.

Record entry := mkEntry { e_name : cname; e_class : N; e_val : V }.

(* Node<Option<Entry>>: name, data, children *)
Inductive node :=
| Node (nm : cname) (data : option entry) (children : forest)
with forest :=
| FNil
| FCons (k : clabel) (c : node) (rest : forest).

Definition node_name (n : node) := match n with Node nn _ _ => nn end.
Definition node_data (n : node) := match n with Node _ d _ => d end.
Definition node_children (n : node) := match n with Node _ _ ch => ch end.

(* HashMap<LabelBuf, Node>: get / insert-or-replace / remove / is_empty *)
Fixpoint f_get (k : clabel) (f : forest) : option node :=
  match f with
  | FNil => None
  | FCons k' c r => if label_eq_dec k k' then Some c else f_get k r
  end.
Fixpoint f_set (k : clabel) (n : node) (f : forest) : forest :=
  match f with
  | FNil => FCons k n FNil
  | FCons k' c r => if label_eq_dec k k' then FCons k' n r else FCons k' c (f_set k n r)
  end.
Fixpoint f_remove (k : clabel) (f : forest) : forest :=
  match f with
  | FNil => FNil
  | FCons k' c r => if label_eq_dec k k' then f_remove k r else FCons k' c (f_remove k r)
  end.
Definition f_is_empty (f : forest) : bool := match f with FNil => true | _ => false end.

Definition is_none {A} (o : option A) : bool := match o with None => true | Some _ => false end.

(* Node::new(name) *)
Definition node_new (nm : cname) : node := Node nm None FNil.

(* node.rs get_or_create_descendant(self, name, level) followed by
   [node.data.replace(entry)] on the returned &mut (catalog.rs insert) *)
Fixpoint insert_desc (n : node) (nm : cname) (level : nat) (e : entry)
  : res unit (node * option entry) :=
  match level with
  | O => match n with Node nn d ch => Ok (Node nn (Some e) ch, d) end
  | S l' =>
    match name_index nm l' with                 (* name[level - 1] *)
    | None => Panic
    | Some lab =>
      let k := lower_label lab in
      match n with
      | Node nn d ch =>
        let* c := match f_get k ch with
                  | Some c => Ok c
                  | None => match superdomain nm l' with   (* .unwrap() *)
                            | Some s => Ok (node_new s)
                            | None => Panic
                            end
                  end in
        let* (c', old) := insert_desc c nm l' e in
        Ok (Node nn d (f_set k c' ch), old)
      end
    end
  end.

(* catalog.rs lookup_in_class *)
Fixpoint lookup_in_class (n : node) (nm : cname) (level : nat) : res unit (option entry) :=
  match level with
  | O => Ok (node_data n)
  | S l' =>
    match name_index nm l' with
    | None => Panic
    | Some lab =>
      let* longer := match f_get (lower_label lab) (node_children n) with
                     | Some sub => lookup_in_class sub nm l'
                     | None => Ok None
                     end in
      Ok (match longer with Some e => Some e | None => node_data n end)
    end
  end.

(* catalog.rs remove_in_class.  [fixed = true] is the code after the fix: commit
   (the parent is pruned only if it has no children AND no entry of its own);
   [fixed = false] is the pinned code, kept for the regression witness. *)
Fixpoint remove_in_class_gen (fixed : bool) (n : node) (nm : cname) (level : nat)
  : res unit (node * option entry * bool) :=
  match level with
  | O => match n with Node nn d ch => Ok (Node nn None ch, d, f_is_empty ch) end
  | S l' =>
    match name_index nm l' with
    | None => Panic
    | Some lab =>
      let k := lower_label lab in
      match n with
      | Node nn d ch =>
        match f_get k ch with
        | Some sub =>
          let* (r, rm) := remove_in_class_gen fixed sub nm l' in
          let (sub', entry) := r in
          if rm then
            let ch' := f_remove k ch in
            Ok (Node nn d ch', entry, f_is_empty ch' && (if fixed then is_none d else true))
          else Ok (Node nn d (f_set k sub' ch), entry, false)
        | None => Ok (n, None, false)
        end
      end
    end
  end.
Definition remove_in_class := remove_in_class_gen true.

(* Node::iter(): pre-order listing of (name, data) (the Rust iterator is an explicit
   DFS state machine over hash_map::Values; the order is the unspecified hash order
   and is never compared) *)
Fixpoint node_iter (n : node) : list (cname * option entry) :=
  match n with
  | Node nn d ch => (nn, d) :: forest_iter ch
  end
with forest_iter (f : forest) : list (cname * option entry) :=
  match f with
  | FNil => []
  | FCons _ c r => node_iter c ++ forest_iter r
  end.

(* ---- HashMapTreeCatalog ------------------------------------------------------- *)

(* roots_by_class: HashMap<Class, Node> *)
Definition catalog := list (N * node).

Fixpoint al_get (k : N) (c : catalog) : option node :=
  match c with
  | [] => None
  | (k', n) :: r => if N.eq_dec k k' then Some n else al_get k r
  end.
Fixpoint al_set (k : N) (n : node) (c : catalog) : catalog :=
  match c with
  | [] => [(k, n)]
  | (k', n') :: r => if N.eq_dec k k' then (k', n) :: r else (k', n') :: al_set k n r
  end.
Fixpoint al_remove (k : N) (c : catalog) : catalog :=
  match c with
  | [] => []
  | (k', n') :: r => if N.eq_dec k k' then al_remove k r else (k', n') :: al_remove k r
  end.

Definition cat_new : catalog := [].

Definition cat_insert (c : catalog) (e : entry) : res unit (catalog * option entry) :=
  let root := match al_get (e_class e) c with
              | Some r => r
              | None => node_new []            (* Name::root().to_owned() *)
              end in
  match usub (name_len (e_name e)) 1 with
  | None => Panic
  | Some level =>
    let* (root', old) := insert_desc root (e_name e) level e in
    Ok (al_set (e_class e) root' c, old)
  end.

Definition cat_remove_gen (fixed : bool) (c : catalog) (nm : cname) (cls : N)
  : res unit (catalog * option entry) :=
  match al_get cls c with
  | Some root =>
    match usub (name_len nm) 1 with
    | None => Panic
    | Some level =>
      let* (r, rm) := remove_in_class_gen fixed root nm level in
      let (root', entry) := r in
      Ok (if rm then al_remove cls c else al_set cls root' c, entry)
    end
  | None => Ok (c, None)
  end.
Definition cat_remove := cat_remove_gen true.

Definition cat_lookup (c : catalog) (nm : cname) (cls : N) : res unit (option entry) :=
  match al_get cls c with
  | None => Ok None
  | Some root =>
    match usub (name_len nm) 1 with
    | None => Panic
    | Some level => lookup_in_class root nm level
    end
  end.

(* Catalog::get default implementation (HashMapTreeCatalog does not override it) *)
Definition cat_get (c : catalog) (nm : cname) (cls : N) : res unit (option entry) :=
  let* r := cat_lookup c nm cls in
  Ok (match r with
      | Some e => if name_len (e_name e) =? name_len nm then Some e else None
      | None => None
      end).

Fixpoint filter_data (l : list (cname * option entry)) : list entry :=
  match l with
  | [] => []
  | (_, Some e) :: r => e :: filter_data r
  | (_, None) :: r => filter_data r
  end.

Definition cat_iter (c : catalog) : list entry :=
  flat_map (fun kr => filter_data (node_iter (snd kr))) c.

(* ---- SingleZoneCatalog --------------------------------------------------------- *)

(* labels of a name, root label included, as Name::labels() yields them *)
Definition all_labels (nm : cname) : list clabel := nm ++ [[]].

Fixpoint zip_all_eq (a b : list clabel) : bool :=
  match a, b with
  | x :: a', y :: b' => label_eq_ci x y && zip_all_eq a' b'
  | _, _ => true
  end.

(* Name::eq_or_subdomain_of *)
Definition eq_or_subdomain_of (self other : cname) : bool :=
  (name_len other <=? name_len self)
  && zip_all_eq (rev (all_labels self)) (rev (all_labels other)).
(* PartialEq for Name *)
Definition name_eq (a b : cname) : bool :=
  (name_len a =? name_len b) && zip_all_eq (all_labels a) (all_labels b).

Definition single_lookup (e : entry) (nm : cname) (cls : N) : option entry :=
  if (e_class e =? cls)%N && eq_or_subdomain_of nm (e_name e) then Some e else None.
Definition single_get (e : entry) (nm : cname) (cls : N) : option entry :=
  if (e_class e =? cls)%N && name_eq nm (e_name e) then Some e else None.

(* ---- histories (what the correspondence harness replays) ----------------------- *)

Inductive cat_op :=
| OpInsert (e : entry)
| OpRemove (nm : cname) (cls : N)
| OpLookup (nm : cname) (cls : N)
| OpGet (nm : cname) (cls : N)
| OpIter.

Inductive cat_out :=
| OutEntry (o : option entry)
| OutIter (l : list entry).

Definition cat_step_gen (fixed : bool) (c : catalog) (o : cat_op) : res unit (catalog * cat_out) :=
  match o with
  | OpInsert e => let* (c', old) := cat_insert c e in Ok (c', OutEntry old)
  | OpRemove nm cls => let* (c', old) := cat_remove_gen fixed c nm cls in Ok (c', OutEntry old)
  | OpLookup nm cls => let* r := cat_lookup c nm cls in Ok (c, OutEntry r)
  | OpGet nm cls => let* r := cat_get c nm cls in Ok (c, OutEntry r)
  | OpIter => Ok (c, OutIter (cat_iter c))
  end.
Definition cat_step := cat_step_gen true.

Fixpoint cat_run_gen (fixed : bool) (c : catalog) (h : list cat_op) : res unit (catalog * list cat_out) :=
  match h with
  | [] => Ok (c, [])
  | o :: h' =>
    let* (c1, x) := cat_step_gen fixed c o in
    let* (c2, xs) := cat_run_gen fixed c1 h' in
    Ok (c2, x :: xs)
  end.
Definition cat_run := cat_run_gen true.

End Cat.

Arguments mkEntry {V}.
Arguments e_name {V}.
Arguments e_class {V}.
Arguments e_val {V}.
Arguments Node {V}.
Arguments FNil {V}.
Arguments FCons {V}.
Arguments node_name {V}.
Arguments node_data {V}.
Arguments node_children {V}.
Arguments f_get {V}.
Arguments f_set {V}.
Arguments f_remove {V}.
Arguments f_is_empty {V}.
Arguments node_new {V}.
Arguments insert_desc {V}.
Arguments lookup_in_class {V}.
Arguments remove_in_class_gen {V}.
Arguments remove_in_class {V}.
Arguments node_iter {V}.
Arguments forest_iter {V}.
Arguments al_get {V}.
Arguments al_set {V}.
Arguments al_remove {V}.
Arguments cat_new {V}.
Arguments cat_insert {V}.
Arguments cat_remove_gen {V}.
Arguments cat_remove {V}.
Arguments cat_lookup {V}.
Arguments cat_get {V}.
Arguments filter_data {V}.
Arguments cat_iter {V}.
Arguments single_lookup {V}.
Arguments single_get {V}.
Arguments OpInsert {V}.
Arguments OpRemove {V}.
Arguments OpLookup {V}.
Arguments OpGet {V}.
Arguments OpIter {V}.
Arguments OutEntry {V}.
Arguments OutIter {V}.
Arguments cat_step_gen {V}.
Arguments cat_step {V}.
Arguments cat_run_gen {V}.
Arguments cat_run {V}.
