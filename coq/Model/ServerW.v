(* The server model composed with the octet-level response side (C01 / C02 composition).
   Request side: Model/Server.v (prescan: Reader, name parsing, OPT/TSIG validation, EDNS
   negotiation, TSIG verification as a parameter; then the opcode / QTYPE / catalog dispatch).
   Response side, for a clean QUERY without TSIG whose catalog entry is a Loaded zone: the query
   model (Model/Query.v) driving the Writer model (Model/MsgWriter.v) through Model/QueryW.v
   (prepare_w, handle_non_axfr_query, finish) with the id / RD / question / EDNS size / limit the
   request side computed — the response is OCTETS.  Likewise the NOTIMP / REFUSED / SERVFAIL answers
   to a clean QUERY without TSIG (QueryW.respond_plain: prepare_w, set_rcode, finish).  Everything
   else (responses decided by the pre-scan, responses with a TSIG, a QUERY without question) keeps the
   abstract response of Model/Server.v.  The dispatch is the one of Server.handle_query, repeated here so that a panic
   of the response side (respond_w = None) is a Panic of the composed model.  No proofs here.

   [zones]: the zone behind a Loaded catalog entry.  [answer]: query answering when the request
   carried a TSIG that verified (the Writer model has no signing TSIG mode: that path stays
   abstract).  [verify]: HMAC verification. *)
From QV Require Export Model.Server.
From QV Require Import Model.ZoneTree Model.Query Model.QueryW.

Inductive wresp := RAbs (w : resp) | ROctets (len : nat) (b : bytes).

Definition is_tcp (t : transport) : bool := match t with Tcp => true | Udp => false end.

(* set_rcode(rc) on a clean QUERY: octets when there is no TSIG *)
Definition plain_w (cfg : config) (buf : bytes) (w : resp) (q : question) (rc : N) : res reader_err wresp :=
  match Server.w_tsig w with
  | Some _ => Ok (RAbs (Server.set_rcode w rc))
  | None =>
    match respond_plain buf (is_tcp (c_transport cfg)) (Server.w_id w) (Server.w_rd w) (labels_of (Reader.q_name q))
            (Reader.q_type q) (Reader.q_class q) (option_map fst (Server.w_edns w)) (Server.w_limit w) rc with
    | Some (len, b) => Ok (ROctets len b)
    | None => Panic
    end
  end.

Definition handle_query_w (zones : nat -> option zone) (negttl : N -> N -> N) (answer : answer_fn)
    (cfg : config) (buf : bytes) (w : resp) : res reader_err wresp :=
  match Server.w_question w with
  | None => Ok (RAbs (Server.set_rcode w RC_FORMERR))
  | Some q =>
    if existsb (N.eqb (Reader.q_type q)) [QTYPE_IXFR; QTYPE_AXFR; QTYPE_MAILB; QTYPE_MAILA]
    then plain_w cfg buf w q RC_NOTIMP
    else if (Reader.q_class q =? QCLASS_ANY)%N then plain_w cfg buf w q RC_NOTIMP
    else match cat_lookup (c_catalog cfg) (name_key (Reader.q_name q)) (Reader.q_class q) None with
         | None => plain_w cfg buf w q RC_REFUSED
         | Some e =>
           match e_kind e with
           | ELoaded zid =>
             match Server.w_tsig w with
             | Some _ =>
               Ok (RAbs (apply_body w (answer zid q (c_transport cfg) (Server.w_avail w - Server.w_cursor w))))
             | None =>
               match zones zid with
               | None => Panic                (* a Loaded entry always has its zone *)
               | Some z =>
                 match respond_w negttl buf (is_tcp (c_transport cfg)) (Server.w_id w) (Server.w_rd w)
                         (labels_of (Reader.q_name q)) (Reader.q_type q) (Reader.q_class q)
                         (option_map fst (Server.w_edns w)) (Server.w_limit w) z with
                 | Some (len, b) => Ok (ROctets len b)
                 | None => Panic              (* a Writer step failed unexpectedly or panicked *)
                 end
               end
             end
           | ENotYetLoaded | EFailedToLoad => plain_w cfg buf w q RC_SERVFAIL
           end
         end
  end.

(* Ok (Some r): a response is sent; Ok None: no response *)
Definition handle_message_w (zones : nat -> option zone) (negttl : N -> N -> N) (answer : answer_fn)
    (verify : tsig_verifier) (cfg : config) (buf : bytes) (req : bytes) : res reader_err (option wresp) :=
  let* p := prescan verify cfg req in
  match p with
  | PNone => Ok None
  | PEarly w => Ok (Some (RAbs w))
  | PClean opc w =>
    if (opc =? OPCODE_QUERY)%N then
      let* r := handle_query_w zones negttl answer cfg buf w in Ok (Some r)
    else Ok (Some (RAbs (Server.set_rcode w RC_NOTIMP)))
  end.
