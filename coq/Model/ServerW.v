(* The server model composed with the octet-level response side (C01 / C02 composition).
   Request side: Model/Server.v (prescan: Reader, name parsing, OPT/TSIG validation, EDNS
   negotiation, TSIG verification as a parameter; then the opcode / QTYPE / catalog dispatch).
   Response side, for a clean QUERY without TSIG whose catalog entry is a Loaded zone: the query
   model (Model/Query.v) driving the Writer model (Model/MsgWriter.v) through Model/QueryW.v
   (prepare_w, handle_non_axfr_query, finish) with the id / RD / question / EDNS size / limit the
   request side computed — the response is OCTETS.  Likewise the NOTIMP / REFUSED / SERVFAIL answers
   to a clean QUERY without TSIG (QueryW.respond_plain: prepare_w, set_rcode, finish).  Every other
   response WITHOUT TSIG (those the pre-scan decides: FORMERR, BADVERS, SERVFAIL, TC after a failed TSIG
   reservation; NOTIMP for other opcodes; a QUERY without question) is materialised by [serialize_resp]:
   the Writer calls that write the header fields, the echoed question and the EDNS settings the abstract
   response records, then finish.  Responses WITH a TSIG keep the abstract response of Model/Server.v.  The dispatch is the one of Server.handle_query, repeated here so that a panic
   of the response side (respond_w = None) is a Panic of the composed model.  No proofs here.

   [zones]: the zone behind a Loaded catalog entry.  [answer]: query answering when the request
   carried a TSIG that verified (the Writer model has no signing TSIG mode: that path stays
   abstract).  [verify]: HMAC verification. *)
From QV Require Export Model.Server.
From QV Require Import Model.MsgWriter Model.ZoneTree Model.Query Model.QueryW.

Inductive wresp := RAbs (w : resp) | ROctets (len : nat) (b : bytes).

(* The octets an abstract response without TSIG and without records denotes: Writer::new, the header
   setters, add_question, set_edns (+ the negotiated limit over UDP), the (extended) RCODE, finish.
   Fields wider than their wire format are reduced (mod): the request side never produces such values,
   and the correspondence run would show it.  None: a step failed or panicked. *)
Definition ser_prepare (buf : bytes) (tcp : bool) (w : resp) : option writer :=
  match writer_new buf (if tcp then tcp_limit_w else udp_limit_w) with
  | Ok w0 =>
    match (let* w1 := set_id (Server.w_id w mod 65536) w0 in let* w2 := set_qr true w1 in
           let* w3 := set_opcode (Server.w_opcode w mod 16) w2 in let* w4 := set_rd (Server.w_rd w) w3 in
           let* w5 := set_aa (Server.w_aa w) w4 in set_tc (Server.w_tc w) w5) with
    | Ok w6 =>
      match (match Server.w_question w with
             | Some q => add_question (labels_of (Reader.q_name q)) (Reader.q_type q) (Reader.q_class q) w6
             | None => Ok (tt, w6)
             end) with
      | Ok (_, w7) =>
        match Server.w_edns w with
        | None => match MsgWriter.set_rcode (Server.w_rcode w mod 16) w7 with Ok w8 => Some w8 | _ => None end
        | Some (size, upper) =>
          match MsgWriter.set_edns (size mod 65536) w7 with
          | Ok (_, w8) =>
            match (if tcp then Ok w8 else MsgWriter.set_limit (Server.w_limit w) w8) with
            | Ok w9 =>
              match MsgWriter.set_extended_rcode ((upper mod 256) * 16 + Server.w_rcode w mod 16) w9 with
              | Ok (_, w10) => Some w10
              | _ => None
              end
            | _ => None
            end
          | _ => None
          end
        end
      | _ => None
      end
    | _ => None
    end
  | _ => None
  end.

Definition serialize_resp (buf : bytes) (tcp : bool) (w : resp) : option (nat * bytes) :=
  match ser_prepare buf tcp w with
  | Some w' => match finish w' with Ok r => Some r | _ => None end
  | None => None
  end.

Definition is_tcp (t : transport) : bool := match t with Tcp => true | Udp => false end.

(* an abstract response as the composed model returns it: octets unless it carries a TSIG *)
Definition abs_w (cfg : config) (buf : bytes) (w : resp) : res reader_err wresp :=
  match Server.w_tsig w with
  | Some _ => Ok (RAbs w)
  | None =>
    match serialize_resp buf (is_tcp (c_transport cfg)) w with
    | Some (len, b) => Ok (ROctets len b)
    | None => Panic
    end
  end.

(* set_rcode(rc) on a clean QUERY: octets when there is no TSIG *)
Definition plain_w (cfg : config) (buf : bytes) (w : resp) (q : question) (rc : N) : res reader_err wresp :=
  match Server.w_tsig w with
  | Some _ => Ok (RAbs (Server.set_rcode w rc))
  | None =>
    match respond_plain buf (is_tcp (c_transport cfg)) (Server.w_id w) (Server.w_rd w) (labels_of (Reader.q_name q))
            (Reader.q_type q) (Reader.q_class q) (option_map fst (Server.w_edns w)) (Server.w_limit w) rc with
    | Some (len, b) => Ok (ROctets len b)
    | None => Panic
    end
  end.

Definition handle_query_w (zones : nat -> option zone) (negttl : N -> N -> N) (answer : answer_fn)
    (cfg : config) (buf : bytes) (w : resp) : res reader_err wresp :=
  match Server.w_question w with
  | None => abs_w cfg buf (Server.set_rcode w RC_FORMERR)
  | Some q =>
    if existsb (N.eqb (Reader.q_type q)) [QTYPE_IXFR; QTYPE_AXFR; QTYPE_MAILB; QTYPE_MAILA]
    then plain_w cfg buf w q RC_NOTIMP
    else if (Reader.q_class q =? QCLASS_ANY)%N then plain_w cfg buf w q RC_NOTIMP
    else match cat_lookup (c_catalog cfg) (name_key (Reader.q_name q)) (Reader.q_class q) None with
         | None => plain_w cfg buf w q RC_REFUSED
         | Some e =>
           match e_kind e with
           | ELoaded zid =>
             match Server.w_tsig w with
             | Some _ =>
               Ok (RAbs (apply_body w (answer zid q (c_transport cfg) (Server.w_avail w - Server.w_cursor w))))
             | None =>
               match zones zid with
               | None => Panic                (* a Loaded entry always has its zone *)
               | Some z =>
                 match respond_w negttl buf (is_tcp (c_transport cfg)) (Server.w_id w) (Server.w_rd w)
                         (labels_of (Reader.q_name q)) (Reader.q_type q) (Reader.q_class q)
                         (option_map fst (Server.w_edns w)) (Server.w_limit w) z with
                 | Some (len, b) => Ok (ROctets len b)
                 | None => Panic              (* a Writer step failed unexpectedly or panicked *)
                 end
               end
             end
           | ENotYetLoaded | EFailedToLoad => plain_w cfg buf w q RC_SERVFAIL
           end
         end
  end.

(* Ok (Some r): a response is sent; Ok None: no response *)
Definition handle_message_w (zones : nat -> option zone) (negttl : N -> N -> N) (answer : answer_fn)
    (verify : tsig_verifier) (cfg : config) (buf : bytes) (req : bytes) : res reader_err (option wresp) :=
  let* p := prescan verify cfg req in
  match p with
  | PNone => Ok None
  | PEarly w => let* r := abs_w cfg buf w in Ok (Some r)
  | PClean opc w =>
    if (opc =? OPCODE_QUERY)%N then
      let* r := handle_query_w zones negttl answer cfg buf w in Ok (Some r)
    else let* r := abs_w cfg buf (Server.set_rcode w RC_NOTIMP) in Ok (Some r)
  end.
