(* Model of the text form, comparison and construction of names:
   src/name/mod.rs (Display, FromStr/parse_escape, PartialEq/Ord/Hash, eq_or_subdomain_of, superdomain,
   Index<usize>, labels(), make_ascii_lowercase, is_root/is_wildcard, wire_repr_to/from),
   src/name/label.rs (Display, PartialEq/Ord/Hash of Label, TryFrom<&[u8]>),
   src/name/builder.rs (NameBuilder) and src/name/lowercase.rs (LowercaseName).
   A [name] is the record of Model/NameWire.v (label offsets + uncompressed wire form);
   [label_at] is Index<usize>.  Every index/slice/push/u8 arithmetic that can fail in the Rust
   code is a [Panic] branch.  Text is the list of octets of the &str.
   Iterator pipelines (zip/all/find_map over labels()) are evaluated on the eagerly collected
   label list [labels]; this can only add panics for ill-formed [name] values, which the Rust
   module never constructs (Proofs show no panic for well-formed names). *)
From QV Require Export Base.Res Base.Octets Gen.Consts Model.NameWire Model.DecU16.

Definition name_len (nm : name) : nat := length (n_offsets nm).

Fixpoint mapM {E A B} (f : A -> res E B) (l : list A) : res E (list B) :=
  match l with
  | [] => Ok []
  | x :: r => let* y := f x in let* ys := mapM f r in Ok (y :: ys)
  end.

(* name.labels() collected front to back *)
Definition labels (nm : name) : res name_err (list bytes) :=
  mapM (label_at nm) (seq 0 (name_len nm)).

Definition root_name : name := mkName [0%N] [0%N].

(* ---- Display (label.rs:172, mod.rs:394) ----------------------------------------------- *)

Definition is_ascii_graphic (b : N) : bool := ((33 <=? b) && (b <=? 126))%N.

(* write!(f, "\\{:03}", octet) *)
Definition dec3 (b : N) : bytes := [48 + b / 100; 48 + (b / 10) mod 10; 48 + b mod 10]%N.

Definition label_octet_text (b : N) : bytes :=
  if (b =? 46)%N then [92; 46]%N
  else if (b =? 92)%N then [92; 92]%N
  else if is_ascii_graphic b then [b]
  else 92%N :: dec3 b.

Definition label_to_text (l : bytes) : bytes := flat_map label_octet_text l.

Definition name_to_text (nm : name) : res name_err bytes :=
  if name_len nm <=? 1 then Ok [46%N]
  else
    let* ls := labels nm in
    match ls with
    | [] => Panic                                          (* labels.next().unwrap() *)
    | l0 :: rest => Ok (label_to_text l0 ++ flat_map (fun l => 46%N :: label_to_text l) rest)
    end.

(* ---- NameBuilder (builder.rs) ------------------------------------------------------------- *)

Record builder := mkB { b_wire : bytes; b_offsets : list N; b_label_start : nat; b_label_len : N }.

Definition builder_new : builder := mkB [0%N] [0%N] 0 0%N.

Definition is_fully_qualified (b : builder) : bool := (b_label_len b =? 0)%N.

(* u8 `+` under overflow checks *)
Definition u8_add (a c : N) : option N := if (255 <? a + c)%N then None else Some (a + c)%N.

Definition try_push (b : builder) (octet : N) : res name_err builder :=
  if (max_label_len mod 256 <=? b_label_len b)%N then Err LabelTooLong      (* label_len >= MAX_LABEL_LEN as u8 *)
  else if length (b_wire b) <? max_wire_len then                           (* ArrayVec::try_push *)
    match u8_add (b_label_len b) 1 with
    | None => Panic
    | Some l => Ok (mkB (b_wire b ++ [octet]) (b_offsets b) (b_label_start b) l)
    end
  else Err NameTooLong.

Definition try_push_slice (b : builder) (octets : bytes) : res name_err builder :=
  if N.to_nat max_label_len <? N.to_nat (b_label_len b) + length octets then Err LabelTooLong
  else match try_extend (b_wire b) octets with                               (* try_extend_from_slice *)
       | Some w =>
         match u8_add (b_label_len b) (N.of_nat (length octets) mod 256) with
         | None => Panic
         | Some l => Ok (mkB w (b_offsets b) (b_label_start b) l)
         end
       | None => Err NameTooLong
       end.

(* l[i] = x, panics when i is out of range *)
Definition set_nth {A} (l : list A) (i : nat) (x : A) : option (list A) :=
  if i <? length l then Some (firstn i l ++ x :: skipn (S i) l) else None.

(* self.wire_repr[self.label_start] = self.label_len *)
Definition update_label_len (b : builder) : option bytes := set_nth (b_wire b) (b_label_start b) (b_label_len b).

Definition next_label (b : builder) : res name_err builder :=
  if is_fully_qualified b then Err NullNonTerminal
  else if max_wire_len <=? length (b_wire b) then Err NameTooLong            (* wire_repr.is_full() *)
  else match update_label_len b with
       | None => Panic
       | Some w =>
         let start := length w in
         (* wire_repr.push(0) cannot fail here (checked above); label_offsets.push(label_start as u8) *)
         match push_offset (b_offsets b) start with
         | None => Panic
         | Some offs => Ok (mkB (w ++ [0%N]) offs start 0%N)
         end
       end.

Definition finish (b : builder) : res name_err name :=
  if is_fully_qualified b then Ok (mkName (b_offsets b) (b_wire b)) else Err NonNullTerminal.

(* the two loops of finish_with_suffix *)
Fixpoint push_suffix_labels (w : bytes) (ls : list bytes) : res name_err bytes :=
  match ls with
  | [] => Ok w
  | l :: r =>
    if length w <? max_wire_len then                                        (* try_push(label.len() as u8) *)
      match try_extend (w ++ [(N.of_nat (length l) mod 256)%N]) l with
      | Some w' => push_suffix_labels w' r
      | None => Err NameTooLong
      end
    else Err NameTooLong
  end.

Fixpoint push_suffix_offsets (offs : list N) (base : N) (sufs : list N) : option (list N) :=
  match sufs with
  | [] => Some offs
  | o :: r =>
    match u8_add o base with                                               (* *offset + label_offset_base *)
    | None => None
    | Some x => if max_n_labels <=? length offs then None else push_suffix_offsets (offs ++ [x]) base r
    end
  end.

Definition finish_with_suffix (b : builder) (suffix : name) : res name_err name :=
  if is_fully_qualified b then Err NullNonTerminal
  else match update_label_len b with
       | None => Panic
       | Some w =>
         let base := (N.of_nat (length w) mod 256)%N in
         let* ls := labels suffix in
         let* w' := push_suffix_labels w ls in
         match push_suffix_offsets (b_offsets b) base (n_offsets suffix) with
         | None => Panic
         | Some offs => Ok (mkName offs w')
         end
       end.

(* ---- FromStr for Box<Name> (mod.rs:633) ---------------------------------------------------- *)

Definition parse_escape (rem : bytes) : res name_err (N * nat) :=
  match rem with
  | [] => Err InvalidEscape
  | c0 :: r =>
    if is_dec_digit c0 then
      match r with
      | c1 :: c2 :: _ =>
        if is_dec_digit c1 && is_dec_digit c2 then
          let value := (100 * (c0 - 48) + 10 * (c1 - 48) + (c2 - 48))%N in
          if (255 <? value)%N then Err InvalidEscape else Ok ((value mod 256)%N, 3)
        else Err InvalidEscape
      | _ => Err InvalidEscape                                             (* remaining_octets.len() < 3 *)
      end
    else Ok (c0, 1)
  end.

Fixpoint from_str_loop (fuel : nat) (rem : bytes) (b : builder) : res name_err name :=
  match fuel with
  | O => Err OutOfFuel
  | S f =>
    match rem with
    | [] => finish b
    | octet :: rest =>
      if (octet =? 92)%N then
        let* (value, consumed) := parse_escape rest in
        let* b' := try_push b value in
        if length rem <? consumed + 1 then Panic                           (* &remaining_octets[consumed + 1..] *)
        else from_str_loop f (skipn (consumed + 1) rem) b'
      else if (octet =? 46)%N then
        let* b' := next_label b in from_str_loop f rest b'
      else if (128 <=? octet)%N then Err StrNotAscii
      else let* b' := try_push b octet in from_str_loop f rest b'
    end
  end.

Definition name_from_str (s : bytes) : res name_err name :=
  match s with
  | [] => Err StrEmpty                                                     (* s.is_empty() *)
  | c :: r =>
    if (c =? 46)%N && is_nil r then Ok root_name                           (* s == "." : Name::root().to_owned() *)
    else from_str_loop (S (length s)) s builder_new
  end.

(* ---- Label: TryFrom<&[u8]>, PartialEq, Ord, Hash (label.rs) -------------------------------- *)

Definition label_try_from (octets : bytes) : res name_err bytes :=
  if N.to_nat max_label_len <? length octets then Err LabelTooLong else Ok octets.

Definition label_eq (a b : bytes) : bool := eq_nocase a b.

(* zip(..).find_map(first non-Equal comparison of lower-cased octets) *)
Fixpoint octets_find_cmp (a b : bytes) : option comparison :=
  match a, b with
  | x :: a', y :: b' =>
    match N.compare (lower x) (lower y) with
    | Eq => octets_find_cmp a' b'
    | c => Some c
    end
  | _, _ => None
  end.

Definition label_cmp (a b : bytes) : comparison :=
  match octets_find_cmp a b with
  | Some c => c
  | None => Nat.compare (length a) (length b)
  end.

(* state.write_u8(len as u8); then every lower-cased octet *)
Definition label_hash_stream (l : bytes) : bytes := (N.of_nat (length l) mod 256)%N :: map lower l.

(* ---- Name: PartialEq, Ord, Hash, eq_or_subdomain_of (mod.rs) -------------------------------- *)

Fixpoint zip_all {A} (f : A -> A -> bool) (a b : list A) : bool :=
  match a, b with
  | x :: a', y :: b' => f x y && zip_all f a' b'
  | _, _ => true
  end.

Definition name_eq (a b : name) : res name_err bool :=
  let* la := labels a in
  let* lb := labels b in
  Ok ((name_len a =? name_len b) && zip_all label_eq la lb).

Fixpoint labels_find_cmp (a b : list bytes) : option comparison :=
  match a, b with
  | x :: a', y :: b' =>
    match label_cmp x y with
    | Eq => labels_find_cmp a' b'
    | c => Some c
    end
  | _, _ => None
  end.

Definition name_cmp (a b : name) : res name_err comparison :=
  let* la := labels a in
  let* lb := labels b in
  Ok (match labels_find_cmp (rev la) (rev lb) with
      | Some c => c
      | None => Nat.compare (name_len a) (name_len b)
      end).

Definition name_hash_stream (nm : name) : res name_err bytes :=
  let* ls := labels nm in Ok (flat_map label_hash_stream ls).

Definition eq_or_subdomain_of (a b : name) : res name_err bool :=
  let* la := labels a in
  let* lb := labels b in
  Ok ((name_len b <=? name_len a) && zip_all label_eq (rev la) (rev lb)).

Definition is_root (nm : name) : bool := name_len nm =? 1.

Definition is_wildcard (nm : name) : res name_err bool :=
  let* l := label_at nm 0 in Ok (label_eq l [42%N]).

(* ---- superdomain, wire_repr_to/from, make_ascii_lowercase ------------------------------------ *)

Definition superdomain (nm : name) (skip : nat) : res name_err (option name) :=
  if skip <? name_len nm then
    match nth_error (n_offsets nm) skip with
    | None => Panic
    | Some start =>
      let start := N.to_nat start in
      if length (n_wire nm) <? start then Panic                              (* &wire_repr()[start..] *)
      else
        let orig := skipn skip (n_offsets nm) in
        match orig with
        | [] => Panic                                                        (* original_label_offsets[0] *)
        | o0 :: _ =>
          (* offset - original_label_offsets[0] on u8, collected into an ArrayVec<u8, MAX_N_LABELS> *)
          let* offs := mapM (fun o => if (o <? o0)%N then Panic else Ok (o - o0)%N) orig in
          if max_n_labels <? length offs then Panic
          else Ok (Some (mkName offs (skipn start (n_wire nm))))
        end
    end
  else Ok None.

Definition label_offset (nm : name) (n : nat) : res name_err nat :=
  match nth_error (n_offsets nm) n with
  | None => Panic
  | Some o => Ok (N.to_nat o)
  end.

Definition wire_repr_to (nm : name) (n : nat) : res name_err bytes :=
  if n =? name_len nm then Ok (n_wire nm)
  else let* o := label_offset nm n in
       if length (n_wire nm) <? o then Panic else Ok (firstn o (n_wire nm)).

Definition wire_repr_from (nm : name) (n : nat) : res name_err bytes :=
  if n =? name_len nm then Ok []
  else let* o := label_offset nm n in
       if length (n_wire nm) <? o then Panic else Ok (skipn o (n_wire nm)).

(* for i in 0..self.len() { self[i].octets_mut().make_ascii_lowercase() } *)
Fixpoint lowercase_loop (offs : list N) (wire : bytes) : res name_err bytes :=
  match offs with
  | [] => Ok wire
  | off :: r =>
    let off := N.to_nat off in
    match nth_error wire off with
    | None => Panic
    | Some len =>
      let s := off + 1 in
      let e := s + N.to_nat len in
      if length wire <? e then Panic
      else lowercase_loop r (firstn s wire ++ map lower (slice wire s e) ++ skipn e wire)
    end
  end.

Definition make_ascii_lowercase (nm : name) : res name_err name :=
  let* w := lowercase_loop (n_offsets nm) (n_wire nm) in Ok (mkName (n_offsets nm) w).

(* lowercase.rs: Box<LowercaseName>::from(Box<Name>) and FromStr *)
Definition lowercase_name_from (nm : name) : res name_err name := make_ascii_lowercase nm.
Definition lowercase_name_from_str (s : bytes) : res name_err name :=
  let* nm := name_from_str s in make_ascii_lowercase nm.
