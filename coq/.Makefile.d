Base/ListX.vo Base/ListX.glob Base/ListX.v.beautified Base/ListX.required_vo: Base/ListX.v Base/Res.vo Base/Octets.vo
Base/ListX.vio: Base/ListX.v Base/Res.vio Base/Octets.vio
Base/ListX.vos Base/ListX.vok Base/ListX.required_vos: Base/ListX.v Base/Res.vos Base/Octets.vos
Base/Octets.vo Base/Octets.glob Base/Octets.v.beautified Base/Octets.required_vo: Base/Octets.v Base/Res.vo
Base/Octets.vio: Base/Octets.v Base/Res.vio
Base/Octets.vos Base/Octets.vok Base/Octets.required_vos: Base/Octets.v Base/Res.vos
Base/Res.vo Base/Res.glob Base/Res.v.beautified Base/Res.required_vo: Base/Res.v 
Base/Res.vio: Base/Res.v 
Base/Res.vos Base/Res.vok Base/Res.required_vos: Base/Res.v 
Gen/Consts.vo Gen/Consts.glob Gen/Consts.v.beautified Gen/Consts.required_vo: Gen/Consts.v 
Gen/Consts.vio: Gen/Consts.v 
Gen/Consts.vos Gen/Consts.vok Gen/Consts.required_vos: Gen/Consts.v 
Model/NameWire.vo Model/NameWire.glob Model/NameWire.v.beautified Model/NameWire.required_vo: Model/NameWire.v Base/Res.vo Base/Octets.vo Gen/Consts.vo
Model/NameWire.vio: Model/NameWire.v Base/Res.vio Base/Octets.vio Gen/Consts.vio
Model/NameWire.vos Model/NameWire.vok Model/NameWire.required_vos: Model/NameWire.v Base/Res.vos Base/Octets.vos Gen/Consts.vos
Model/Pool.vo Model/Pool.glob Model/Pool.v.beautified Model/Pool.required_vo: Model/Pool.v 
Model/Pool.vio: Model/Pool.v 
Model/Pool.vos Model/Pool.vok Model/Pool.required_vos: Model/Pool.v 
Model/PoolTrace.vo Model/PoolTrace.glob Model/PoolTrace.v.beautified Model/PoolTrace.required_vo: Model/PoolTrace.v Model/Pool.vo
Model/PoolTrace.vio: Model/PoolTrace.v Model/Pool.vio
Model/PoolTrace.vos Model/PoolTrace.vok Model/PoolTrace.required_vos: Model/PoolTrace.v Model/Pool.vos
Proofs/NameWireP.vo Proofs/NameWireP.glob Proofs/NameWireP.v.beautified Proofs/NameWireP.required_vo: Proofs/NameWireP.v Base/ListX.vo Model/NameWire.vo Spec/NameWireS.vo Spec/NameRepr.vo
Proofs/NameWireP.vio: Proofs/NameWireP.v Base/ListX.vio Model/NameWire.vio Spec/NameWireS.vio Spec/NameRepr.vio
Proofs/NameWireP.vos Proofs/NameWireP.vok Proofs/NameWireP.required_vos: Proofs/NameWireP.v Base/ListX.vos Model/NameWire.vos Spec/NameWireS.vos Spec/NameRepr.vos
Proofs/NameWireSP.vo Proofs/NameWireSP.glob Proofs/NameWireSP.v.beautified Proofs/NameWireSP.required_vo: Proofs/NameWireSP.v Base/ListX.vo Spec/NameWireS.vo
Proofs/NameWireSP.vio: Proofs/NameWireSP.v Base/ListX.vio Spec/NameWireS.vio
Proofs/NameWireSP.vos Proofs/NameWireSP.vok Proofs/NameWireSP.required_vos: Proofs/NameWireSP.v Base/ListX.vos Spec/NameWireS.vos
Proofs/PoolInv.vo Proofs/PoolInv.glob Proofs/PoolInv.v.beautified Proofs/PoolInv.required_vo: Proofs/PoolInv.v Model/Pool.vo Spec/PoolS.vo Proofs/PoolLemmas.vo
Proofs/PoolInv.vio: Proofs/PoolInv.v Model/Pool.vio Spec/PoolS.vio Proofs/PoolLemmas.vio
Proofs/PoolInv.vos Proofs/PoolInv.vok Proofs/PoolInv.required_vos: Proofs/PoolInv.v Model/Pool.vos Spec/PoolS.vos Proofs/PoolLemmas.vos
Proofs/PoolLemmas.vo Proofs/PoolLemmas.glob Proofs/PoolLemmas.v.beautified Proofs/PoolLemmas.required_vo: Proofs/PoolLemmas.v Model/Pool.vo
Proofs/PoolLemmas.vio: Proofs/PoolLemmas.v Model/Pool.vio
Proofs/PoolLemmas.vos Proofs/PoolLemmas.vok Proofs/PoolLemmas.required_vos: Proofs/PoolLemmas.v Model/Pool.vos
Proofs/PoolMeasure.vo Proofs/PoolMeasure.glob Proofs/PoolMeasure.v.beautified Proofs/PoolMeasure.required_vo: Proofs/PoolMeasure.v Model/Pool.vo Spec/PoolS.vo Proofs/PoolLemmas.vo Proofs/PoolInv.vo Proofs/PoolP.vo
Proofs/PoolMeasure.vio: Proofs/PoolMeasure.v Model/Pool.vio Spec/PoolS.vio Proofs/PoolLemmas.vio Proofs/PoolInv.vio Proofs/PoolP.vio
Proofs/PoolMeasure.vos Proofs/PoolMeasure.vok Proofs/PoolMeasure.required_vos: Proofs/PoolMeasure.v Model/Pool.vos Spec/PoolS.vos Proofs/PoolLemmas.vos Proofs/PoolInv.vos Proofs/PoolP.vos
Proofs/PoolP.vo Proofs/PoolP.glob Proofs/PoolP.v.beautified Proofs/PoolP.required_vo: Proofs/PoolP.v Model/Pool.vo Spec/PoolS.vo Proofs/PoolLemmas.vo Proofs/PoolInv.vo Proofs/PoolStepA.vo Proofs/PoolStepB.vo Proofs/PoolStepC.vo Proofs/PoolStepD.vo Proofs/PoolStepE.vo
Proofs/PoolP.vio: Proofs/PoolP.v Model/Pool.vio Spec/PoolS.vio Proofs/PoolLemmas.vio Proofs/PoolInv.vio Proofs/PoolStepA.vio Proofs/PoolStepB.vio Proofs/PoolStepC.vio Proofs/PoolStepD.vio Proofs/PoolStepE.vio
Proofs/PoolP.vos Proofs/PoolP.vok Proofs/PoolP.required_vos: Proofs/PoolP.v Model/Pool.vos Spec/PoolS.vos Proofs/PoolLemmas.vos Proofs/PoolInv.vos Proofs/PoolStepA.vos Proofs/PoolStepB.vos Proofs/PoolStepC.vos Proofs/PoolStepD.vos Proofs/PoolStepE.vos
Proofs/PoolProgress.vo Proofs/PoolProgress.glob Proofs/PoolProgress.v.beautified Proofs/PoolProgress.required_vo: Proofs/PoolProgress.v Model/Pool.vo Spec/PoolS.vo Proofs/PoolLemmas.vo Proofs/PoolInv.vo Proofs/PoolP.vo
Proofs/PoolProgress.vio: Proofs/PoolProgress.v Model/Pool.vio Spec/PoolS.vio Proofs/PoolLemmas.vio Proofs/PoolInv.vio Proofs/PoolP.vio
Proofs/PoolProgress.vos Proofs/PoolProgress.vok Proofs/PoolProgress.required_vos: Proofs/PoolProgress.v Model/Pool.vos Spec/PoolS.vos Proofs/PoolLemmas.vos Proofs/PoolInv.vos Proofs/PoolP.vos
Proofs/PoolStepA.vo Proofs/PoolStepA.glob Proofs/PoolStepA.v.beautified Proofs/PoolStepA.required_vo: Proofs/PoolStepA.v Model/Pool.vo Proofs/PoolLemmas.vo Proofs/PoolInv.vo
Proofs/PoolStepA.vio: Proofs/PoolStepA.v Model/Pool.vio Proofs/PoolLemmas.vio Proofs/PoolInv.vio
Proofs/PoolStepA.vos Proofs/PoolStepA.vok Proofs/PoolStepA.required_vos: Proofs/PoolStepA.v Model/Pool.vos Proofs/PoolLemmas.vos Proofs/PoolInv.vos
Proofs/PoolStepB.vo Proofs/PoolStepB.glob Proofs/PoolStepB.v.beautified Proofs/PoolStepB.required_vo: Proofs/PoolStepB.v Model/Pool.vo Proofs/PoolLemmas.vo Proofs/PoolInv.vo
Proofs/PoolStepB.vio: Proofs/PoolStepB.v Model/Pool.vio Proofs/PoolLemmas.vio Proofs/PoolInv.vio
Proofs/PoolStepB.vos Proofs/PoolStepB.vok Proofs/PoolStepB.required_vos: Proofs/PoolStepB.v Model/Pool.vos Proofs/PoolLemmas.vos Proofs/PoolInv.vos
Proofs/PoolStepC.vo Proofs/PoolStepC.glob Proofs/PoolStepC.v.beautified Proofs/PoolStepC.required_vo: Proofs/PoolStepC.v Model/Pool.vo Proofs/PoolLemmas.vo Proofs/PoolInv.vo
Proofs/PoolStepC.vio: Proofs/PoolStepC.v Model/Pool.vio Proofs/PoolLemmas.vio Proofs/PoolInv.vio
Proofs/PoolStepC.vos Proofs/PoolStepC.vok Proofs/PoolStepC.required_vos: Proofs/PoolStepC.v Model/Pool.vos Proofs/PoolLemmas.vos Proofs/PoolInv.vos
Proofs/PoolStepD.vo Proofs/PoolStepD.glob Proofs/PoolStepD.v.beautified Proofs/PoolStepD.required_vo: Proofs/PoolStepD.v Model/Pool.vo Proofs/PoolLemmas.vo Proofs/PoolInv.vo
Proofs/PoolStepD.vio: Proofs/PoolStepD.v Model/Pool.vio Proofs/PoolLemmas.vio Proofs/PoolInv.vio
Proofs/PoolStepD.vos Proofs/PoolStepD.vok Proofs/PoolStepD.required_vos: Proofs/PoolStepD.v Model/Pool.vos Proofs/PoolLemmas.vos Proofs/PoolInv.vos
Proofs/PoolStepE.vo Proofs/PoolStepE.glob Proofs/PoolStepE.v.beautified Proofs/PoolStepE.required_vo: Proofs/PoolStepE.v Model/Pool.vo Proofs/PoolLemmas.vo Proofs/PoolInv.vo
Proofs/PoolStepE.vio: Proofs/PoolStepE.v Model/Pool.vio Proofs/PoolLemmas.vio Proofs/PoolInv.vio
Proofs/PoolStepE.vos Proofs/PoolStepE.vok Proofs/PoolStepE.required_vos: Proofs/PoolStepE.v Model/Pool.vos Proofs/PoolLemmas.vos Proofs/PoolInv.vos
Proofs/PoolTraceP.vo Proofs/PoolTraceP.glob Proofs/PoolTraceP.v.beautified Proofs/PoolTraceP.required_vo: Proofs/PoolTraceP.v Model/Pool.vo Model/PoolTrace.vo Spec/PoolS.vo Proofs/PoolP.vo
Proofs/PoolTraceP.vio: Proofs/PoolTraceP.v Model/Pool.vio Model/PoolTrace.vio Spec/PoolS.vio Proofs/PoolP.vio
Proofs/PoolTraceP.vos Proofs/PoolTraceP.vok Proofs/PoolTraceP.required_vos: Proofs/PoolTraceP.v Model/Pool.vos Model/PoolTrace.vos Spec/PoolS.vos Proofs/PoolP.vos
Proofs/PoolWitness.vo Proofs/PoolWitness.glob Proofs/PoolWitness.v.beautified Proofs/PoolWitness.required_vo: Proofs/PoolWitness.v Model/Pool.vo Spec/PoolS.vo
Proofs/PoolWitness.vio: Proofs/PoolWitness.v Model/Pool.vio Spec/PoolS.vio
Proofs/PoolWitness.vos Proofs/PoolWitness.vok Proofs/PoolWitness.required_vos: Proofs/PoolWitness.v Model/Pool.vos Spec/PoolS.vos
Props/C14.vo Props/C14.glob Props/C14.v.beautified Props/C14.required_vo: Props/C14.v Base/ListX.vo Model/NameWire.vo Spec/NameWireS.vo Spec/NameRepr.vo Proofs/NameWireP.vo Proofs/NameWireSP.vo
Props/C14.vio: Props/C14.v Base/ListX.vio Model/NameWire.vio Spec/NameWireS.vio Spec/NameRepr.vio Proofs/NameWireP.vio Proofs/NameWireSP.vio
Props/C14.vos Props/C14.vok Props/C14.required_vos: Props/C14.v Base/ListX.vos Model/NameWire.vos Spec/NameWireS.vos Spec/NameRepr.vos Proofs/NameWireP.vos Proofs/NameWireSP.vos
Props/C29.vo Props/C29.glob Props/C29.v.beautified Props/C29.required_vo: Props/C29.v Model/Pool.vo Model/PoolTrace.vo Spec/PoolS.vo Proofs/PoolLemmas.vo Proofs/PoolInv.vo Proofs/PoolP.vo Proofs/PoolProgress.vo Proofs/PoolMeasure.vo Proofs/PoolTraceP.vo Proofs/PoolWitness.vo
Props/C29.vio: Props/C29.v Model/Pool.vio Model/PoolTrace.vio Spec/PoolS.vio Proofs/PoolLemmas.vio Proofs/PoolInv.vio Proofs/PoolP.vio Proofs/PoolProgress.vio Proofs/PoolMeasure.vio Proofs/PoolTraceP.vio Proofs/PoolWitness.vio
Props/C29.vos Props/C29.vok Props/C29.required_vos: Props/C29.v Model/Pool.vos Model/PoolTrace.vos Spec/PoolS.vos Proofs/PoolLemmas.vos Proofs/PoolInv.vos Proofs/PoolP.vos Proofs/PoolProgress.vos Proofs/PoolMeasure.vos Proofs/PoolTraceP.vos Proofs/PoolWitness.vos
Spec/NameRepr.vo Spec/NameRepr.glob Spec/NameRepr.v.beautified Spec/NameRepr.required_vo: Spec/NameRepr.v Model/NameWire.vo Spec/NameWireS.vo
Spec/NameRepr.vio: Spec/NameRepr.v Model/NameWire.vio Spec/NameWireS.vio
Spec/NameRepr.vos Spec/NameRepr.vok Spec/NameRepr.required_vos: Spec/NameRepr.v Model/NameWire.vos Spec/NameWireS.vos
Spec/NameWireS.vo Spec/NameWireS.glob Spec/NameWireS.v.beautified Spec/NameWireS.required_vo: Spec/NameWireS.v Base/Res.vo Base/Octets.vo
Spec/NameWireS.vio: Spec/NameWireS.v Base/Res.vio Base/Octets.vio
Spec/NameWireS.vos Spec/NameWireS.vok Spec/NameWireS.required_vos: Spec/NameWireS.v Base/Res.vos Base/Octets.vos
Spec/PoolS.vo Spec/PoolS.glob Spec/PoolS.v.beautified Spec/PoolS.required_vo: Spec/PoolS.v Model/Pool.vo
Spec/PoolS.vio: Spec/PoolS.v Model/Pool.vio
Spec/PoolS.vos Spec/PoolS.vok Spec/PoolS.required_vos: Spec/PoolS.v Model/Pool.vos
